"""Program model of /repo/xeofs built from source only (ast).

* every ``.py`` under ``<repo>/xeofs`` is parsed (a parse failure is an AnalysisError)
* per-module import maps with relative imports and package re-exports resolved
* classes with resolved bases, C3 MRO, methods
* attribute types (``self.a = K(...)``), local variable types, call resolution
"""

from __future__ import annotations

import ast
import os
from dataclasses import dataclass, field
from typing import Iterable, Iterator


class AnalysisError(Exception):
    """The analysis cannot decide (vanished anchor, unparseable file, unresolved call
    on a path a rule must follow ...).  Reported as exit 2, never as a verdict."""


REPO = os.environ.get("XSA_REPO", "/repo")
PKG = "xeofs"


# ----------------------------------------------------------------------------
# data classes
# ----------------------------------------------------------------------------
@dataclass
class FuncInfo:
    name: str
    qualname: str  # module.Class.name or module.name
    module: "ModuleInfo"
    cls: "ClassInfo | None"
    node: ast.FunctionDef
    parent: "FuncInfo | None" = None  # for nested functions
    nested: dict = field(default_factory=dict)

    @property
    def params(self) -> list[str]:
        a = self.node.args
        return [x.arg for x in a.posonlyargs + a.args + a.kwonlyargs]

    @property
    def positional_params(self) -> list[str]:
        a = self.node.args
        return [x.arg for x in a.posonlyargs + a.args]

    @property
    def has_varkw(self) -> bool:
        return self.node.args.kwarg is not None

    @property
    def is_static(self) -> bool:
        return any(
            isinstance(d, ast.Name) and d.id == "staticmethod"
            for d in self.node.decorator_list
        )

    @property
    def is_classmethod(self) -> bool:
        return any(
            isinstance(d, ast.Name) and d.id == "classmethod"
            for d in self.node.decorator_list
        )

    @property
    def is_abstract(self) -> bool:
        return any(
            isinstance(d, ast.Name) and d.id == "abstractmethod"
            for d in self.node.decorator_list
        )

    def defaults(self) -> dict[str, ast.expr]:
        a = self.node.args
        pos = a.posonlyargs + a.args
        out: dict[str, ast.expr] = {}
        for p, d in zip(pos[len(pos) - len(a.defaults):], a.defaults):
            out[p.arg] = d
        for p, d in zip(a.kwonlyargs, a.kw_defaults):
            if d is not None:
                out[p.arg] = d
        return out

    @property
    def relpath(self) -> str:
        return self.module.relpath

    def loc(self, node: ast.AST | None = None) -> str:
        n = node if node is not None else self.node
        return f"{self.module.relpath}:{getattr(n, 'lineno', 0)}"

    def __hash__(self) -> int:
        return hash(self.qualname)

    def __eq__(self, other) -> bool:
        return isinstance(other, FuncInfo) and other.qualname == self.qualname

    def __repr__(self) -> str:
        return f"<Func {self.qualname}>"


@dataclass
class ClassInfo:
    name: str
    qualname: str
    module: "ModuleInfo"
    node: ast.ClassDef
    base_exprs: list[ast.expr]
    bases: list["ClassInfo | str"] = field(default_factory=list)  # str = external
    methods: dict[str, FuncInfo] = field(default_factory=dict)
    class_attrs: dict[str, ast.expr] = field(default_factory=dict)
    mro: list["ClassInfo"] = field(default_factory=list)

    def __hash__(self) -> int:
        return hash(self.qualname)

    def __eq__(self, other) -> bool:
        return isinstance(other, ClassInfo) and other.qualname == self.qualname

    def __repr__(self) -> str:
        return f"<Class {self.qualname}>"

    def resolve(self, meth: str) -> FuncInfo | None:
        for c in self.mro:
            if meth in c.methods:
                return c.methods[meth]
        return None

    def resolve_after(self, after: "ClassInfo", meth: str) -> FuncInfo | None:
        """super(after, self).meth on an instance of self."""
        seen = False
        for c in self.mro:
            if seen and meth in c.methods:
                return c.methods[meth]
            if c == after:
                seen = True
        return None

    def is_subclass_of(self, other: "ClassInfo") -> bool:
        return other in self.mro

    def class_attr(self, name: str) -> ast.expr | None:
        for c in self.mro:
            if name in c.class_attrs:
                return c.class_attrs[name]
        return None


@dataclass
class ModuleInfo:
    name: str  # dotted
    path: str
    relpath: str
    tree: ast.Module
    source: str
    is_package: bool
    imports: dict[str, tuple[str, str | None]] = field(default_factory=dict)
    functions: dict[str, FuncInfo] = field(default_factory=dict)
    classes: dict[str, ClassInfo] = field(default_factory=dict)
    assigns: dict[str, ast.expr] = field(default_factory=dict)
    pm: object = None

    def __repr__(self) -> str:
        return f"<Module {self.name}>"


# ----------------------------------------------------------------------------
# helpers
# ----------------------------------------------------------------------------
def dotted(expr: ast.expr) -> str | None:
    """a.b.c -> 'a.b.c' for pure Name/Attribute chains."""
    parts: list[str] = []
    while isinstance(expr, ast.Attribute):
        parts.append(expr.attr)
        expr = expr.value
    if isinstance(expr, ast.Name):
        parts.append(expr.id)
        return ".".join(reversed(parts))
    return None


def is_self_attr(expr: ast.expr, attr: str | None = None) -> bool:
    return (
        isinstance(expr, ast.Attribute)
        and isinstance(expr.value, ast.Name)
        and expr.value.id == "self"
        and (attr is None or expr.attr == attr)
    )


def const_str(expr: ast.expr | None) -> str | None:
    if isinstance(expr, ast.Constant) and isinstance(expr.value, str):
        return expr.value
    return None


def norm(node: ast.AST | str) -> str:
    """Normalised text of a construct (key for findings; never line numbers)."""
    if isinstance(node, str):
        return " ".join(node.split())
    try:
        return " ".join(ast.unparse(node).split())
    except Exception:  # pragma: no cover
        return "<unparseable>"


def walk_no_nested(node: ast.AST) -> Iterator[ast.AST]:
    """ast.walk that does not descend into nested function/class definitions
    (the root itself may be a def)."""
    stack = [node]
    first = True
    while stack:
        n = stack.pop()
        if not first and isinstance(
            n, (ast.FunctionDef, ast.AsyncFunctionDef, ast.ClassDef, ast.Lambda)
        ):
            continue
        first = False
        yield n
        stack.extend(ast.iter_child_nodes(n))


# ----------------------------------------------------------------------------
# the program model
# ----------------------------------------------------------------------------
class PM:
    def __init__(self, repo: str | None = None, normalise: bool = True):
        self.repo = repo or REPO
        self.normalise = normalise
        self.normalised: dict[str, int] = {}
        self.root = os.path.join(self.repo, PKG)
        if not os.path.isdir(self.root):
            raise AnalysisError(f"package directory {self.root} not found")
        self.modules: dict[str, ModuleInfo] = {}
        self.classes: dict[str, ClassInfo] = {}
        self.functions: dict[str, FuncInfo] = {}
        self._attrtype_cache: dict[tuple[str, str], object] = {}
        self._load()
        self._collect()
        self._link()

    # -- loading -------------------------------------------------------------
    def _load(self) -> None:
        for dirpath, dirnames, filenames in os.walk(self.root):
            dirnames[:] = sorted(d for d in dirnames if d != "__pycache__")
            for fn in sorted(filenames):
                if not fn.endswith(".py"):
                    continue
                path = os.path.join(dirpath, fn)
                rel = os.path.relpath(path, self.repo)
                parts = rel[:-3].split(os.sep)
                is_pkg = parts[-1] == "__init__"
                if is_pkg:
                    parts = parts[:-1]
                name = ".".join(parts)
                try:
                    src = open(path, encoding="utf-8").read()
                    tree = ast.parse(src, filename=path)
                except (SyntaxError, OSError, UnicodeDecodeError) as e:
                    raise AnalysisError(f"cannot parse {rel}: {e}")
                if self.normalise:
                    from .normalize import normalise

                    tree, stats = normalise(tree)
                    for k, v in stats.items():
                        self.normalised[k] = self.normalised.get(k, 0) + v
                self.modules[name] = ModuleInfo(name, path, rel, tree, src, is_pkg)
                self.modules[name].pm = self
        if len(self.modules) < 40:
            raise AnalysisError(
                f"only {len(self.modules)} modules found under {self.root}; expected >= 40"
            )

    def _abs_module(self, mod: ModuleInfo, level: int, target: str | None) -> str:
        if level == 0:
            return target or ""
        base = mod.name.split(".")
        if not mod.is_package:
            base = base[:-1]
        if level > 1:
            base = base[: len(base) - (level - 1)]
        if target:
            base = base + target.split(".")
        return ".".join(base)

    def _collect(self) -> None:
        for mod in self.modules.values():
            for st in mod.tree.body:
                self._collect_stmt(mod, st)

    def _collect_stmt(self, mod: ModuleInfo, st: ast.stmt) -> None:
        if isinstance(st, ast.Import):
            for a in st.names:
                local = a.asname or a.name.split(".")[0]
                target = a.name if a.asname else a.name.split(".")[0]
                mod.imports[local] = (target, None)
        elif isinstance(st, ast.ImportFrom):
            src = self._abs_module(mod, st.level, st.module)
            for a in st.names:
                mod.imports[a.asname or a.name] = (src, a.name)
        elif isinstance(st, ast.FunctionDef):
            fi = FuncInfo(st.name, f"{mod.name}.{st.name}", mod, None, st)
            mod.functions[st.name] = fi
            self.functions[fi.qualname] = fi
            self._collect_nested(fi)
        elif isinstance(st, ast.ClassDef):
            ci = ClassInfo(st.name, f"{mod.name}.{st.name}", mod, st, list(st.bases))
            mod.classes[st.name] = ci
            self.classes[ci.qualname] = ci
            for b in st.body:
                if isinstance(b, ast.FunctionDef):
                    fi = FuncInfo(b.name, f"{ci.qualname}.{b.name}", mod, ci, b)
                    ci.methods[b.name] = fi
                    self.functions[fi.qualname] = fi
                    self._collect_nested(fi)
                elif isinstance(b, ast.Assign):
                    for t in b.targets:
                        if isinstance(t, ast.Name):
                            ci.class_attrs[t.id] = b.value
                elif isinstance(b, ast.AnnAssign) and isinstance(b.target, ast.Name):
                    if b.value is not None:
                        ci.class_attrs[b.target.id] = b.value
        elif isinstance(st, ast.Assign):
            for t in st.targets:
                if isinstance(t, ast.Name):
                    mod.assigns[t.id] = st.value
        elif isinstance(st, ast.AnnAssign) and isinstance(st.target, ast.Name):
            if st.value is not None:
                mod.assigns[st.target.id] = st.value
        elif isinstance(st, (ast.If, ast.Try)):
            for sub in ast.iter_child_nodes(st):
                if isinstance(sub, ast.stmt):
                    self._collect_stmt(mod, sub)

    def _collect_nested(self, fi: FuncInfo) -> None:
        for n in walk_no_nested(fi.node):
            for ch in ast.iter_child_nodes(n):
                if isinstance(ch, ast.FunctionDef) and ch is not fi.node:
                    sub = FuncInfo(
                        ch.name, f"{fi.qualname}.<locals>.{ch.name}", fi.module, fi.cls, ch, fi
                    )
                    fi.nested[ch.name] = sub
                    self.functions[sub.qualname] = sub
                    self._collect_nested(sub)

    # -- linking ---------------------------------------------------------------
    def resolve_name(self, mod: ModuleInfo, name: str, _depth: int = 0):
        """-> ('class', ClassInfo) | ('func', FuncInfo) | ('module', ModuleInfo)
        | ('external', dotted) | ('value', expr) | None"""
        if _depth > 12:
            return None
        if name in mod.classes:
            return ("class", mod.classes[name])
        if name in mod.functions:
            return ("func", mod.functions[name])
        if name in mod.imports:
            src, attr = mod.imports[name]
            if attr is None:
                if src in self.modules:
                    return ("module", self.modules[src])
                return ("external", src)
            full = f"{src}.{attr}" if src else attr
            if full in self.modules:
                return ("module", self.modules[full])
            if src in self.modules:
                return self.resolve_name(self.modules[src], attr, _depth + 1) or (
                    "external",
                    full,
                )
            return ("external", full)
        if name in mod.assigns:
            return ("value", mod.assigns[name])
        return None

    def resolve_expr_static(self, mod: ModuleInfo, expr: ast.expr):
        """Resolve a Name/Attribute chain to a class/function/module/external."""
        if isinstance(expr, ast.Name):
            return self.resolve_name(mod, expr.id)
        if isinstance(expr, ast.Attribute):
            base = self.resolve_expr_static(mod, expr.value)
            if base is None:
                return None
            kind, obj = base
            if kind == "module":
                return self.resolve_name(obj, expr.attr)
            if kind == "external":
                return ("external", f"{obj}.{expr.attr}")
            if kind == "class":
                m = obj.resolve(expr.attr)
                if m is not None:
                    return ("func", m)
            return None
        if isinstance(expr, ast.Subscript):  # Generic[T]
            return self.resolve_expr_static(mod, expr.value)
        return None

    def _link(self) -> None:
        for ci in self.classes.values():
            for b in ci.base_exprs:
                r = self.resolve_expr_static(ci.module, b)
                if r and r[0] == "class":
                    ci.bases.append(r[1])
                else:
                    ci.bases.append(dotted(b) or norm(b))
        for ci in self.classes.values():
            ci.mro = self._c3(ci, ())

    def _c3(self, ci: ClassInfo, stack: tuple) -> list[ClassInfo]:
        if ci.mro:
            return ci.mro
        if ci in stack:
            raise AnalysisError(f"inheritance cycle at {ci.qualname}")
        parents = [b for b in ci.bases if isinstance(b, ClassInfo)]
        seqs = [list(self._c3(p, stack + (ci,))) for p in parents] + [list(parents)]
        res = [ci]
        while True:
            seqs = [s for s in seqs if s]
            if not seqs:
                break
            for s in seqs:
                cand = s[0]
                if not any(cand in t[1:] for t in seqs):
                    break
            else:
                raise AnalysisError(f"inconsistent MRO for {ci.qualname}")
            res.append(cand)
            for s in seqs:
                if s and s[0] == cand:
                    del s[0]
        return res

    # -- lookups ---------------------------------------------------------------
    def cls(self, qual_or_simple: str) -> ClassInfo:
        if qual_or_simple in self.classes:
            return self.classes[qual_or_simple]
        hits = [c for c in self.classes.values() if c.name == qual_or_simple]
        if len(hits) == 1:
            return hits[0]
        if not hits:
            raise AnalysisError(f"class {qual_or_simple} not found (anchor vanished)")
        raise AnalysisError(f"class name {qual_or_simple} ambiguous: {hits}")

    def func(self, qualname: str) -> FuncInfo:
        if qualname in self.functions:
            return self.functions[qualname]
        raise AnalysisError(f"function {qualname} not found (anchor vanished)")

    def method(self, cls: str, meth: str) -> FuncInfo:
        ci = self.cls(cls)
        m = ci.resolve(meth)
        if m is None:
            raise AnalysisError(f"method {cls}.{meth} not found (anchor vanished)")
        return m

    def own_method(self, cls: str, meth: str) -> FuncInfo:
        ci = self.cls(cls)
        if meth not in ci.methods:
            raise AnalysisError(f"{ci.qualname} does not define {meth} (anchor vanished)")
        return ci.methods[meth]

    def all_functions(self) -> Iterable[FuncInfo]:
        return self.functions.values()

    def subclasses(self, ci: ClassInfo) -> list[ClassInfo]:
        return [c for c in self.classes.values() if ci in c.mro]

    def exported_classes(self, subpkg: str) -> list[ClassInfo]:
        """Classes named in ``__all__`` of xeofs.<subpkg>."""
        mod = self.modules.get(f"{PKG}.{subpkg}")
        if mod is None:
            raise AnalysisError(f"package xeofs.{subpkg} not found")
        allv = mod.assigns.get("__all__")
        if not isinstance(allv, (ast.List, ast.Tuple)):
            raise AnalysisError(f"xeofs.{subpkg}.__all__ is not a literal list")
        out = []
        for e in allv.elts:
            s = const_str(e)
            if s is None:
                continue
            r = self.resolve_name(mod, s)
            if r and r[0] == "class":
                out.append(r[1])
        return out

    def concrete_models(self) -> list[ClassInfo]:
        out: list[ClassInfo] = []
        for sp in ("single", "cross", "multi", "validation"):
            for c in self.exported_classes(sp):
                if c not in out:
                    out.append(c)
        return out

    # -- attribute / expression types -------------------------------------------
    def attr_assignments(self, ci: ClassInfo, attr: str) -> list[tuple[FuncInfo, ast.stmt, ast.expr]]:
        """all ``self.<attr> = value`` statements in methods of classes in MRO(ci)."""
        out = []
        for c in ci.mro:
            for m in c.methods.values():
                for n in walk_no_nested(m.node):
                    if isinstance(n, ast.Assign):
                        for t in n.targets:
                            for tt in _flatten_targets(t):
                                if is_self_attr(tt, attr):
                                    out.append((m, n, n.value))
                    elif isinstance(n, ast.AnnAssign) and n.value is not None:
                        if is_self_attr(n.target, attr):
                            out.append((m, n, n.value))
        return out

    def attrtype(self, ci: ClassInfo, attr: str):
        """-> ClassInfo | ('list', ClassInfo) | None, from constructor-style assignments."""
        key = (ci.qualname, attr)
        if key in self._attrtype_cache:
            return self._attrtype_cache[key]
        self._attrtype_cache[key] = None
        res = None
        for m, st, val in self.attr_assignments(ci, attr):
            # `self.a, self.b = (K(i) for i in ...)` / `= K(0), K(1)`: the attribute is ONE element
            if isinstance(st, ast.Assign) and any(isinstance(t, (ast.Tuple, ast.List)) for t in st.targets):
                if isinstance(val, (ast.GeneratorExp, ast.ListComp)):
                    val = val.elt
                elif isinstance(val, (ast.Tuple, ast.List)):
                    for t in st.targets:
                        if isinstance(t, (ast.Tuple, ast.List)) and len(t.elts) == len(val.elts):
                            for te, ve in zip(t.elts, val.elts):
                                if is_self_attr(te, attr):
                                    val = ve
            t = self._ctor_type(m, val)
            if t is not None:
                res = t
                break
        self._attrtype_cache[key] = res
        return res

    def _ctor_type(self, fn: FuncInfo, val: ast.expr, _depth: int = 0):
        if isinstance(val, ast.IfExp):
            return self._ctor_type(fn, val.body, _depth) or self._ctor_type(fn, val.orelse, _depth)
        if isinstance(val, ast.Call):
            r = self.resolve_expr_static(fn.module, val.func)
            if r and r[0] == "class":
                c: ClassInfo = r[1]
                if c.name == "GenericListTransformer" and val.args:
                    r2 = self.resolve_expr_static(fn.module, val.args[0])
                    if r2 and r2[0] == "class":
                        return ("list", r2[1], c)
                return c
            # self._make_x(...) : a private factory method whose return value is a constructor call (or a local bound to one)
            f = val.func
            if _depth < 3 and isinstance(f, ast.Attribute) and isinstance(f.value, ast.Name) and f.value.id in ("self", "cls") and fn.cls is not None:
                m = fn.cls.resolve(f.attr)
                if m is not None and m is not fn:
                    for r in walk_no_nested(m.node):
                        if isinstance(r, ast.Return) and r.value is not None:
                            rv = r.value
                            if isinstance(rv, ast.Name):
                                for st in walk_no_nested(m.node):
                                    if isinstance(st, ast.Assign) and len(st.targets) == 1 and isinstance(st.targets[0], ast.Name) and st.targets[0].id == rv.id:
                                        rv = st.value
                                        break
                            t = self._ctor_type(m, rv, _depth + 1)
                            if t is not None:
                                return t
            # the return annotation of the callee
        if isinstance(val, ast.ListComp):
            t = self._ctor_type(fn, val.elt, _depth)
            if isinstance(t, ClassInfo):
                return ("list", t, None)
        return None

    def annotation_type(self, fn: FuncInfo, ann: ast.expr | None):
        if ann is None:
            return None
        if isinstance(ann, ast.BinOp):  # A | B
            return self.annotation_type(fn, ann.left) or self.annotation_type(fn, ann.right)
        r = self.resolve_expr_static(fn.module, ann)
        if r and r[0] == "class":
            return r[1]
        return None


def _flatten_targets(t: ast.expr) -> Iterator[ast.expr]:
    if isinstance(t, (ast.Tuple, ast.List)):
        for e in t.elts:
            yield from _flatten_targets(e)
    elif isinstance(t, ast.Starred):
        yield from _flatten_targets(t.value)
    else:
        yield t


flatten_targets = _flatten_targets
