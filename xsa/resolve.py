"""Type-directed call resolution on top of the program model.

A *context* is (function, dispatch class, type argument).  ``self.m()`` inside
inherited code resolves on the MRO of the dispatch class; ``self.a.m()`` through the
constructor-derived attribute type; locals through constructor calls, annotations and
loop idioms; ``GenericListTransformer`` element types through the type argument.
"""

from __future__ import annotations

import ast
from dataclasses import dataclass

from .pm import (
    PM,
    AnalysisError,
    ClassInfo,
    FuncInfo,
    const_str,
    dotted,
    flatten_targets,
    is_self_attr,
    walk_no_nested,
)

# Frozen table: untyped ``model`` parameters of rotator fits (reason: the fit methods
# take the base model un-annotated; the docstrings say which family they accept).
MODEL_PARAM_TYPES = {
    # (defining class simple name, parameter) -> class simple name
    ("EOFRotator", "model"): "xeofs.single.eof.EOF",
    ("CPCCARotator", "model"): "xeofs.cross.cpcca.CPCCA",
    ("EOFBootstrapper", "model"): "xeofs.single.eof.EOF",
    ("_BaseBootstrapper", "model"): "xeofs.single.eof.EOF",
}


@dataclass(frozen=True)
class Target:
    fn: FuncInfo | None  # None => external
    bound: ClassInfo | None  # dispatch class for the callee's ``self``
    typearg: ClassInfo | None = None
    external: str | None = None
    recv: str | None = None  # textual receiver path, e.g. 'self.preprocessor1'
    via: str = ""  # how it was resolved

    @property
    def is_internal(self) -> bool:
        return self.fn is not None

    def label(self) -> str:
        if self.fn is not None:
            b = f"[{self.bound.name}]" if self.bound is not None else ""
            return f"{self.fn.qualname}{b}"
        return self.external or "?"


class Ctx:
    def __init__(
        self,
        pm: PM,
        fn: FuncInfo,
        cls: ClassInfo | None = None,
        typearg: ClassInfo | None = None,
        consts: dict | None = None,
    ):
        self.pm = pm
        self.fn = fn
        self.cls = cls if cls is not None else fn.cls
        self.typearg = typearg
        # string constants bound to parameters by the call that led here (only kept for functions that dispatch
        # with getattr(obj, <parameter>))
        self.consts: dict[str, str] = dict(consts or {})
        self._locals: dict[str, object] | None = None

    def key(self) -> tuple:
        return (
            self.fn.qualname,
            self.cls.qualname if self.cls else None,
            self.typearg.qualname if self.typearg else None,
            tuple(sorted(self.consts.items())),
        )

    def __repr__(self) -> str:
        c = self.cls.name if self.cls else "-"
        return f"<Ctx {self.fn.qualname} @ {c}>"

    # ------------------------------------------------------------------ locals
    def local_types(self) -> dict[str, object]:
        if self._locals is not None:
            return self._locals
        out: dict[str, object] = {}
        self._locals = out
        fn = self.fn
        # parameters
        a = fn.node.args
        for p in a.posonlyargs + a.args + a.kwonlyargs:
            t = self.pm.annotation_type(fn, p.annotation)
            if t is None and fn.cls is not None:
                for c in [fn.cls]:
                    k = (c.name, p.arg)
                    if k in MODEL_PARAM_TYPES:
                        t = self.pm.classes.get(MODEL_PARAM_TYPES[k])
            if t is not None:
                out[p.arg] = t
        # two passes so that later assignments can use earlier locals
        for _ in range(2):
            for n in walk_no_nested(fn.node):
                if isinstance(n, ast.Assign) and len(n.targets) == 1:
                    tgt = n.targets[0]
                    if isinstance(tgt, ast.Name):
                        t = self.expr_type(n.value)
                        if t is not None:
                            out[tgt.id] = t
                elif isinstance(n, ast.AnnAssign) and isinstance(n.target, ast.Name):
                    t = None
                    if n.value is not None:
                        t = self.expr_type(n.value)
                    if t is None:
                        t = self._ann_type(n.annotation)
                    if t is not None:
                        out[n.target.id] = t
                elif isinstance(n, (ast.For, ast.comprehension)):
                    self._bind_loop(n.target, n.iter, out)
        return out

    def _ann_type(self, ann: ast.expr | None):
        if ann is None:
            return None
        if isinstance(ann, ast.Name) and ann.id == "T" and self.fn.cls is not None:
            if self.fn.cls.name == "GenericListTransformer":
                return self.typearg or ("T",)
        return self.pm.annotation_type(self.fn, ann)

    def _bind_loop(self, target: ast.expr, it: ast.expr, out: dict) -> None:
        # for x in <typed list>
        if isinstance(it, ast.Call) and isinstance(it.func, ast.Name):
            if it.func.id == "enumerate" and it.args:
                if isinstance(target, ast.Tuple) and len(target.elts) == 2:
                    self._bind_loop(target.elts[1], it.args[0], out)
                return
            if it.func.id == "zip":
                if isinstance(target, ast.Tuple) and len(target.elts) == len(it.args):
                    for t, a in zip(target.elts, it.args):
                        self._bind_loop(t, a, out)
                return
        if not isinstance(target, ast.Name):
            return
        t = self.expr_type(it)
        if isinstance(t, tuple) and t and t[0] == "list":
            out[target.id] = t[1]
        elif isinstance(t, tuple) and t and t[0] == "transformers":
            out[target.id] = t  # heterogeneous: resolved at call time

    # ------------------------------------------------------------ expr typing
    def expr_type(self, e: ast.expr):
        pm = self.pm
        if isinstance(e, ast.IfExp):
            return self.expr_type(e.body) or self.expr_type(e.orelse)
        if isinstance(e, ast.Name):
            if e.id == "self" and self.cls is not None and not self.fn.is_static:
                return self.cls
            if self._locals is not None and e.id in self._locals:
                return self._locals[e.id]
            if self._locals is None:
                return self.local_types().get(e.id)
            r = pm.resolve_name(self.fn.module, e.id)
            return None
        if isinstance(e, ast.Attribute):
            bt = self.expr_type(e.value)
            if isinstance(bt, ClassInfo):
                if bt.name == "GenericListTransformer" and e.attr == "transformers":
                    return ("list", self.typearg or ("T",), None)
                t = pm.attrtype(bt, e.attr)
                if t is not None:
                    return t
                # self.x = model.x  (rotators): same-named attribute typed elsewhere
            if isinstance(bt, tuple) and bt and bt[0] == "list" and e.attr == "transformers":
                # <GenericListTransformer attr>.transformers
                return ("list", bt[1], None)
            return None
        if isinstance(e, ast.Subscript):
            bt = self.expr_type(e.value)
            if isinstance(bt, tuple) and bt and bt[0] == "list":
                if isinstance(e.slice, ast.Slice):
                    return bt
                return bt[1]
            return None
        if isinstance(e, ast.Call):
            # constructor call
            r = pm.resolve_expr_static(self.fn.module, e.func)
            if r and r[0] == "class":
                c: ClassInfo = r[1]
                if c.name == "GenericListTransformer" and e.args:
                    r2 = pm.resolve_expr_static(self.fn.module, e.args[0])
                    if r2 and r2[0] == "class":
                        return ("list", r2[1], c)
                return c
            # self.transformer_class(**kw) inside GenericListTransformer
            if is_self_attr(e.func, "transformer_class"):
                return self.typearg or ("T",)
            # self.get_transformers()
            if (
                isinstance(e.func, ast.Attribute)
                and e.func.attr == "get_transformers"
            ):
                bt = self.expr_type(e.func.value)
                if isinstance(bt, ClassInfo) and bt.resolve("transformer_types"):
                    inverse = any(
                        kw.arg == "inverse"
                        and isinstance(kw.value, ast.Constant)
                        and kw.value.value is True
                        for kw in e.keywords
                    )
                    return ("transformers", bt, inverse)
            # methods returning self (fit) – fluent style  X.fit(...).transform(...)
            if isinstance(e.func, ast.Attribute) and e.func.attr == "fit":
                bt = self.expr_type(e.func.value)
                if bt is not None:
                    return bt
            # self._helper(...) whose return value is a typed expression (return self.transformers[0])
            if isinstance(e.func, ast.Attribute) and isinstance(e.func.value, ast.Name) and e.func.value.id == "self" and self.cls is not None \
                    and getattr(self, "_depth", 0) < 3:
                m = self.cls.resolve(e.func.attr)
                if m is not None and m is not self.fn and e.func.attr.startswith("_") and not e.func.attr.startswith("__"):
                    sub = Ctx(self.pm, m, self.cls, self.typearg)
                    sub._depth = getattr(self, "_depth", 0) + 1
                    for r in walk_no_nested(m.node):
                        if isinstance(r, ast.Return) and r.value is not None:
                            t = sub.expr_type(r.value)
                            if t is not None:
                                return t
            # cls._deserialize(dt) / cls(...) in classmethods
            if isinstance(e.func, ast.Name) and e.func.id == "cls" and self.cls is not None:
                return self.cls
            if (
                isinstance(e.func, ast.Attribute)
                and isinstance(e.func.value, ast.Name)
                and e.func.value.id == "cls"
                and e.func.attr in ("_deserialize", "deserialize")
                and self.cls is not None
            ):
                return self.cls
            return None
        if isinstance(e, ast.ListComp):
            sub = Ctx(self.pm, self.fn, self.cls, self.typearg)
            sub._locals = dict(self.local_types()) if self._locals is not None else {}
            for g in e.generators:
                sub._bind_loop(g.target, g.iter, sub._locals)
            t = sub.expr_type(e.elt)
            if isinstance(t, ClassInfo):
                return ("list", t, None)
        return None

    # -------------------------------------------------------- transformer list
    def transformer_chain(self, prep: ClassInfo) -> list[str]:
        """Attribute names in the dict literal returned by ``transformer_types``."""
        m = prep.resolve("transformer_types")
        if m is None:
            raise AnalysisError(f"{prep.name}.transformer_types vanished")
        for n in walk_no_nested(m.node):
            if isinstance(n, ast.Return) and isinstance(n.value, ast.Call):
                f = n.value.func
                if isinstance(f, ast.Name) and f.id == "dict" and n.value.keywords:
                    return [kw.arg for kw in n.value.keywords if kw.arg]
            if isinstance(n, ast.Return) and isinstance(n.value, ast.Dict):
                ks = [const_str(k) for k in n.value.keys]
                if all(ks):
                    return ks  # type: ignore
        raise AnalysisError(
            f"{prep.name}.transformer_types no longer returns a literal dict; "
            "the get_transformers summary must be re-confirmed"
        )

    # ---------------------------------------------------------- call resolving
    def resolve_call(self, call: ast.Call) -> list[Target]:
        pm = self.pm
        f = call.func
        self.local_types()
        # getattr(obj, "name")(...) / getattr(obj, <parameter bound to a string constant by the caller>)(...)
        if isinstance(f, ast.Call) and isinstance(f.func, ast.Name) and f.func.id == "getattr" and len(f.args) == 2:
            nm = const_str(f.args[1])
            if nm is None and isinstance(f.args[1], ast.Name):
                nm = self.consts.get(f.args[1].id)
            if nm is None:
                return [Target(None, None, external="getattr(?)", via="dynamic")]
            synth = ast.Call(func=ast.Attribute(value=f.args[0], attr=nm, ctx=ast.Load()), args=call.args, keywords=call.keywords)
            ast.copy_location(synth, call)
            ast.copy_location(synth.func, call)
            return self.resolve_call(synth)
        # super().m(...)
        if isinstance(f, ast.Attribute) and isinstance(f.value, ast.Call):
            inner = f.value
            if isinstance(inner.func, ast.Name) and inner.func.id == "super":
                if self.cls is None or self.fn.cls is None:
                    return []
                after = self.fn.cls
                if inner.args:
                    r = pm.resolve_expr_static(self.fn.module, inner.args[0])
                    if r and r[0] == "class":
                        after = r[1]
                if after not in self.cls.mro:
                    # analysing the function standalone on its own class
                    m = after.resolve_after(after, f.attr)
                    bound = after
                else:
                    m = self.cls.resolve_after(after, f.attr)
                    bound = self.cls
                if m is None:
                    return [Target(None, None, external=f"super().{f.attr}", via="super-ext")]
                return [Target(m, bound, self.typearg, recv="self", via="super")]
        if isinstance(f, ast.Attribute):
            recv = f.value
            # Class.m(self, ...)
            r = pm.resolve_expr_static(self.fn.module, recv)
            if r and r[0] == "class":
                m = r[1].resolve(f.attr)
                if m is not None:
                    explicit_self = (
                        call.args
                        and isinstance(call.args[0], ast.Name)
                        and call.args[0].id == "self"
                    )
                    bound = self.cls if explicit_self and self.cls else r[1]
                    return [Target(m, bound, recv="self" if explicit_self else None, via="class")]
                return [Target(None, None, external=f"{r[1].qualname}.{f.attr}", via="class-ext")]
            if r and r[0] == "module":
                rr = pm.resolve_name(r[1], f.attr)
                if rr and rr[0] == "func":
                    return [Target(rr[1], None, via="modfunc")]
                if rr and rr[0] == "class":
                    init = rr[1].resolve("__init__")
                    return [Target(init, rr[1], via="ctor")] if init else []
            if r and r[0] == "external":
                return [Target(None, None, external=f"{r[1]}.{f.attr}", via="external")]
            # typed receiver
            t = self.expr_type(recv)
            rp = dotted(recv)
            if isinstance(t, ClassInfo):
                m = t.resolve(f.attr)
                if m is not None:
                    return [Target(m, t, None, recv=rp, via="typed")]
                return [Target(None, None, external=f"{t.qualname}.{f.attr}", recv=rp, via="typed-ext")]
            if isinstance(t, tuple) and t and t[0] == "list" and t[2] is not None:
                g: ClassInfo = t[2]
                m = g.resolve(f.attr)
                if m is not None:
                    return [Target(m, g, t[1] if isinstance(t[1], ClassInfo) else None, recv=rp, via="listT")]
            if isinstance(t, tuple) and t and t[0] == "T":
                # unknown element of GenericListTransformer: CHA over the TypeVar bound
                outs = []
                for c in self._typevar_bound():
                    m = c.resolve(f.attr)
                    if m is not None:
                        outs.append(Target(m, c, recv=rp, via="cha-T"))
                return outs
            if isinstance(t, tuple) and t and t[0] == "transformers":
                prep: ClassInfo = t[1]
                outs = []
                names = self.transformer_chain(prep)
                if t[2]:
                    names = names[::-1]
                for a in names:
                    at = pm.attrtype(prep, a)
                    if isinstance(at, ClassInfo):
                        m = at.resolve(f.attr)
                        if m:
                            outs.append(Target(m, at, recv=f"self.{a}", via="transformers"))
                    elif isinstance(at, tuple) and at[0] == "list" and at[2] is not None:
                        m = at[2].resolve(f.attr)
                        if m:
                            outs.append(Target(m, at[2], at[1], recv=f"self.{a}", via="transformers"))
                    else:
                        raise AnalysisError(
                            f"cannot type transformer attribute {prep.name}.{a}"
                        )
                return outs
            return [Target(None, None, external=f"?.{f.attr}", recv=rp, via="unknown")]
        if isinstance(f, ast.Name):
            # nested function
            fn = self.fn
            while fn is not None:
                if f.id in fn.nested:
                    return [Target(fn.nested[f.id], None, via="nested")]
                fn = fn.parent
            if f.id == "cls" and self.cls is not None:
                init = self.cls.resolve("__init__")
                return [Target(init, self.cls, via="ctor")] if init else []
            r = pm.resolve_name(self.fn.module, f.id)
            if r and r[0] == "func":
                return [Target(r[1], None, via="modfunc")]
            if r and r[0] == "class":
                init = r[1].resolve("__init__")
                if init is not None:
                    return [Target(init, r[1], via="ctor")]
                return [Target(None, None, external=f"{r[1].qualname}.__init__", via="ctor-ext")]
            if r and r[0] == "external":
                return [Target(None, None, external=r[1], via="external")]
            return [Target(None, None, external=f.id, via="builtin")]
        return []

    def _typevar_bound(self) -> list[ClassInfo]:
        mod = self.fn.module
        tv = mod.assigns.get("T")
        out: list[ClassInfo] = []
        if isinstance(tv, ast.Call):
            for kw in tv.keywords:
                if kw.arg == "bound":
                    for n in ast.walk(kw.value):
                        if isinstance(n, ast.Name):
                            r = self.pm.resolve_name(mod, n.id)
                            if r and r[0] == "class":
                                out.append(r[1])
        return out

    def sub(self, t: Target, call: ast.Call | None = None) -> "Ctx":
        assert t.fn is not None
        consts = {}
        if call is not None and _uses_getattr(t.fn):
            a = t.fn.node.args
            pos = [x.arg for x in a.posonlyargs + a.args]
            if pos and t.fn.cls is not None and not t.fn.is_static:
                pos = pos[1:]
            for i, x in enumerate(call.args):
                if i < len(pos):
                    v = const_str(x) or (self.consts.get(x.id) if isinstance(x, ast.Name) else None)
                    if v is not None:
                        consts[pos[i]] = v
            for k in call.keywords:
                if k.arg:
                    v = const_str(k.value) or (self.consts.get(k.value.id) if isinstance(k.value, ast.Name) else None)
                    if v is not None:
                        consts[k.arg] = v
        return Ctx(self.pm, t.fn, t.bound, t.typearg, consts)

    # functions passed by reference to apply_ufunc-like callers
    def func_refs(self, call: ast.Call) -> list[Target]:
        outs: list[Target] = []
        for a in list(call.args) + [k.value for k in call.keywords]:
            if isinstance(a, ast.Attribute) and is_self_attr(a) and self.cls is not None:
                m = self.cls.resolve(a.attr)
                if m is not None:
                    outs.append(Target(m, self.cls, self.typearg, recv="self", via="ref"))
            elif isinstance(a, ast.Attribute):
                t = self.expr_type(a.value)
                if isinstance(t, ClassInfo):
                    m = t.resolve(a.attr)
                    if m is not None:
                        outs.append(Target(m, t, recv=dotted(a.value), via="ref"))
            elif isinstance(a, ast.Name):
                fn = self.fn
                found = False
                while fn is not None:
                    if a.id in fn.nested:
                        outs.append(Target(fn.nested[a.id], None, via="ref"))
                        found = True
                        break
                    fn = fn.parent
                if not found:
                    r = self.pm.resolve_name(self.fn.module, a.id)
                    if r and r[0] == "func":
                        outs.append(Target(r[1], None, via="ref"))
        return outs


_GETATTR: dict[int, bool] = {}


def _uses_getattr(fn: FuncInfo) -> bool:
    k = id(fn.node)
    if k not in _GETATTR:
        _GETATTR[k] = any(isinstance(n, ast.Call) and isinstance(n.func, ast.Name) and n.func.id == "getattr" for n in ast.walk(fn.node))
    return _GETATTR[k]


def calls_in(fn: FuncInfo) -> list[ast.Call]:
    return [n for n in walk_no_nested(fn.node) if isinstance(n, ast.Call)]


def reachable(pm: PM, start: Ctx, follow_refs: bool = True, limit: int = 4000):
    """Transitive closure of internal calls from a context.
    Yields (ctx, call_node, target, path) for every resolved internal call edge;
    path is the list of (ctx, call) leading there."""
    seen: set[tuple] = set()
    stack: list[tuple[Ctx, tuple]] = [(start, ())]
    n = 0
    while stack:
        ctx, path = stack.pop()
        if ctx.key() in seen:
            continue
        seen.add(ctx.key())
        for call in calls_in(ctx.fn):
            targets = ctx.resolve_call(call)
            if follow_refs:
                targets = targets + ctx.func_refs(call)
            for t in targets:
                n += 1
                if n > limit:
                    raise AnalysisError("call-graph exploration limit hit")
                yield ctx, call, t, path
                if t.fn is not None:
                    stack.append((ctx.sub(t, call), path + ((ctx, call),)))
