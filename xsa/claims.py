"""What is claimed per property (source of MANIFEST.json; see tools/mkmanifest.py)."""

PENDING = "check not built yet in this session (work in progress; see DESIGN.md section 4)"

CLAIMS = {
    "C01": {
        "text": "Provenance (def-use chains with operator paths) of the values EOF._fit_algorithm stores: explained variance is "
        "exactly one **2 and one division by (sample size - 1) of the decomposed matrix, total variance is var(ddof=1) along the "
        "sample dimension of that same (augmented) matrix; V is VT conjugate-transposed in both SVD wrappers, reconstruction "
        "contracts with conj(components) and projection with plain components (EOF, SparsePCA, ExtendedEOF); the ascending svds "
        "branch re-sorts U, s, VT by one descending argsort and every truncation keeps a prefix; scores=U*s, norms=s, components=V; "
        "Hilbert and Extended variants reach the same routine. ExtendedEOF's inner EOF centres the embedded matrix and applies neither standardisation nor latitude weights again; the exponential padding added before the Hilbert transform is cut off again under the same condition, keeping [n, 2n). No accessor rescales the stored components / scores in place. The delay-embedded matrix keeps exactly N - (embedding - 1) * tau rows (slice stop compared as a polynomial normal form). The explained variance ratio divides the stored explained variance by the stored total variance and nothing else touches either value (no floor / clip on the denominator); the series reaches ExtendedEOF's delay embedding in the caller's order (no re-ordering / selection along the sample dimension).",
        "note": "Necessary structural clauses only. Not decided: orthonormality, eigenvalue equality with an independent solver, "
        "Eckart-Young optimality, accuracy of the randomised path, Hilbert transform arithmetic. Trusted: np.linalg.svd descending / "
        "svds ascending order, default ddof=0.",
        "technique": "def-use provenance with operator paths (exponent/denominator classification, conjugation parity), slice-shape checks",
    },
    "C02": {
        "text": "The Preprocessor's stage table is the single source of order: fit applies the seven stages in table order, each fed by the previous one; "
        "transform walks the table forward, every inverse map walks it reversed calling the stage's own inverse; serialize/deserialize walk it too. Per "
        "stage the inverse reads what the forward wrote for the same role: Stacker stack/unstack and rename pairs on sample_name/feature_name with "
        "dims_mapping, Dataset variable-level name, dispatch on the stored type name, dimension order restored on every unstack path; Concatenator "
        "splits with the offsets it concatenated with and re-attaches the recorded coordinates; MultiIndexConverter records/restores exactly the "
        "converted dimensions with the right reference per inverse; DimensionRenamer inverts its own mapping. List items reach xr.concat with their own sample labels and are joined by label (no override join, raw-array concatenation or sample relabelling); the two MultiIndex coordinate stores are distinct objects; the MultiIndex inverse re-attaches the labels and rebuilds the index. The level names recorded for a serialised MultiIndex coordinate are the index's own names. Stacker.transform stacks with the dimension lists recorded at fit; mappings keyed by the stringified list position are walked in insertion or numeric order. Stacker.transform compares the labels along every feature dimension in order with the recorded ones and brings a Dataset into the variable / dimension layout recorded at fit; the unstack variants rename the stacked sample name only where it is a dimension of the data. The Dataset inverse un-stacks the feature dimension only (no bare unstack / squeeze outside the legacy fallback); reconstructions carry the fitted coordinate order; internal dimension names are numbered from the sample dimensions given to fit. The MultiIndex is rebuilt from the levels of the remembered index itself, not from the coordinates lying along the dimension.",
        "note": "Necessary structural clauses only. Not decided: value-at-label equality, xarray's stack/unstack behaviour for exotic indexes, sortedness "
        "after unstack. Label paths for unseen data are decided under C05, NaN re-insertion under C06.",
        "technique": "call-sequence extraction against a table literal, writer/reader agreement by provenance, match-dispatch comparison",
    },
    "C03": {
        "text": "Scaler.transform and inverse_transform_data are reduced to their affine steps (operator, fitted factor, flag): every factor is undone "
        "by the inverted operator under the same flag, once, with the mean removed first and restored last; every def-use path of data through "
        "the stage objects of the single- and cross-set families respects preprocessor -> pca -> whitener forward and the reverse back, never "
        "crosses fields, and public results leave through the preprocessor's inverse; PCA/whitener score maps are identities; every "
        "'normalized' switch divides in score-producing directions and multiplies in the others by the per-mode norms of the same field. Whitener un-whitening uses Tinv with the conjugation of T (PCA: V and V^H); every 'normalized' switch is either applied to a per-mode norm or handed on. No accessor rescales stored arrays in place; in functions serving both fields the switch acts on both; arrays computed from a coordinate carry their own name (so that the serialiser does not store them as that coordinate). The whitening kernel's outputs are labelled T: (feature, mode), Tinv: (mode, feature). No real-part / modulus projection precedes un-whitening and PCA expansion in the cross-set family; the Dataset and DataArray unstack variants agree on the guarded rename. No absolute machine-epsilon cut-off on data-derived values; the Hilbert augmentation removes the mean of the imaginary part only; reconstructions can be handed back to transform (fitted coordinate order).",
        "note": "Necessary structural clauses only. Not decided: the numerical round-trip identity, SparsePCA/POP approximations.",
        "technique": "affine-map extraction by provenance + guard analysis, stage-chain order typing over def-use paths, field-index typing",
    },
    "C04": {
        "text": "Every projection of data on stored components (cross family, both rotator families, EOF, SparsePCA) is typed: components that passed a "
        "whitener pattern map are patterns and may not serve as projection weights, and the number of forward stages on the data matches the basis of "
        "the components; the cross rotator stores its vectors in whitened PC space; every per-mode factor the rotators' fit applies to the model's "
        "score chain and stores (singular values, norms, sign) is applied by transform with the same operator, per field; no list accumulator "
        "initialised before a loop is rebound inside it (positive fixture fires each run). Rotator transform re-sorts its projections exactly as _sort_by_variance re-sorts the stored entries. What reaches the projection / prediction algorithm has passed every forward stage of its field; rotated vectors are lowered through both pattern inverses before the rotation; fit and transform agree on the per-mode factors in both directions; every result is re-sorted; no accessor rescales stored arrays in place. The rotators' transform rotates projections with the inverse conjugate transpose obtained through the shared helper (as fit does). The stored sign convention multiplies the re-sorted projections, once. The label path of transform reads what this call recorded and has no fall-back to fit-time coordinates (shared with C05).",
        "note": "Necessary structural clauses only. Not decided: numerical equality, tolerance, sign identity as values. Field-index and stage-order "
        "clauses of transform are decided under C03/C09; the rotation-matrix pairing under C11; label paths under C05.",
        "technique": "pattern/weight and basis typing of dot-product operands from stage provenance, fit-vs-transform factor agreement by source signatures, AST lint with fixture",
    },
    "C05": {
        "text": "The label-restoring methods bound to fit-time sample coordinates are derived (attributes fit fills from .coords, read by "
        "inverse_transform_scores); from transform/predict of every concrete model (30+ entry points, dispatch on the concrete class) the resolved call "
        "graph reaches none of them; the *_unseen variants read no such state; every Preprocessor.inverse_transform_scores_unseen call is preceded "
        "by transform of the same object (dominators, correlated is-not-None blocks, earlier loops); on all functions reachable from transform no "
        "statistic of the new data along samples is combined arithmetically with that data. No sample COUNT of the new data (.size, .sizes[sample], .shape[0], len) is fed back into the scores; the unseen label path aligns nothing by label. Coordinates recorded by a stage's transform are re-attached to what is left of the samples.",
        "note": "Necessary structural clauses only. Not decided: absence of spurious NaNs numerically; concatenation equality as values.",
        "technique": "call-graph reachability to derived typestate sinks, must-precede over CFG dominators, def-use provenance for per-sample purity",
    },
    "C06": {
        "text": "Sanitizer.transform, under check_nans: a raise fires when the current valid-feature mask differs from the fitted one, a raise fires on the "
        "isolated-NaN predicate (count in {0, number of valid features}), the returned array is where(features & samples, drop=True); the coordinate "
        "identity check raises and dominates the mask computation; fit goes through transform; the three inverse maps reindex the right dimension to "
        "the right remembered coordinates and scores/components/inverse_transform of every concrete model reach them; the cross-set fit is checked for "
        "a joint treatment of both fields' valid samples (known finding: absent). Per-item sample deletions of list input are reconciled by label at concatenation. The rotator's sample count is that of the decomposed matrix. Fitted statistics combined with the data before the sanitizer stage are finite at entirely missing features (filled after the reduction). List items are refused unless they hold the same samples.",
        "note": "Necessary structural clauses only. Not decided: equality with the model fitted on reduced data; NaN-freeness of values. Known "
        "finding CROSS.joint recorded in known_findings.json.",
        "technique": "guard/raise role analysis by provenance of the guard condition, dominators, call-graph reachability",
    },
    "C07": {
        "text": "Every module, function and call site of xeofs is enumerated: no dimension is addressed through the "
        "literals 'sample'/'feature' (constants, keywords, attribute access), no callee with a literal dimension "
        "default is called without the configured names, and Stacker canonicalises to (sample_name, feature_name). "
        "This is the necessary structural clause of naming-independence; exhaustive over the finite site space. List items are aligned by sample label whatever order each stores its samples in; Stacker inverses change labels only by rename / unstack. Rotated loadings return to model space pca -> whitener (label-based products pair labels of the same space). Per-element bookkeeping keyed '0', '1', ... is walked in list order. Stacker.transform stacks with the recorded dimension lists and the recorded Dataset layout. get_dims reports the sample dimensions in the order the user gave, never in the data's own dimension order.",
        "note": "Decides the NAMES clauses only. Not decided: numerical invariance under permutations/partitions, sign "
        "determinism as values. Trusted: ast, the class/constructor-flow resolver, the one table exemption (Scaler.dims keys).",
        "technique": "AST lint over resolved program (literal dimension designators, call-site default binding, constructor-parameter flow)",
    },
    "C08": {
        "text": "Constructor-parameter flow of every concrete model: center/standardize/use_coslat/check_nans/compute reach the Preprocessor keyword of the "
        "same meaning (element [i] for field i of cross-set models) and, inside the Preprocessor, the Scaler/Sanitizer keyword; in Scaler.fit/transform/"
        "inverse each flag guards exactly its own fitted factor and every factor acts once; user weights reach Scaler.weights_ unchanged through "
        "entry point -> Preprocessor -> iter_kwargs['weights'] -> per-item fit(**{k: v[i]}) for the right field and no other stage; mean_/std_ are "
        "reductions over the sample dimensions; latitude weights are sqrt(cos(deg2rad(lat)).clip(0,1)) of a feature dimension. The user's weights reach the scaler with their own labels (no re-labelling, re-indexing or raw-value access on the way). Between sqrt(cos(lat)) and the stored factor the latitude weights pass label operations only. Bound / fill values of the fitted mean / std are constants. No absolute machine-epsilon cut-off on data-derived values.",
        "note": "Necessary structural clauses only. Not decided: the invariances themselves, the 1.2e-7 clipping floor, latitude-name detection beyond the lookup.",
        "technique": "interprocedural constructor-parameter flow, guard-to-operation pairing, def-use provenance through dict/loop forwarding",
    },
    "C09": {
        "text": "All covariance-type divisions of cpcca.py are classified (N-1 vs N) and must agree with the ddof of the standard deviation "
        "that normalises correlations (CPCCA kernels and pearson_correlation separately); every transposed factor of a matrix product in "
        "the complex-capable kernels (cpcca, whitener, statistics, fractional power, rotation) is a conjugate transpose; reconstruction "
        "operands are conjugated, projection operands not, score norms have exactly one conjugated factor; the sample-count comparison "
        "raises before the cross product; stage calls, dot products, norm factors and correlation calls never mix field indices "
        "(heterogeneous patterns cross, homogeneous do not). In the shared fit each field passes preprocessing -> PCA -> augmentation -> whitening -> algorithm in that order, the whitener being fitted on the output of the augmentation. No accessor rescales the stored scores / singular vectors in place. The whitening matrix is (X^H X / n) ** ((alpha - 1) / 2) and the stored inverse its inverse (kernel rules shared with C16). Inside every two-field function the operations applied to field 1 and to field 2 are the same multiset (sibling rule, provenance-based).",
        "note": "Necessary structural clauses only. Not decided: diagonal cross-covariance, proportionality factors, SCF sums, canonical "
        "correlations as numbers, bounds in [-1,1] as values. Trusted: numpy std default ddof=0.",
        "technique": "denominator/ddof classification, Hermitian-transpose lint over matmul chains, conjugation parity, guard dominance, field-index abstract typing",
    },
    "C10": {
        "text": "The nine named cross-set classes are enumerated through their constructor chains: each pins exactly the alpha "
        "pair the property fixes, does not accept alpha, drops it from the stored parameters, and resolves every method of "
        "its general class to the same function (C3 MRO, 12 class pairs incl. MCA rotators); alpha[i] reaches whitener i; "
        "all eight Whitener/PCA maps return their argument untouched on the identity branch; n_modes='all' resolves to the rank; "
        "an interval analysis of the delay-embedding slice bound shows no 'slice(None, -0)'. ExtendedEOF's inner EOF does not repeat standardisation / weighting (embedding=1 equals EOF); named classes forward every shared option to the general class. With a single embedding the sample cut keeps all samples for every delay (polynomial normal form). EOF's explained variance keeps the second-moment convention s**2/(N-1) that the coincidences compare against (shared with C01).",
        "note": "Necessary structural clauses only. Not decided: SparsePCA(no penalty)=EOF, MCA(X,X)=EOF, Complex(real)=real, "
        "multi-set vs cross-set CCA (numerical coincidences). Trusted: constructor-flow resolver, documented domains embedding>=1, tau>=0.",
        "technique": "constructor-parameter flow + C3 MRO comparison + guard/return analysis + interval abstract interpretation of a slice bound",
    },
    "C11": {
        "text": "In both rotator families (fit and transform) every product applying the rotation matrix to scores goes through the "
        "inverse-conjugate-transpose helper, which inverts and conj-transposes for power > 1; the sort index is the reversed argsort of "
        "exactly the stored importance (explained variance / squared covariance); _sort_by_variance covers every entry with a mode "
        "dimension except the index; 'sorted' is reset before any result is stored, set after sorting, guards idempotence, transform "
        "re-sorts iff sorted, sorting is reachable only via _post_compute behind the compute flag; modes_sign multiplies all members of "
        "its factor group in fit and transform; pseudo-norms use N-1. The importance the rotated modes are ordered by is computed from the rotated loadings; the inverse of the rotation matrix is transposed (output dimensions reversed); the kernels return a product with the rotation matrix as returned, not one formed before its last update. modes_sign is applied to the re-sorted projections, once on every path. The cross-set rotator treats the loadings / scores of the two fields alike (sibling rule). The norms stored for rotated modes are sqrt(rotated explained variance * (N-1)) - a missing sample-count factor is a violation, not an analysis error.",
        "note": "Necessary structural clauses only. Not decided: unitarity of R, conserved variance sum, Varimax criterion, reconstruction "
        "equality as numbers (the numerical core of _varimax/_promax is not analysed).",
        "technique": "def-use provenance (pairing through a helper call), typestate of a flag over CFG dominators, loop-condition exhaustiveness, sibling agreement",
    },
    "C12": {
        "text": "Interprocedural may-taint analysis from the data arguments of fit over the resolved call graph of all 27 models whose constructor "
        "takes compute (dispatch on the concrete class; apply_ufunc kernels followed according to their dask mode; accumulator lists, result "
        "containers and attributes of helper objects carry taint; metadata accessors cleanse): every certainly-materialising operation "
        "(.values, .item(), compute/load, float/int/bool, truth value of an array, np.asarray, equals/identical, dropna, where(drop=True), "
        "np.linalg.eig, assignment into numpy buffers) on lazy data must be control-dependent on a compute/check_nans flag somewhere on the call "
        "path or lie after an 'if use_dask: raise'; input data entries are stored with allow_compute=False and both compute() methods filter on it. Inner models / solvers take their compute and check_nans flags from the outer model; in every branch chain that tests for dask-backed data, what one branch assigns and is used afterwards every falling-through branch assigns (no post-processing for one kind of array only). No container is built from the entries of another one (the constructor resets allow_compute). No flag is read from self.attrs (re-encoded in place by every fit; premise checked).",
        "note": "Necessary structural clauses only. Not decided: equality with the in-memory fit, scheduler independence, what dask's own routines "
        "do. multi.CCA scoped out (refuses dask input). Known findings: OPA (.dropna) and POP (eig, buffer loop) - see known_findings.json. "
        "Trusted: frozen table of materialising operations and of metadata accessors.",
        "technique": "interprocedural taint analysis with guard (control-dependence) protection over the resolved call graph",
    },
    "C13": {
        "text": "For all 29+ serialisable model classes the key set of _params after the __init__ chain (abstractly interpreted: dict "
        "literal, update, item assignment, pop) is closed under cls(**params); sklearn-style transformers store every constructor "
        "parameter under its name; every attribute assigned outside __init__ and read on a post-fit path is serialised; every marker "
        "literal a deserialiser reads is written by a serialiser; the netCDF attribute codec has no unguarded constant subscript on a "
        "possibly empty string and no unhandled literal_eval (positive fixture fires on every run). Deserialised container attributes are distinct objects; the netCDF attribute codec is applied to node-level and variable-level attributes in both directions, written back under the key read. Arrays computed from a coordinate are named; recorded MultiIndex levels are the index's own; deserialisation entry points run no finalising hook. List transformers are rebuilt in list order (position-keyed mapping walked in insertion or numeric order). Serialised attributes hold plain values (no raw Dataset.dims / sizes mapping proxies). User arrays kept as serialised state are renamed at intake. The netCDF attribute codec is injective: the writer escapes exactly the strings the reader's predicate would decode, on both attribute levels.",
        "note": "Necessary structural clauses only. Not decided: value identity of results after a round trip; the real netCDF/zarr "
        "engines. Known finding: GWPCA constructor closure (see known_findings.json).",
        "technique": "key-set abstract interpretation of constructor chains, writer/reader literal agreement, guard (try/except, emptiness) analysis",
    },
    "C14": {
        "text": "Persistent vs per-fit objects are derived from constructor call sites. On the fit path of every persistent class no list/dict "
        "attribute grows without a dominating fresh reset; a must-assigned / may-read analysis (with correlated hyper-parameter flags) over fit and "
        "compute of every concrete model and persistent transformer shows no attribute that fit rewrites being read before it is rebuilt; "
        "transform-written attributes are not read by fitted-data accessors; arrays read from another model's container or the caller's inputs never "
        "reach DataContainer.add or an in-place assignment without an intervening fresh object; borrowed stage objects are never re-fitted; mutable "
        "defaults are never mutated. No two attributes of an object are bound to one mutable container (any method, directly or through a local); query methods do not modify stored results in place. No memo (cached_property / lru_cache) of a value derived from fitted state survives a refit. No configuration is read from self.attrs, which every fit re-encodes in place. Stage objects taken over from a model are copies; serialisation functions do not write on live objects.",
        "note": "Necessary structural clauses only. Not decided: bit-identical equality with a fresh model. Trusted: which operations return fresh "
        "objects (any xarray/numpy method call or arithmetic), DataContainer.add/set_attrs mutate what they are given.",
        "technique": "typestate/history analysis: must-def / exposed-read dataflow across calls, ownership (borrowed vs fresh) provenance, dominators",
    },
    "C15": {
        "text": "Every ** splat of a value flowing from solver_kwargs is checked not to target an xeofs callable; in both SVD wrappers "
        "all four solver branches hand over the user's options and seed the randomised solvers from self.random_state; no global RNG "
        "draw exists and generator constructors are seeded; every callee taking random_state receives it wherever a seed is in scope "
        "(unless pinned to the exact solver); each match on the solver has exactly the documented cases plus a raising default; the "
        "sign multiplier is computed from VT along the feature axis and multiplies U and V; the two wrappers agree on solver keyword "
        "sets, on the svds re-sort and on the canonical threshold count n_pre - #(cum >= f) + 1 with N-1/ddof=1. Only the number of modes, the seed (and svds' solver) are imposed over the user's solver_kwargs, everything else the wrappers set is a default the user's dict overrides; the exact solver runs exactly when the solver policy flag says so. No generator object created in a constructor is kept on the model or handed to the helper objects it builds. A seed is never tested for truth (0 is a valid seed). The modes counted as reaching a variance fraction are exactly those of the one order comparison cumulative >= f (nothing or-ed to it, no tolerance).",
        "note": "Necessary structural clauses only. Not decided: minimality of the threshold count as arithmetic on values, agreement of "
        "exact and randomised results, bit-identity as values. Trusted: table of solver seed keywords (sklearn/scipy/dask APIs).",
        "technique": "def-use provenance through dict merges and tuple unpacking, call-site parameter binding, match exhaustiveness, sibling cross-check of extracted facts",
    },
    "C16": {
        "text": "For Whitener and PCA the fitted matrix, conjugation parity and transposition used by each of the four maps are extracted from "
        "the single dot product of each map: the pattern map is the adjoint of the data map in both directions, forward/inverse use the "
        "inverse pair (T/Tinv; V/V^H), forward maps contract the feature dimension and inverse maps the mode dimension; Tinv is computed "
        "from T (inv and pinv fallback) and stored in the returned order; the exponent evaluates to (alpha-1)/2; the Gram matrix is X^H X and "
        "the fractional power is rebuilt as V diag(s**p) V^H; the dimension check dominates every product in fit and transform. The kernel's outputs are labelled T: (feature, mode), Tinv: (mode, feature); both operands of every stage product carry the contraction dimension (renamed to it where it is a helper name). No memoised derived matrix survives a refit.",
        "note": "Necessary structural clauses only. Not decided: cov(whitened) = C**alpha numerically, Hermitian-ness, orthonormality, "
        "conditioning. Identity branches are checked under C10.",
        "technique": "adjoint typing of linear maps from provenance (matrix attribute, conjugation parity, transposition), small arithmetic evaluation of the exponent, dominators",
    },
    "C17": {
        "text": "Every public data entry point (fit/transform/predict of 31 concrete models, each data parameter) validates the container type before any "
        "other use (validate_input_type dominating the uses, or the preprocessor chain whose first stage begins with an isinstance guard that dominates "
        "its uses); Scaler.transform's arithmetic with fitted arrays is dominated by a raising dimension check; 30+ role guards exist, raise under the "
        "right condition and precede the use they protect: n_modes sanity (both SVD wrappers), init_rank_reduction range, rank, negative alpha, unknown "
        "solver, item counts, transform dimensions / feature coordinates, empty dims, MultiIndex, name clash, 2-D dims, dim type, 'X or Y required', "
        "cross-set sample count, concatenator and multi-set view validation. Every fitted array Scaler.transform combines with the data is covered by the dimension check; init_rank_reduction is validated exactly when n_modes is a variance fraction; the bounds of the n_modes validation (int < 1, float outside (0, 1], other strings) and the Stacker's container-type check are in place. In every _inverse_transform_algorithm the stored array contracted with a score argument is selected by that argument's own mode labels. Feature labels of transform data are compared in order with the recorded ones. A MultiIndex along a feature dimension is compared (in order) with the fitted one before it is replaced by positions; feature labels are compared as index labels; n_modes is validated at construction or at fit by every single-set model; multi-set CCA transform checks the number of views. At the public inverse_transform entry a per-mode entry that meets the given scores arithmetically is selected by the scores' own mode labels first (an aligned product would inner-join unknown modes away). Before the scaling arithmetic the data's index along every fitted dimension is compared (order-sensitively) with the fitted arrays' index, and Dataset input is validated variable by variable; a dimension check that reads bookkeeping which is not serialised does not count as covering the fitted arrays.",
        "note": "Necessary structural clauses only. Not decided: which exception type; that no numbers come out for every malformed call; rejections that "
        "xarray itself performs (unknown dimension names / mode labels).",
        "technique": "must-precede (dominator) analysis of guards, raise-condition role matching, call-site binding",
    },
    "C18": {
        "text": "POP: ordering by the standard deviation of the coefficient series (second kernel output) along the sample dimension, descending, "
        "full re-ordering coverage and the 'sorted' typestate incl. reset at fit; fit and transform obtain coefficients from one routine with "
        "data and patterns both mapped into PC space and stored patterns mapped back; the kernel returns eigenvalues, -1/log|lambda| and "
        "2*pi/arg(lambda) of the eigen-solver's values and fit stores each output under the matching name; the feedback matrix has the form "
        "(lead^H lag)(lag^H lag)^-1 with conjugate transposes. Modes are ordered by the standard deviation of the POP coefficients. The series reaches the lag-1 kernel in the caller's order: no re-ordering, selection or re-gridding along the sample dimension on POP's fit path.",
        "note": "Small structural part only. Not decided: the eigen-relation A p = lambda p, conjugate pairing, the coefficient formula "
        "(Storch eq. 19), oscillator recovery - arithmetic on values.",
        "technique": "def-use provenance through apply_ufunc kernels (output index to container key), typestate, matmul-chain shape",
    },
    "C20": {
        "text": "EOFBootstrapper.fit: no literal dimension designators, member EOFs built and fitted with the model's names; the generator is seeded "
        "from the seed parameter, draws n_samples out of n_samples with replacement, the draw selects along the sample dimension of the model's "
        "preprocessed data, the member is fitted on that resample and projects the original data; the alignment sign derives from member and model "
        "scores along samples and multiplies both components and scores; members are labelled 1..n_bootstraps on all four results; the model's arrays "
        "are stored as copies and the model's objects are not re-fitted. The generator is re-created from the seed inside fit; the four results are labelled n = 1..n_bootstraps (through helpers). The member model's effective constructor switches: center True, standardize / use_coslat False. The alignment sign is the sign of the real part of a centred (Pearson), Hermitian product of member and model scores.",
        "note": "Necessary structural clauses only. Not decided: that members are EOFs of the resample numerically, non-negative correlation, variance bounds.",
        "technique": "def-use provenance of the resampling pipeline (seed, draw, selection, fit, projection), ownership provenance",
    },
}

NOT_APPLICABLE = {
    "C19": "every clause is a numerical identity or optimality statement about a generalised eigenproblem "
    "(uncorrelated series, bi-orthogonality, trapezoidal lag sum, optimal decorrelation time); the only structural hook "
    "(half weights at lag 0 and tau_max) could be checked only by matching the accumulation loop's text, i.e. a frozen fragment",
}
for _p in ["C01", "C02", "C03", "C04", "C05", "C06", "C08", "C09", "C10", "C11", "C12", "C13", "C14", "C15", "C16", "C17", "C18", "C20"]:
    if _p not in CLAIMS:
        NOT_APPLICABLE[_p] = PENDING

FIX_COMMITS: list[str] = ['66ece4b', 'ed076f6', '9a78ace', 'cf5abcd', '44e0064', '50d9a93', '83c3286', 'a1f053b', 'f5a50f1', 'f91da99', '5bc6ab8', '535dacf', '4fafdb0', 'f5c4825', 'b539edf', '6aa614c', '5bf1e4c', '7d40fdd', '06b897f', '456072f', '3fe121c', '76a2a6e', '3fca62d', '40b40f5', '26afd29', '1cd4dd0', 'a73d8de', 'ecd49ca', '80098d5', 'ed1bc9f', '8ac783d', '6ca6be5', '0e40cc3', '2b55b4e', 'caffa9a', 'a8e7280', 'cadc9b9', '4611075', 'b9d4fb1', 'd36c800']
