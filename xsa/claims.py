"""What is claimed per property (source of MANIFEST.json; see tools/mkmanifest.py)."""

PENDING = "check not built yet in this session (work in progress; see DESIGN.md section 4)"

CLAIMS = {
    "C07": {
        "text": "Every module, function and call site of xeofs is enumerated: no dimension is addressed through the "
        "literals 'sample'/'feature' (constants, keywords, attribute access), no callee with a literal dimension "
        "default is called without the configured names, and Stacker canonicalises to (sample_name, feature_name). "
        "This is the necessary structural clause of naming-independence; exhaustive over the finite site space.",
        "note": "Decides the NAMES clauses only. Not decided: numerical invariance under permutations/partitions, sign "
        "determinism as values. Trusted: ast, the class/constructor-flow resolver, the one table exemption (Scaler.dims keys).",
        "technique": "AST lint over resolved program (literal dimension designators, call-site default binding, constructor-parameter flow)",
    },
}

NOT_APPLICABLE = {
    "C19": "every clause is a numerical identity or optimality statement about a generalised eigenproblem "
    "(uncorrelated series, bi-orthogonality, trapezoidal lag sum, optimal decorrelation time); the only structural hook "
    "(half weights at lag 0 and tau_max) could be checked only by matching the accumulation loop's text, i.e. a frozen fragment",
}
for _p in ["C01", "C02", "C03", "C04", "C05", "C06", "C08", "C09", "C10", "C11", "C12", "C13", "C14", "C15", "C16", "C17", "C18", "C20"]:
    if _p not in CLAIMS:
        NOT_APPLICABLE[_p] = PENDING

FIX_COMMITS: list[str] = []
