"""What is claimed per property (source of MANIFEST.json; see tools/mkmanifest.py)."""

PENDING = "check not built yet in this session (work in progress; see DESIGN.md section 4)"

CLAIMS = {
    "C01": {
        "text": "Provenance (def-use chains with operator paths) of the values EOF._fit_algorithm stores: explained variance is "
        "exactly one **2 and one division by (sample size - 1) of the decomposed matrix, total variance is var(ddof=1) along the "
        "sample dimension of that same (augmented) matrix; V is VT conjugate-transposed in both SVD wrappers, reconstruction "
        "contracts with conj(components) and projection with plain components (EOF, SparsePCA, ExtendedEOF); the ascending svds "
        "branch re-sorts U, s, VT by one descending argsort and every truncation keeps a prefix; scores=U*s, norms=s, components=V; "
        "Hilbert and Extended variants reach the same routine.",
        "note": "Necessary structural clauses only. Not decided: orthonormality, eigenvalue equality with an independent solver, "
        "Eckart-Young optimality, accuracy of the randomised path, Hilbert transform arithmetic. Trusted: np.linalg.svd descending / "
        "svds ascending order, default ddof=0.",
        "technique": "def-use provenance with operator paths (exponent/denominator classification, conjugation parity), slice-shape checks",
    },
    "C07": {
        "text": "Every module, function and call site of xeofs is enumerated: no dimension is addressed through the "
        "literals 'sample'/'feature' (constants, keywords, attribute access), no callee with a literal dimension "
        "default is called without the configured names, and Stacker canonicalises to (sample_name, feature_name). "
        "This is the necessary structural clause of naming-independence; exhaustive over the finite site space.",
        "note": "Decides the NAMES clauses only. Not decided: numerical invariance under permutations/partitions, sign "
        "determinism as values. Trusted: ast, the class/constructor-flow resolver, the one table exemption (Scaler.dims keys).",
        "technique": "AST lint over resolved program (literal dimension designators, call-site default binding, constructor-parameter flow)",
    },
    "C10": {
        "text": "The nine named cross-set classes are enumerated through their constructor chains: each pins exactly the alpha "
        "pair the property fixes, does not accept alpha, drops it from the stored parameters, and resolves every method of "
        "its general class to the same function (C3 MRO, 12 class pairs incl. MCA rotators); alpha[i] reaches whitener i; "
        "all eight Whitener/PCA maps return their argument untouched on the identity branch; n_modes='all' resolves to the rank; "
        "an interval analysis of the delay-embedding slice bound shows no 'slice(None, -0)'.",
        "note": "Necessary structural clauses only. Not decided: SparsePCA(no penalty)=EOF, MCA(X,X)=EOF, Complex(real)=real, "
        "multi-set vs cross-set CCA (numerical coincidences). Trusted: constructor-flow resolver, documented domains embedding>=1, tau>=0.",
        "technique": "constructor-parameter flow + C3 MRO comparison + guard/return analysis + interval abstract interpretation of a slice bound",
    },
    "C13": {
        "text": "For all 29+ serialisable model classes the key set of _params after the __init__ chain (abstractly interpreted: dict "
        "literal, update, item assignment, pop) is closed under cls(**params); sklearn-style transformers store every constructor "
        "parameter under its name; every attribute assigned outside __init__ and read on a post-fit path is serialised; every marker "
        "literal a deserialiser reads is written by a serialiser; the netCDF attribute codec has no unguarded constant subscript on a "
        "possibly empty string and no unhandled literal_eval (positive fixture fires on every run).",
        "note": "Necessary structural clauses only. Not decided: value identity of results after a round trip; the real netCDF/zarr "
        "engines. Known finding: GWPCA constructor closure (see known_findings.json).",
        "technique": "key-set abstract interpretation of constructor chains, writer/reader literal agreement, guard (try/except, emptiness) analysis",
    },
    "C15": {
        "text": "Every ** splat of a value flowing from solver_kwargs is checked not to target an xeofs callable; in both SVD wrappers "
        "all four solver branches hand over the user's options and seed the randomised solvers from self.random_state; no global RNG "
        "draw exists and generator constructors are seeded; every callee taking random_state receives it wherever a seed is in scope "
        "(unless pinned to the exact solver); each match on the solver has exactly the documented cases plus a raising default; the "
        "sign multiplier is computed from VT along the feature axis and multiplies U and V; the two wrappers agree on solver keyword "
        "sets, on the svds re-sort and on the canonical threshold count n_pre - #(cum >= f) + 1 with N-1/ddof=1.",
        "note": "Necessary structural clauses only. Not decided: minimality of the threshold count as arithmetic on values, agreement of "
        "exact and randomised results, bit-identity as values. Trusted: table of solver seed keywords (sklearn/scipy/dask APIs).",
        "technique": "def-use provenance through dict merges and tuple unpacking, call-site parameter binding, match exhaustiveness, sibling cross-check of extracted facts",
    },
}

NOT_APPLICABLE = {
    "C19": "every clause is a numerical identity or optimality statement about a generalised eigenproblem "
    "(uncorrelated series, bi-orthogonality, trapezoidal lag sum, optimal decorrelation time); the only structural hook "
    "(half weights at lag 0 and tau_max) could be checked only by matching the accumulation loop's text, i.e. a frozen fragment",
}
for _p in ["C01", "C02", "C03", "C04", "C05", "C06", "C08", "C09", "C10", "C11", "C12", "C13", "C14", "C15", "C16", "C17", "C18", "C20"]:
    if _p not in CLAIMS:
        NOT_APPLICABLE[_p] = PENDING

FIX_COMMITS: list[str] = []
