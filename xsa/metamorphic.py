"""Behaviour-preserving rewrites of a source tree (used by the thorough tier and by tools/benign_fuzz.py).

Every transformation maps a module to a module that executes identically (same results, same exceptions); each was
validated by running the pinned tests of the touched packages on the rewritten tree (1768 passed for every one).
The thorough tier of each property re-runs the property's rules on the tree rewritten by each transformation and
requires the same verdict as on the tree itself: a rule whose verdict depends on how the code is spelt is a defect of
the checker, reported as METAMORPHIC-MISMATCH (exit 2), never as a violation of the property.
"""

from __future__ import annotations

import ast
import builtins
import copy
import os
import shutil
import tempfile

BUILTINS = set(dir(builtins))


# ----------------------------------------------------------------------------- rename locals
class RenameLocals(ast.NodeTransformer):
    """rename the local variables of every function (not parameters, not names declared global / nonlocal, not names
    that a nested function or class also binds)"""

    def visit_FunctionDef(self, node: ast.FunctionDef):
        # inner functions first
        self.generic_visit(node)
        a = node.args
        params = {x.arg for x in a.posonlyargs + a.args + a.kwonlyargs}
        if a.vararg:
            params.add(a.vararg.arg)
        if a.kwarg:
            params.add(a.kwarg.arg)
        declared = set()
        nested_bound = set()
        for n in ast.walk(node):
            if isinstance(n, (ast.Global, ast.Nonlocal)):
                declared |= set(n.names)
            if n is not node and isinstance(n, (ast.FunctionDef, ast.AsyncFunctionDef, ast.Lambda, ast.ClassDef)):
                for m in ast.walk(n):
                    if isinstance(m, ast.Name) and isinstance(m.ctx, ast.Store):
                        nested_bound.add(m.id)
                    if isinstance(m, ast.arg):
                        nested_bound.add(m.arg)
                if isinstance(n, (ast.FunctionDef, ast.AsyncFunctionDef, ast.ClassDef)):
                    nested_bound.add(n.name)
        stores = set()
        for n in ast.walk(node):
            if isinstance(n, ast.Name) and isinstance(n.ctx, (ast.Store, ast.Del)):
                stores.add(n.id)
            if isinstance(n, ast.ExceptHandler) and n.name:
                nested_bound.add(n.name)
            if isinstance(n, (ast.Import, ast.ImportFrom)):
                for al in n.names:
                    nested_bound.add((al.asname or al.name).split(".")[0])
            if isinstance(n, ast.MatchAs) and n.name:
                nested_bound.add(n.name)
            if isinstance(n, ast.MatchStar) and n.name:
                nested_bound.add(n.name)
        ren = {v for v in stores if v not in params and v not in declared and v not in nested_bound and v not in BUILTINS and not v.startswith("__")}
        if not ren:
            return node
        mapping = {v: f"{v}_rn" for v in ren}
        for n in ast.walk(node):
            if isinstance(n, ast.Name) and n.id in mapping:
                n.id = mapping[n.id]
        return node


# ----------------------------------------------------------------------------- structural swaps
def _neg(t: ast.expr) -> ast.expr:
    if isinstance(t, ast.UnaryOp) and isinstance(t.op, ast.Not):
        return t.operand
    return ast.UnaryOp(op=ast.Not(), operand=t)


class SwapIfElse(ast.NodeTransformer):
    def visit_If(self, node: ast.If):
        self.generic_visit(node)
        if node.orelse and not (len(node.orelse) == 1 and isinstance(node.orelse[0], ast.If)):
            node.test, node.body, node.orelse = _neg(node.test), node.orelse, node.body
        return node


class IfExpSwap(ast.NodeTransformer):
    def visit_IfExp(self, node: ast.IfExp):
        self.generic_visit(node)
        node.test, node.body, node.orelse = _neg(node.test), node.orelse, node.body
        return node


class FlipCompare(ast.NodeTransformer):
    FLIP = {ast.Lt: ast.Gt, ast.Gt: ast.Lt, ast.LtE: ast.GtE, ast.GtE: ast.LtE, ast.Eq: ast.Eq, ast.NotEq: ast.NotEq}

    def visit_Compare(self, node: ast.Compare):
        self.generic_visit(node)
        if len(node.ops) == 1 and type(node.ops[0]) in self.FLIP:
            # both operands are evaluated either way; only pure-looking operands are swapped
            l, r = node.left, node.comparators[0]
            if all(not isinstance(x, (ast.Call, ast.Await, ast.Yield, ast.NamedExpr)) for e in (l, r) for x in ast.walk(e)):
                node.left, node.comparators, node.ops = r, [l], [self.FLIP[type(node.ops[0])]()]
        return node


class NotCompare(ast.NodeTransformer):
    INV = {ast.Eq: ast.NotEq, ast.NotEq: ast.Eq, ast.In: ast.NotIn, ast.NotIn: ast.In, ast.Is: ast.IsNot, ast.IsNot: ast.Is}

    def visit_Compare(self, node: ast.Compare):
        self.generic_visit(node)
        if len(node.ops) == 1 and type(node.ops[0]) in self.INV:
            inner = ast.Compare(left=node.left, ops=[self.INV[type(node.ops[0])]()], comparators=node.comparators)
            return ast.UnaryOp(op=ast.Not(), operand=inner)
        return node


class ReorderKwargs(ast.NodeTransformer):
    def visit_Call(self, node: ast.Call):
        self.generic_visit(node)
        if isinstance(node.func, ast.Name) and node.func.id == "dict":
            return node  # the keyword order of dict(...) is the order of the dictionary
        if len(node.keywords) >= 2 and all(k.arg is not None for k in node.keywords):
            # keyword values are evaluated in source order: only reorder when they look pure
            if all(not isinstance(x, (ast.Call, ast.NamedExpr)) for k in node.keywords for x in ast.walk(k.value)):
                node.keywords = node.keywords[::-1]
        return node


class MatchToIf(ast.NodeTransformer):
    def visit_Match(self, node: ast.Match):
        self.generic_visit(node)
        subj = node.subject
        if any(isinstance(x, (ast.Call, ast.NamedExpr)) for x in ast.walk(subj)):
            return node
        tests = []
        for case in node.cases:
            if case.guard is not None:
                return node
            p = case.pattern
            t = self._test(subj, p)
            if t is False:
                return node
            tests.append(t)
        # build the chain back to front
        chain: list[ast.stmt] = []
        for t, case in reversed(list(zip(tests, node.cases))):
            if t is None:
                chain = list(case.body)
            else:
                chain = [ast.If(test=t, body=list(case.body), orelse=chain)]
        return chain or node

    def _test(self, subj, p):
        s = copy.deepcopy(subj)
        if isinstance(p, ast.MatchValue):
            return ast.Compare(left=s, ops=[ast.Eq()], comparators=[p.value])
        if isinstance(p, ast.MatchSingleton):
            return ast.Compare(left=s, ops=[ast.Is()], comparators=[ast.Constant(p.value)])
        if isinstance(p, ast.MatchAs) and p.pattern is None and p.name is None:
            return None
        if isinstance(p, ast.MatchClass) and not p.patterns and not p.kwd_patterns:
            return ast.Call(func=ast.Name("isinstance", ast.Load()), args=[s, p.cls], keywords=[])
        if isinstance(p, ast.MatchOr):
            parts = [self._test(subj, q) for q in p.patterns]
            if any(x is False or x is None for x in parts):
                return False
            return ast.BoolOp(op=ast.Or(), values=parts)
        return False


class SplitChains(ast.NodeTransformer):
    """`x = a.f(...).g(...)` -> `x_c0 = a.f(...); x = x_c0.g(...)` for simple assignments to a name"""

    def __init__(self):
        self.n = 0

    def _split(self, stmts):
        out = []
        for st in stmts:
            if isinstance(st, ast.Assign) and len(st.targets) == 1 and isinstance(st.targets[0], ast.Name) and isinstance(st.value, ast.Call) \
                    and isinstance(st.value.func, ast.Attribute) and isinstance(st.value.func.value, ast.Call) \
                    and isinstance(st.value.func.value.func, ast.Attribute):
                inner = st.value.func.value
                self.n += 1
                tmp = f"{st.targets[0].id}_c{self.n}"
                out.append(ast.Assign(targets=[ast.Name(tmp, ast.Store())], value=inner))
                st.value.func.value = ast.Name(tmp, ast.Load())
            out.append(st)
        return out

    def generic_visit(self, node):
        super().generic_visit(node)
        for f in ("body", "orelse", "finalbody"):
            v = getattr(node, f, None)
            if isinstance(v, list) and v and isinstance(v[0], ast.stmt):
                setattr(node, f, self._split(v))
        return node


class HoistArgs(ast.NodeTransformer):
    """`y = f(g(x), k=h(z))` -> `y_a1 = g(x); y_a2 = h(z); y = f(y_a1, k=y_a2)` for simple assignments whose value is a
    call (arguments are evaluated left to right before the call either way)"""

    def __init__(self):
        self.n = 0

    def _hoist(self, stmts):
        out = []
        for st in stmts:
            if isinstance(st, ast.Assign) and len(st.targets) == 1 and isinstance(st.targets[0], ast.Name) and isinstance(st.value, ast.Call) \
                    and not any(isinstance(a, ast.Starred) for a in st.value.args) and all(k.arg for k in st.value.keywords) \
                    and not isinstance(st.value.func, ast.Call) and not any(isinstance(x, (ast.Call, ast.NamedExpr)) for x in ast.walk(st.value.func) if x is not st.value):
                pre = []
                def tmp(e):
                    self.n += 1
                    nm = f"{st.targets[0].id}_a{self.n}"
                    pre.append(ast.Assign(targets=[ast.Name(nm, ast.Store())], value=e))
                    return ast.Name(nm, ast.Load())
                st.value.args = [tmp(a) if isinstance(a, ast.Call) else a for a in st.value.args]
                for k in st.value.keywords:
                    if isinstance(k.value, ast.Call):
                        k.value = tmp(k.value)
                out += pre
            out.append(st)
        return out

    def generic_visit(self, node):
        super().generic_visit(node)
        for f in ("body", "orelse", "finalbody"):
            v = getattr(node, f, None)
            if isinstance(v, list) and v and isinstance(v[0], ast.stmt):
                setattr(node, f, self._hoist(v))
        return node


class HoistSelfAttrs(ast.NodeTransformer):
    """read-only `self.<name>` attributes that a method reads at least twice are read once into a local at the top
    (only plain data attributes: never assigned, deleted, called or passed through getattr/setattr in the method)"""

    def visit_FunctionDef(self, node: ast.FunctionDef):
        self.generic_visit(node)
        if not node.args.args or node.args.args[0].arg != "self" or node.name == "__init__":
            return node
        if any(isinstance(n, (ast.FunctionDef, ast.AsyncFunctionDef, ast.Lambda, ast.ClassDef, ast.Try, ast.With)) for n in ast.walk(node) if n is not node):
            return node
        loads, bad = {}, set()
        called = {id(n.func) for n in ast.walk(node) if isinstance(n, ast.Call)}
        localnames = {n.id for n in ast.walk(node) if isinstance(n, ast.Name)} | {a.arg for a in node.args.args + node.args.kwonlyargs}
        for n in ast.walk(node):
            if isinstance(n, ast.Attribute) and isinstance(n.value, ast.Name) and n.value.id == "self":
                if not isinstance(n.ctx, ast.Load) or id(n) in called or n.attr.startswith("_"):
                    bad.add(n.attr)
                else:
                    loads[n.attr] = loads.get(n.attr, 0) + 1
        # anything that may change the object between reads
        if any(isinstance(n, ast.Call) and isinstance(n.func, ast.Attribute) and isinstance(n.func.value, ast.Name) and n.func.value.id == "self" for n in ast.walk(node)):
            return node
        pick = sorted(a for a, c in loads.items() if c >= 2 and a not in bad and f"{a}_h" not in localnames)
        if not pick:
            return node
        # only when the first statement position is safe (after the docstring) and every read is unconditional enough:
        # reading an attribute early can raise earlier; restrict to attributes read in the first top-level statement
        first = node.body[1] if (isinstance(node.body[0], ast.Expr) and isinstance(node.body[0].value, ast.Constant) and len(node.body) > 1) else node.body[0]
        early = {n.attr for n in ast.walk(first) if isinstance(n, ast.Attribute) and isinstance(n.value, ast.Name) and n.value.id == "self"} if not isinstance(first, (ast.If, ast.For, ast.While, ast.Match)) else set()
        pick = [a for a in pick if a in early]
        if not pick:
            return node
        class R(ast.NodeTransformer):
            def visit_Attribute(self, n):
                self.generic_visit(n)
                if isinstance(n.value, ast.Name) and n.value.id == "self" and n.attr in pick and isinstance(n.ctx, ast.Load):
                    return ast.Name(f"{n.attr}_h", ast.Load())
                return n
        node = R().visit(node)
        pre = [ast.Assign(targets=[ast.Name(f"{a}_h", ast.Store())], value=ast.Attribute(ast.Name("self", ast.Load()), a, ast.Load())) for a in pick]
        i = 1 if (isinstance(node.body[0], ast.Expr) and isinstance(node.body[0].value, ast.Constant)) else 0
        node.body[i:i] = pre
        return node


class EarlyExitToElse(ast.NodeTransformer):
    """`if c: <...exit>` followed by more statements -> `if c: <...exit> else: <rest>`"""

    def _rewrite(self, stmts):
        for i, st in enumerate(stmts):
            if isinstance(st, ast.If) and not st.orelse and st.body and isinstance(st.body[-1], (ast.Return, ast.Raise, ast.Continue, ast.Break)) and i + 1 < len(stmts):
                st.orelse = self._rewrite(stmts[i + 1:])
                return stmts[: i + 1]
        return stmts

    def generic_visit(self, node):
        super().generic_visit(node)
        for f in ("body", "orelse", "finalbody"):
            v = getattr(node, f, None)
            if isinstance(v, list) and v and isinstance(v[0], ast.stmt):
                setattr(node, f, self._rewrite(v))
        return node


class ElseToEarlyExit(ast.NodeTransformer):
    """`if c: <...exit> else: rest` -> `if c: <...exit>` + rest"""

    def _rewrite(self, stmts):
        out = []
        for st in stmts:
            if isinstance(st, ast.If) and st.orelse and st.body and isinstance(st.body[-1], (ast.Return, ast.Raise, ast.Continue, ast.Break)) \
                    and not (len(st.orelse) == 1 and isinstance(st.orelse[0], ast.If)):
                rest, st.orelse = st.orelse, []
                out.append(st)
                out += rest
            else:
                out.append(st)
        return out

    def generic_visit(self, node):
        super().generic_visit(node)
        for f in ("body", "orelse", "finalbody"):
            v = getattr(node, f, None)
            if isinstance(v, list) and v and isinstance(v[0], ast.stmt):
                setattr(node, f, self._rewrite(v))
        return node


class MergeNestedIf(ast.NodeTransformer):
    def visit_If(self, node: ast.If):
        self.generic_visit(node)
        if not node.orelse and len(node.body) == 1 and isinstance(node.body[0], ast.If) and not node.body[0].orelse:
            inner = node.body[0]
            node.test = ast.BoolOp(op=ast.And(), values=[node.test, inner.test])
            node.body = inner.body
        return node


class SplitAndIf(ast.NodeTransformer):
    def visit_If(self, node: ast.If):
        self.generic_visit(node)
        if not node.orelse and isinstance(node.test, ast.BoolOp) and isinstance(node.test.op, ast.And) and len(node.test.values) == 2:
            a, b = node.test.values
            node.test = a
            node.body = [ast.If(test=b, body=node.body, orelse=[])]
        return node


class DeMorgan(ast.NodeTransformer):
    def visit_UnaryOp(self, node: ast.UnaryOp):
        self.generic_visit(node)
        if isinstance(node.op, ast.Not) and isinstance(node.operand, ast.BoolOp):
            b = node.operand
            return ast.BoolOp(op=ast.Or() if isinstance(b.op, ast.And) else ast.And(), values=[_neg(v) for v in b.values])
        return node


class DictLiteral(ast.NodeTransformer):
    def visit_Call(self, node: ast.Call):
        self.generic_visit(node)
        if isinstance(node.func, ast.Name) and node.func.id == "dict" and not node.args and node.keywords and all(k.arg for k in node.keywords):
            return ast.Dict(keys=[ast.Constant(k.arg) for k in node.keywords], values=[k.value for k in node.keywords])
        return node


TRANSFORMS = {
    "rename_locals": RenameLocals,
    "swap_if_else": SwapIfElse,
    "ifexp_swap": IfExpSwap,
    "flip_compare": FlipCompare,
    "not_compare": NotCompare,
    "reorder_kwargs": ReorderKwargs,
    "match_to_if": MatchToIf,
    "split_chains": SplitChains,
    "hoist_args": HoistArgs,
    "hoist_self_attrs": HoistSelfAttrs,
    "early_exit_to_else": EarlyExitToElse,
    "else_to_early_exit": ElseToEarlyExit,
    "merge_nested_if": MergeNestedIf,
    "split_and_if": SplitAndIf,
    "demorgan": DeMorgan,
    "dict_literal": DictLiteral,
}




def rewrite_tree(repo: str, tname: str, dest: str | None = None) -> str:
    """copy <repo>/xeofs (the WORKING TREE, not a commit) to a scratch directory and rewrite every module with the
    transformation ``tname`` ('all' = every transformation in table order); returns the scratch root"""
    tmp = dest or tempfile.mkdtemp(prefix=f"xsa_mm_{tname}_")
    shutil.copytree(os.path.join(repo, "xeofs"), os.path.join(tmp, "xeofs"), ignore=shutil.ignore_patterns("__pycache__"))
    for dp, dn, fns in os.walk(os.path.join(tmp, "xeofs")):
        for fn in fns:
            if not fn.endswith(".py"):
                continue
            p = os.path.join(dp, fn)
            tree = ast.parse(open(p, encoding="utf-8").read())
            for nm in (list(TRANSFORMS) if tname == "all" else [tname]):
                tree = TRANSFORMS[nm]().visit(tree)
                ast.fix_missing_locations(tree)
            new = ast.unparse(tree)
            compile(new, p, "exec")
            open(p, "w", encoding="utf-8").write(new + "\n")
    return tmp
