"""Obligations, findings, known-findings plumbing and evidence files."""

from __future__ import annotations

import json
import os
import time
from dataclasses import dataclass, field

from .pm import AnalysisError, FuncInfo, norm

VERIF = os.path.dirname(os.path.dirname(os.path.abspath(__file__)))
KNOWN_FILE = os.path.join(VERIF, "known_findings.json")
EVIDENCE_DIR = os.path.join(VERIF, "evidence")


@dataclass
class Obligation:
    prop: str
    rule: str  # e.g. C01.NORM.explained_variance
    func: str  # qualified function (or class) the instance lives in
    construct: str  # normalised text of the construct examined
    where: str  # file:line (diagnostics only; never part of the key)
    ok: bool
    why: str = ""
    facts: dict = field(default_factory=dict)
    context: str = ""  # dispatch class for context-sensitive rules
    nontrivial: bool = True
    undecided: str = ""  # reason why an unmet obligation could not be trusted (dynamic dispatch on the evidence path)

    def key(self) -> tuple[str, str, str]:
        return (self.rule, self.func, self.construct)

    def as_dict(self) -> dict:
        d = {
            "rule": self.rule,
            "function": self.func,
            "construct": self.construct,
            "where": self.where,
            "verdict": "ok" if self.ok else ("UNDECIDED" if self.undecided else "VIOLATION"),
        }
        if self.context:
            d["context"] = self.context
        if self.why:
            d["why"] = self.why
        if self.facts:
            d["facts"] = self.facts
        return d


class Checker:
    """Collects the obligations of one property run."""

    def __init__(self, prop: str, pm, tier: str = "quick"):
        self.prop = prop
        self.pm = pm
        self.tier = tier
        self.obligations: list[Obligation] = []
        self.notes: list[str] = []
        self.rules_run: dict[str, int] = {}
        self.info: dict = {}

    # -- recording -------------------------------------------------------------
    def _mk(self, rule, fn, node, ok, why, facts, construct, context, nontrivial):
        if isinstance(fn, FuncInfo):
            fname = fn.qualname
            where = fn.loc(node)
        else:
            fname = str(fn)
            where = getattr(node, "_where", "") if node is not None else ""
        if construct is None:
            construct = norm(node) if node is not None else ""
        if len(construct) > 240:
            construct = construct[:240]
        full = rule if rule.startswith(self.prop) else f"{self.prop}.{rule}"
        o = Obligation(self.prop, full, fname, construct, where, ok, why, facts or {}, context or "", nontrivial)
        if not ok and isinstance(fn, FuncInfo):
            from .opaque import evidence_opaque
            try:
                reason = evidence_opaque(self.pm, fn)
            except Exception:
                reason = None
            if reason:
                o.undecided = reason
        self.obligations.append(o)
        self.rules_run[full] = self.rules_run.get(full, 0) + 1
        return o

    def ok(self, rule, fn, node=None, why="", facts=None, construct=None, context=None, nontrivial=True):
        return self._mk(rule, fn, node, True, why, facts, construct, context, nontrivial)

    def violation(self, rule, fn, node=None, why="", facts=None, construct=None, context=None):
        return self._mk(rule, fn, node, False, why, facts, construct, context, True)

    def check(self, cond: bool, rule, fn, node=None, why="", facts=None, construct=None, context=None):
        return self._mk(rule, fn, node, bool(cond), "" if cond else why, facts, construct, context, True)

    def note(self, msg: str) -> None:
        self.notes.append(msg)

    def require(self, cond: bool, msg: str) -> None:
        if not cond:
            raise AnalysisError(msg)

    def floor(self, rule: str, minimum: int) -> None:
        full = rule if rule.startswith(self.prop) else f"{self.prop}.{rule}"
        n = sum(v for k, v in self.rules_run.items() if k == full or k.startswith(full + "."))
        if n < minimum:
            raise AnalysisError(
                f"rule {full} matched {n} instance(s), fewer than the {minimum} confirmed by hand: "
                "an anchor moved beyond what the analysis follows"
            )


# ----------------------------------------------------------------------------
def load_known() -> list[dict]:
    if not os.path.exists(KNOWN_FILE):
        return []
    with open(KNOWN_FILE) as f:
        data = json.load(f)
    return data.get("findings", [])


_ALPHA_KEEP = {
    "_recv", "self", "cls", "np", "numpy", "xr", "xarray", "da", "dask", "pd", "pandas", "sp", "scipy", "math", "warnings",
    "True", "False", "None", "len", "range", "int", "float", "bool", "str", "list", "tuple", "dict", "set", "zip", "enumerate",
    "min", "max", "sum", "abs", "sorted", "isinstance", "print", "any", "all", "map", "filter", "slice", "type", "complex",
}


def alpha(construct: str) -> str:
    """the construct with its local names replaced by placeholders in order of first appearance: a finding is the same
    finding after a local variable was renamed.  Text that is not a Python statement is returned unchanged."""
    import ast as _ast

    src = ("_recv" + construct) if construct.startswith(".") else construct
    try:
        tree = _ast.parse(src)
    except (SyntaxError, ValueError):
        return construct
    names: dict[str, str] = {}
    for n in _ast.walk(tree):
        if isinstance(n, _ast.Name) and n.id not in _ALPHA_KEEP:
            n.id = names.setdefault(n.id, f"_v{len(names)}")
    try:
        return _ast.unparse(tree)
    except Exception:
        return construct


def match_known(o: Obligation, known: list[dict]) -> dict | None:
    for k in known:
        if k.get("status") != "known":
            continue  # 'fixed' entries suppress nothing
        if k.get("property") != o.prop:
            continue
        if k.get("rule") == o.rule and k.get("function") == o.func and (
            k.get("construct") == o.construct or alpha(k.get("construct", "")) == alpha(o.construct)
        ):
            return k
    return None


def verdict(chk: Checker) -> tuple[int, list[tuple[str, str]]]:
    """exit code the obligations of ``chk`` lead to, without printing or writing anything, and the (rule, function)
    pairs of the violations that are not recorded findings (constructs are left out: they are spelt differently on a
    rewritten tree)"""
    known = load_known()
    new = [o for o in chk.obligations if not o.ok and not o.undecided and match_known(o, known) is None]
    und = [o for o in chk.obligations if not o.ok and o.undecided]
    rc = 1 if new else (2 if und else 0)
    return rc, sorted({(o.rule, o.func) for o in (new or und)})


def finish(chk: Checker, t0: float, seed: int, extra_cov: dict | None = None) -> int:
    """Print the verdict, write evidence, return the exit code."""
    known = load_known()
    viol = [o for o in chk.obligations if not o.ok and not o.undecided]
    undecided = [o for o in chk.obligations if not o.ok and o.undecided]
    new, kn = [], []
    seen = set()
    for o in viol:
        k = match_known(o, known)
        if k is not None:
            if o.key() not in seen:
                kn.append((o, k))
        else:
            new.append(o)
        seen.add(o.key())
    # de-duplicate new violations by key (several contexts may report the same construct)
    uniq: dict[tuple, Obligation] = {}
    for o in new:
        uniq.setdefault(o.key(), o)
    new_u = list(uniq.values())

    for o, k in kn:
        print(f"KNOWN-FINDING: property={chk.prop} {o.rule} {o.func} `{o.construct}` -- {k.get('what', o.why)}")
    # evidence describes /repo itself: runs against another tree (self-test, seeded variants) write elsewhere
    foreign = os.path.realpath(chk.pm.repo) != os.path.realpath("/repo") or bool(os.environ.get("XSA_NO_EVIDENCE"))
    ev_dir = EVIDENCE_DIR if not foreign else os.path.join(os.environ.get("TMPDIR", "/tmp"), "xsa_foreign_evidence")
    replay = os.path.join(ev_dir, f"{chk.prop}.violations.json")
    if new_u:
        os.makedirs(ev_dir, exist_ok=True)
        with open(replay, "w") as f:
            json.dump([o.as_dict() for o in new_u], f, indent=1)
        for o in new_u:
            ctx = f" [{o.context}]" if o.context else ""
            print(f"{o.where}  {o.rule}  {o.func}{ctx}  `{o.construct}`  -- {o.why}")
        print(f"VIOLATION property={chk.prop} replay={replay}")
    elif os.path.exists(replay):
        os.remove(replay)

    distinct = {o.key() for o in chk.obligations if o.nontrivial}
    samples = []
    per_rule_seen: dict[str, int] = {}
    for o in chk.obligations:
        c = per_rule_seen.get(o.rule, 0)
        if c < 2:
            samples.append(o.as_dict())
            per_rule_seen[o.rule] = c + 1
        if len(samples) >= 40:
            break
    cov = {
        "explanation": (
            f"static analysis of /repo/xeofs source (ast; program model, CFG, reaching definitions, "
            f"provenance, call graph). Rules run: {', '.join(sorted(chk.rules_run))}. Each obligation is one "
            "rule instance at one construct; a violation names the construct."
        ),
        "evaluations": len(chk.obligations),
        "distinct_nontrivial": len(distinct),
        "rule": "every instance of every rule of the property is enumerated from the parsed tree "
        "(finite site space, fully enumerated); distinct = distinct (rule, function, construct); "
        "non-trivial = the instance carried a real obligation (not vacuous)",
        "samples": samples,
        "obligations": len(chk.obligations),
        "discharged": len(chk.obligations) - len(viol) - len(undecided),
        "undecided": [dict(o.as_dict(), reason=o.undecided) for o in undecided][:20],
        "rules": chk.rules_run,
        "files_analysed": len(chk.pm.modules),
        "classes": len(chk.pm.classes),
        "functions": len(chk.pm.functions),
        "known_findings": [
            {"rule": o.rule, "function": o.func, "construct": o.construct} for o, _ in kn
        ],
        "new_violations": [o.as_dict() for o in new_u],
        "notes": chk.notes,
        "exhaustive": True,
    }
    cov.update(chk.info)
    if extra_cov:
        cov.update(extra_cov)
    ev = {
        "property_id": chk.prop,
        "tier": chk.tier,
        "seed": seed,
        "level": "other",
        "coverage": cov,
        "assumptions": [
            "Python ast of the interpreter running the check parses the repo's grammar",
            "frozen tables of xarray/numpy/dask semantics listed next to each rule",
            "no dynamic attribute access by computed name on the paths the rules follow",
            "a discharged structural clause removes one way of breaking the property; it does not establish the numerical behaviour",
        ],
        "wall_s": round(time.time() - t0, 3),
        "violations": len(new_u),
    }
    os.makedirs(ev_dir, exist_ok=True)
    with open(os.path.join(ev_dir, f"{chk.prop}.json"), "w") as f:
        json.dump(ev, f, indent=1, default=str)
    n_ok = len(chk.obligations) - len(viol) - len(undecided)
    print(
        f"{chk.prop}: {len(chk.obligations)} obligations, {n_ok} discharged, "
        f"{len(kn)} known finding(s), {len(new_u)} new violation(s); "
        f"{len(chk.pm.modules)} files, {len(chk.pm.functions)} functions analysed"
    )
    if new_u:
        return 1
    if undecided:
        seen_u = set()
        for o in undecided:
            if o.key() in seen_u:
                continue
            seen_u.add(o.key())
            print(f"UNDECIDED {o.where}  {o.rule}  {o.func}  `{o.construct}`  -- the rule did not find what it requires, but {o.undecided}")
        print(f"ANALYSIS-ERROR property={chk.prop}: {len(seen_u)} rule instance(s) cannot be decided: the code uses dynamic dispatch that the analysis does not follow")
        return 2
    return 0
