"""Semantics-preserving normalisation of module syntax trees, applied by the program model before anything is analysed.

Only rewrites whose result executes exactly like the original are made; they remove two ways of writing repetition
that hide the repeated facts from the per-statement analyses:

N1  ``for v in (e1, e2, ...): body`` over a literal tuple / list display (at most 8 elements, body without ``break``,
    ``else`` clause, nested function definitions or augmented writes to the loop variable) is unrolled into
    ``v = e1; body; v = e2; body; ...``.  A top-level ``if c: continue`` inside the body becomes
    ``if not c: <rest of the body>``; bodies with any other ``continue`` are left alone.
N2  ``a, b = (f(x) for x in (p, q))`` (generator or list comprehension over a literal display of the same length as
    the target tuple, one ``for`` clause, no ``if`` clause) becomes ``a = f(p); b = f(q)``.

N3  ``match subject:`` whose subject is a plain name / attribute / subscript (evaluated once, no call) and whose cases
    are literal values, ``True`` / ``False`` / ``None``, bare class patterns ``C()``, alternatives of those, and a final
    wildcard - without guards or captures - becomes the equivalent ``if subject == v: ... elif isinstance(subject, C):
    ... else: ...`` chain, so that every rule sees one form of multi-way branch.

The copies keep the source positions of the statements they were copied from, so reports still point at the loop.
"""

from __future__ import annotations

import ast
import copy

MAX_ELTS = 8


def _literal_display(e: ast.expr) -> list[ast.expr] | None:
    if isinstance(e, (ast.Tuple, ast.List)) and 1 <= len(e.elts) <= MAX_ELTS and not any(isinstance(x, ast.Starred) for x in e.elts):
        return list(e.elts)
    return None


def _simple_target(t: ast.expr) -> bool:
    if isinstance(t, ast.Name):
        return True
    if isinstance(t, (ast.Tuple, ast.List)):
        return all(isinstance(x, ast.Name) for x in t.elts)
    return False


def _has(node_list, kinds, stop=(ast.FunctionDef, ast.AsyncFunctionDef, ast.ClassDef, ast.Lambda)) -> bool:
    todo = list(node_list)
    while todo:
        n = todo.pop()
        if isinstance(n, kinds):
            return True
        if isinstance(n, stop):
            continue
        todo.extend(ast.iter_child_nodes(n))
    return False


def _has_loop_free(node_list, kinds) -> bool:
    """like _has but does not descend into nested loops (their break / continue belong to them)"""
    todo = list(node_list)
    while todo:
        n = todo.pop()
        if isinstance(n, kinds):
            return True
        if isinstance(n, (ast.FunctionDef, ast.AsyncFunctionDef, ast.ClassDef, ast.Lambda, ast.For, ast.While, ast.AsyncFor)):
            continue
        todo.extend(ast.iter_child_nodes(n))
    return False


def _strip_continue(body: list[ast.stmt]) -> list[ast.stmt] | None:
    """body with top-level ``if c: continue`` turned into ``if not c: rest``; None if another continue remains"""
    out: list[ast.stmt] = []
    for i, st in enumerate(body):
        if isinstance(st, ast.If) and not st.orelse and len(st.body) == 1 and isinstance(st.body[0], ast.Continue):
            rest = _strip_continue(body[i + 1:])
            if rest is None:
                return None
            if rest:
                neg = ast.UnaryOp(op=ast.Not(), operand=st.test)
                ast.copy_location(neg, st.test)
                new_if = ast.If(test=neg, body=rest, orelse=[])
                ast.copy_location(new_if, st)
                out.append(new_if)
            else:
                # nothing follows: the test is still evaluated
                ex = ast.Expr(value=st.test)
                ast.copy_location(ex, st)
                out.append(ex)
            return out
        if _has_loop_free([st], ast.Continue):
            return None
        out.append(st)
    return out


def _assign_targets(target: ast.expr, value: ast.expr, at: ast.AST) -> list[ast.stmt] | None:
    if isinstance(target, ast.Name):
        a = ast.Assign(targets=[ast.Name(id=target.id, ctx=ast.Store())], value=copy.deepcopy(value), type_comment=None)
        ast.copy_location(a, at)
        ast.copy_location(a.targets[0], target)
        return [a]
    if isinstance(target, (ast.Tuple, ast.List)):
        if isinstance(value, (ast.Tuple, ast.List)) and len(value.elts) == len(target.elts) and not any(isinstance(x, ast.Starred) for x in value.elts):
            out = []
            for t, v in zip(target.elts, value.elts):
                r = _assign_targets(t, v, at)
                if r is None:
                    return None
                out += r
            return out
        a = ast.Assign(targets=[copy.deepcopy(target)], value=copy.deepcopy(value), type_comment=None)
        ast.copy_location(a, at)
        return [a]
    return None


class _Subst(ast.NodeTransformer):
    def __init__(self, mapping: dict[str, ast.expr]):
        self.mapping = mapping

    def visit_Name(self, node: ast.Name):
        if isinstance(node.ctx, ast.Load) and node.id in self.mapping:
            new = copy.deepcopy(self.mapping[node.id])
            return ast.copy_location(new, node) if not hasattr(new, "lineno") else new
        return node


class Normaliser(ast.NodeTransformer):
    def __init__(self):
        self.unrolled = 0
        self.split = 0
        self.matches = 0

    # -- N1 -----------------------------------------------------------------
    def visit_For(self, node: ast.For):
        self.generic_visit(node)
        elts = _literal_display(node.iter)
        if elts is None or node.orelse or not _simple_target(node.target):
            return node
        if _has_loop_free(node.body, ast.Break) or _has(node.body, (ast.FunctionDef, ast.AsyncFunctionDef, ast.ClassDef, ast.Lambda), stop=()):
            return node
        tnames = {node.target.id} if isinstance(node.target, ast.Name) else {x.id for x in node.target.elts}
        # the loop variable must not be written inside the body
        for n in ast.walk(ast.Module(body=node.body, type_ignores=[])):
            if isinstance(n, ast.Name) and isinstance(n.ctx, (ast.Store, ast.Del)) and n.id in tnames:
                return node
        # the display is evaluated once, before the first iteration: nothing the body writes may be read by it
        read = {n.id for e in elts for n in ast.walk(e) if isinstance(n, ast.Name)}
        read_attrs = {ast.unparse(n) for e in elts for n in ast.walk(e) if isinstance(n, ast.Attribute)}
        for n in ast.walk(ast.Module(body=node.body, type_ignores=[])):
            if isinstance(n, ast.Name) and isinstance(n.ctx, (ast.Store, ast.Del)) and n.id in read:
                return node
            if isinstance(n, ast.Attribute) and isinstance(n.ctx, (ast.Store, ast.Del)) and ast.unparse(n) in read_attrs:
                return node
        body = _strip_continue(node.body)
        if body is None:
            return node
        out: list[ast.stmt] = []
        for e in elts:
            pre = _assign_targets(node.target, e, node)
            if pre is None:
                return node
            out += pre
            out += [copy.deepcopy(st) for st in body]
        self.unrolled += 1
        return out

    # -- N3 -----------------------------------------------------------------
    def visit_Match(self, node: ast.Match):
        self.generic_visit(node)
        r = _match_to_if(node)
        if r is None:
            return node
        self.matches += 1
        return r

    # -- N2 -----------------------------------------------------------------
    def visit_Assign(self, node: ast.Assign):
        self.generic_visit(node)
        if len(node.targets) != 1 or not isinstance(node.targets[0], (ast.Tuple, ast.List)):
            return node
        tgt = node.targets[0]
        v = node.value
        if not isinstance(v, (ast.GeneratorExp, ast.ListComp)) or len(v.generators) != 1:
            return node
        g = v.generators[0]
        if g.ifs or g.is_async or not _simple_target(g.target):
            return node
        elts = _literal_display(g.iter)
        if elts is None or len(elts) != len(tgt.elts) or any(isinstance(t, ast.Starred) for t in tgt.elts):
            return node
        # the element expressions must not be re-evaluated differently: only names / attributes / constants / subscripts
        out: list[ast.stmt] = []
        for t, e in zip(tgt.elts, elts):
            if isinstance(g.target, ast.Name):
                mapping = {g.target.id: e}
            else:
                if not (isinstance(e, (ast.Tuple, ast.List)) and len(e.elts) == len(g.target.elts)):
                    return node
                mapping = {x.id: y for x, y in zip(g.target.elts, e.elts)}
            val = _Subst(mapping).visit(copy.deepcopy(v.elt))
            a = ast.Assign(targets=[copy.deepcopy(t)], value=val, type_comment=None)
            ast.copy_location(a, node)
            out.append(a)
        # simultaneous assignment: a target read by a later element would see the new value - refuse in that case
        written = set()
        for a in out:
            for n in ast.walk(a.value):
                if isinstance(n, ast.Name) and n.id in written:
                    return node
            for n in ast.walk(a.targets[0]):
                if isinstance(n, ast.Name):
                    written.add(n.id)
        self.split += 1
        return out


def _pattern_test(subj: ast.expr, p: ast.pattern):
    """expression equivalent to `subject matches p`; None for the wildcard; False when not expressible"""
    s = copy.deepcopy(subj)
    if isinstance(p, ast.MatchValue):
        t = ast.Compare(left=s, ops=[ast.Eq()], comparators=[copy.deepcopy(p.value)])
    elif isinstance(p, ast.MatchSingleton):
        t = ast.Compare(left=s, ops=[ast.Is()], comparators=[ast.Constant(p.value)])
    elif isinstance(p, ast.MatchAs) and p.pattern is None and p.name is None:
        return None
    elif isinstance(p, ast.MatchClass) and not p.patterns and not p.kwd_patterns:
        t = ast.Call(func=ast.Name(id="isinstance", ctx=ast.Load()), args=[s, copy.deepcopy(p.cls)], keywords=[])
    elif isinstance(p, ast.MatchOr):
        parts = [_pattern_test(subj, q) for q in p.patterns]
        if any(x is False or x is None for x in parts):
            return False
        t = ast.BoolOp(op=ast.Or(), values=parts)
    else:
        return False
    for n in ast.walk(t):
        ast.copy_location(n, p)
    return t


def _match_to_if(node: ast.Match):
    subj = node.subject
    if any(isinstance(x, (ast.Call, ast.NamedExpr, ast.Await, ast.Yield, ast.YieldFrom)) for x in ast.walk(subj)):
        return None
    tests = []
    for i, case in enumerate(node.cases):
        if case.guard is not None:
            return None
        t = _pattern_test(subj, case.pattern)
        if t is False:
            return None
        if t is None and i != len(node.cases) - 1:
            return None
        tests.append(t)
    chain: list[ast.stmt] = []
    for t, case in reversed(list(zip(tests, node.cases))):
        if t is None:
            chain = list(case.body)
        else:
            new_if = ast.If(test=t, body=list(case.body), orelse=chain)
            ast.copy_location(new_if, case.pattern)
            chain = [new_if]
    return chain or None


def normalise(tree: ast.Module) -> tuple[ast.Module, dict]:
    nz = Normaliser()
    tree = nz.visit(tree)
    ast.fix_missing_locations(tree)
    return tree, {"loops_unrolled": nz.unrolled, "tuple_comprehensions_split": nz.split, "match_statements_rewritten": nz.matches}
