"""Dynamic constructs the analysis does not follow.

The rules read attribute names, method names and operators from the syntax tree.  Code that computes them at run time
(`getattr(self, f"pca{i}")`, `setattr(self, name, ...)` in a loop, `op(data, norms)` with `op` a parameter,
`TABLE[key](x)`) is outside that reading: a rule that finds its obligation unmet in such code has not shown that the
obligation is unmet.  Such instances are reported as UNDECIDED (exit 2), never as VIOLATION.

Frozen allow-list (reason: the idiom is summarised by the program model or is the serialisation protocol itself, which
the C13 rules read as a table of markers, not through attribute names):
"""

from __future__ import annotations

import ast

from .pm import FuncInfo, walk_no_nested

ALLOWED_FUNCTIONS = {
    "get_transformers": "summarised by resolve.py from the literal table returned by transformer_types()",
    "serialize": "serialisation protocol", "deserialize": "serialisation protocol", "_serialize": "serialisation protocol",
    "_deserialize": "serialisation protocol", "_deserialize_attrs": "serialisation protocol", "_serialize_data": "serialisation protocol",
    "_deserialize_data_node": "serialisation protocol", "compute": "walks the serialised tree", "_validate_loaded_data": "serialisation protocol",
}

_CACHE: dict[int, list] = {}


def opaque_sites(fn: FuncInfo) -> list[tuple[ast.AST, str]]:
    k = id(fn.node)
    if k in _CACHE:
        return _CACHE[k]
    out: list[tuple[ast.AST, str]] = []
    if fn.name not in ALLOWED_FUNCTIONS:
        a = fn.node.args
        params = {x.arg for x in a.posonlyargs + a.args + a.kwonlyargs}
        annotated_callable = {x.arg for x in a.posonlyargs + a.args + a.kwonlyargs if x.annotation is not None and "Callable" in ast.unparse(x.annotation)}
        for n in walk_no_nested(fn.node):
            if not isinstance(n, ast.Call):
                continue
            f = n.func
            if isinstance(f, ast.Name) and f.id in ("getattr", "setattr", "delattr") and len(n.args) >= 2:
                nm = n.args[1]
                if isinstance(nm, ast.Constant) and isinstance(nm.value, str):
                    continue
                if isinstance(nm, ast.Name) and nm.id in params and f.id == "getattr":
                    # resolved through the string constants the callers pass (resolve.py) - provided the receiver is an
                    # attribute of self or an element of get_transformers(); a bare local that ranges over a mixed
                    # collection of objects is not typed
                    recv = n.args[0]
                    typed = isinstance(recv, ast.Attribute) or (isinstance(recv, ast.Name) and recv.id in ("self", "cls")) or _ranges_over_transformers(fn, recv)
                    if typed:
                        continue
                    out.append((n, "getattr() on an untyped local (element of a mixed collection) with a method name passed as parameter"))
                    continue
                out.append((n, f"{f.id}() with a computed attribute name"))
            elif isinstance(f, ast.Name) and f.id in params and (f.id in annotated_callable or f.id in ("op", "func", "fn", "operator", "operation", "method", "callback", "f")):
                out.append((n, f"call of the function-valued parameter {f.id!r}"))
            elif isinstance(f, ast.Subscript):
                out.append((n, "call of an entry of a table (dispatch by key)"))
    _CACHE[k] = out
    return out


def _ranges_over_transformers(fn: FuncInfo, recv: ast.expr) -> bool:
    if not isinstance(recv, ast.Name):
        return False
    for n in walk_no_nested(fn.node):
        if isinstance(n, (ast.For, ast.comprehension)) and isinstance(n.target, ast.Name) and n.target.id == recv.id:
            if "get_transformers" in ast.unparse(n.iter) or ".transformers" in ast.unparse(n.iter):
                return True
    return False


def evidence_opaque(pm, fn: FuncInfo) -> str | None:
    """a reason why an unmet obligation in ``fn`` cannot be trusted, or None"""
    fns = [fn]
    try:
        from .rules.common import class_closure
        if fn.cls is not None:
            fns = class_closure(pm, fn.cls, fn)
        else:
            from .resolve import Ctx, calls_in
            ctx = Ctx(pm, fn)
            for c in calls_in(fn):
                for t in ctx.resolve_call(c):
                    if t.fn is not None and t.fn.cls is None and t.fn.module is fn.module:
                        fns.append(t.fn)
    except Exception:
        pass
    for g in fns:
        for node, why in opaque_sites(g):
            return f"{why} in {g.qualname} (line {getattr(node, 'lineno', '?')})"
    # attributes of the object assigned by computed name anywhere in the class: what an attribute holds is not readable
    if fn.cls is not None:
        for c in fn.cls.mro:
            for m in c.methods.values():
                if m.name in ALLOWED_FUNCTIONS:
                    continue
                for n in walk_no_nested(m.node):
                    if isinstance(n, ast.Call) and isinstance(n.func, ast.Name) and n.func.id == "setattr" and len(n.args) >= 2 \
                            and isinstance(n.args[0], ast.Name) and n.args[0].id == "self" and not isinstance(n.args[1], ast.Constant):
                        return f"setattr(self, <computed name>, ...) in {m.qualname} (line {n.lineno}): attributes of {fn.cls.name} are assigned by computed name"
    return None
