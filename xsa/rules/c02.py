"""C02 - outputs keep the input's structure and labels (structural clauses).

MIRROR.chain    Preprocessor fits the stages in the order of ``transformer_types()``, each stage fed
                by the previous one; transform walks the same table forward, every inverse map walks
                it reversed; serialize/deserialize walk the same table
MIRROR.state    per stage the inverse reads what the forward wrote for the same role: Stacker
                (stack/unstack and rename pairs, variable level name, dispatch on the stored type name,
                dims_mapping), Concatenator (same offsets from the same attribute), MultiIndexConverter
                (fit/transform bookkeeping and the reference each inverse uses), DimensionRenamer
                (inverts its own mapping)
MIRROR.order    every unstack path restores the original dimension order (_reorder_dims)
"""

from __future__ import annotations

import ast

from ..pm import AnalysisError, FuncInfo, const_str, dotted, is_self_attr, norm, walk_no_nested
from ..prov import FuncFacts
from ..resolve import Ctx, calls_in
from .common import inline_locals, call_kwargs, returns_of

INVERSES = ("inverse_transform_data", "inverse_transform_components", "inverse_transform_scores", "inverse_transform_scores_unseen")


def check(chk):
    _chain(chk)
    _stacker(chk)
    _concatenator(chk)
    _concat_align(chk)
    positional_relabel(chk)
    _multiindex(chk)
    _renamer(chk)
    _renamer_by_role(chk)
    # the feature coordinates of list elements are kept under "0", "1", ...: splitting walks them in list order
    from .common import index_key_order
    index_key_order(chk, "MIRROR.state.concat.index_keys", ("coords_in",))
    chk.floor("MIRROR.chain", 10)
    chk.floor("MIRROR.state", 18)
    chk.floor("MIRROR.order", 3)


def _chain(chk):
    pm = chk.pm
    prep = pm.cls("xeofs.preprocessing.preprocessor.Preprocessor")
    table = Ctx(pm, prep.methods["transform"], prep).transformer_chain(prep)
    chk.require(len(table) == 7, f"transformer_types() lists {len(table)} stages, 7 expected")
    fa = prep.methods["_fit_algorithm"]
    ff = FuncFacts.of(fa)
    calls = [c for c in calls_in(fa) if isinstance(c.func, ast.Attribute) and c.func.attr == "fit_transform" and is_self_attr(c.func.value)]
    calls.sort(key=lambda c: (c.lineno, c.col_offset))
    order = [c.func.value.attr for c in calls]
    chk.check(order == table, "MIRROR.chain.fit_order", fa, calls[0] if calls else fa.node, construct="fit applies the stages in table order",
              why=f"_fit_algorithm applies {order} but transformer_types() (used by transform and every inverse) lists {table}")
    # each stage is fed by the previous one
    for prev, cur in zip(calls, calls[1:]):
        a = cur.args[0] if cur.args else call_kwargs(cur).get("X")
        fed = a is not None and any(p.atom.kind == "call" and p.atom.node is prev for p in ff.paths(a, spine_only=True))
        chk.check(fed, "MIRROR.chain.fed", fa, cur, construct=f"{cur.func.value.attr} receives the output of {prev.func.value.attr}",
                  why="a stage is not fed with the previous stage's output: the chain that inverse maps undo is not the chain that was applied")
    rets = returns_of(fa)
    okr = bool(rets) and calls and any(p.atom.kind == "call" and p.atom.node is calls[-1] for r in rets for p in ff.paths(r.value, spine_only=True))
    chk.check(okr, "MIRROR.chain.fed", fa, rets[0] if rets else fa.node, construct="fit returns the last stage's output", why="the fitted matrix is not the output of the last stage")
    # get_transformers reverses for inverse=True
    gt = prep.methods["get_transformers"]
    gf = FuncFacts.of(gt)
    # provenance of the returned list: reversed ([::-1] / reversed()) exactly on the paths taken when `inverse` holds
    from .common import effective_guards
    rev_true = rev_other = plain = False
    for r in returns_of(gt):
        for p in gf.paths(r.value, spine_only=True):
            rops = [o for o in p.ops if (o.kind == "subscript" and o.name.replace(" ", "") == "::-1") or (o.kind == "arg" and o.name == "reversed")
                    or (o.kind == "method" and o.name == "reverse")]
            if not rops:
                plain = True
                continue
            for o in rops:
                egs = effective_guards(gf, o.node)
                if any(isinstance(t, ast.Name) and t.id == "inverse" and pol for t, pol, _ in egs):
                    rev_true = True
                else:
                    rev_other = True
    # in-place spelling: `names.reverse()` as a statement on the list that is then read
    for stt in gf.statements():
        if isinstance(stt, ast.Expr) and isinstance(stt.value, ast.Call) and isinstance(stt.value.func, ast.Attribute) and stt.value.func.attr == "reverse" \
                and isinstance(stt.value.func.value, ast.Name) and not stt.value.args:
            v = stt.value.func.value.id
            read_later = any(isinstance(n, ast.Name) and n.id == v and isinstance(n.ctx, ast.Load) for r in returns_of(gt) for n in ast.walk(r.value))
            if read_later:
                plain = True  # the same list, unreversed, when the statement is skipped
                if any(isinstance(t, ast.Name) and t.id == "inverse" and pol for t, pol, _ in effective_guards(gf, stt)):
                    rev_true = True
                else:
                    rev_other = True
    rev = rev_true and plain and not rev_other
    src_ok = "transformer_types" in norm(gt.node)
    chk.check(rev and src_ok, "MIRROR.chain.reverse", gt, gt.node, construct="get_transformers(inverse=True) is the table reversed",
              why="inverse maps no longer undo the stages in reverse order")
    # users of the table
    from ..resolve import reachable

    def stage_calls(entry, mname):
        """receivers, in call order, of the per-stage calls `stage.<mname>(...)` made while walking get_transformers()
        in `entry` or a private helper it calls (string dispatch through getattr followed)"""
        groups: dict[int, list[str]] = {}
        nodes = {}
        for ctx, call, t, path in reachable(pm, Ctx(pm, entry, prep)):
            if t.fn is None or t.via != "transformers" or len(path) > 2:
                continue
            if ctx.fn.cls is None or prep not in ctx.fn.cls.mro:
                continue
            if t.fn.name == mname:
                groups.setdefault(id(call), []).append(t.recv or "")
                nodes[id(call)] = call
        return [(nodes[k], v) for k, v in groups.items()]

    tr = prep.methods["transform"]
    want_f = [f"self.{a}" for a in table]
    got = stage_calls(tr, "transform")
    okt = any(v == want_f for _, v in got)
    chk.check(okt, "MIRROR.chain.forward", tr, got[0][0] if got else tr.node, construct="transform walks get_transformers() forward",
              why=f"transform no longer applies the fitted stages in fit order (stage calls found: {[v for _, v in got]})")
    for mname in INVERSES:
        m = prep.methods[mname]
        got = stage_calls(m, mname)
        ok = any(v == want_f[::-1] for _, v in got) and all(v == want_f[::-1] for _, v in got)
        chk.check(ok, "MIRROR.chain.inverse", m, got[0][0] if got else m.node, construct=f"{mname} walks get_transformers(inverse=True) calling {mname}",
                  why=f"Preprocessor.{mname} does not undo every stage, in reverse order, with the stage's own {mname} (stage calls found: {[v for _, v in got]})")
    for mname in ("serialize", "deserialize"):
        m = prep.methods[mname]
        called = {(c.func.attr if isinstance(c.func, ast.Attribute) else getattr(c.func, "id", "")) for c in calls_in(m)}
        # the stage objects are taken from get_transformers() or looked up by the table's names
        by_name = any(isinstance(c.func, ast.Name) and c.func.id == "getattr" and len(c.args) == 2 and isinstance(c.args[1], ast.Name) for c in calls_in(m))
        ok = "transformer_types" in called and ("get_transformers" in called or by_name)
        chk.check(ok, "MIRROR.chain.serial", m, m.node, construct=f"{mname} pairs the table names with get_transformers()",
                  why=f"{mname} no longer walks the same stage table as fit/transform")


def _stack_transform_dims(chk):
    """transform stacks new data with the dimension lists RECORDED AT FIT (dims_mapping), role by role: lists taken from the
    incoming data follow its own dimension order, so the columns of the 2-D matrix no longer line up with the fitted features"""
    pm = chk.pm
    st = pm.cls("xeofs.preprocessing.stacker.Stacker")
    stack = st.methods["_stack"]
    tr = st.methods.get("transform")
    chk.require(tr is not None, "Stacker.transform vanished")
    trf = FuncFacts.of(tr)
    from .common import bind_args as _bind2
    scalls = [c for c in calls_in(tr) if is_self_attr(c.func, "_stack")]
    chk.require(len(scalls) >= 1, "Stacker.transform: call of _stack vanished")
    for c in scalls:
        b = _bind2(stack, c)
        for pn, role in (("sample_dims", "self.sample_name"), ("feature_dims", "self.feature_name")):
            a = b.get(pn)
            ps = trf.paths(a, spine_only=True) if a is not None else []
            okd = bool(ps) and all(p.atom.kind == "selfattr" and p.atom.name == "self.dims_mapping" and p.ops and p.ops[0].kind == "subscript"
                                   and {q.atom.name for q in trf.paths(p.ops[0].node.slice, spine_only=True)} == {role} for p in ps)
            chk.check(okd, "MIRROR.state.stack.transform_dims", tr, c, construct=f"transform stacks with dims_mapping[{role.split('.')[-1]}] as {pn}",
                      why=f"transform stacks new data with {pn} = {norm(a) if a is not None else None} ({sorted({p.atom.name for p in ps})}) instead of the list recorded at fit: "
                          "data whose dimensions come in another order is stacked into differently ordered columns and every value is attached to the wrong label")


def _unstack_guarded(chk, rule="MIRROR.state.stack.guarded"):
    """The inverse maps receive 2-D results of the model (stacked ``sample`` dimension) as well as reconstructions made
    from score arrays the user passes in, which carry the ORIGINAL sample dimension already.  Every rename of the stacked
    sample name back to the original dimension is therefore conditional on the stacked name being a dimension of the
    data (sibling rule: the DataArray variant tests ``sample_name in X.dims``; a variant that renames unconditionally
    raises for inverse_transform(scores()) of a model fitted on that container kind)."""
    pm = chk.pm
    st = pm.cls("xeofs.preprocessing.stacker.Stacker")
    from .common import atomic_conditions, class_closure, holds, resolve_sources
    n = 0
    for mname in ("_unstack_to_dataarray", "_unstack_to_dataset_data", "_unstack_to_dataset_components"):
        m = st.methods.get(mname)
        chk.require(m is not None, f"Stacker.{mname} vanished")
        for g in class_closure(pm, st, m):
            gf = FuncFacts.of(g)
            for c in calls_in(g):
                if not (isinstance(c.func, ast.Attribute) and c.func.attr == "rename" and c.args and isinstance(c.args[0], ast.Dict)):
                    continue
                for k in c.args[0].keys:
                    if k is None or resolve_sources(pm, st, g, k) != {"self.sample_name"}:
                        continue
                    n += 1
                    guarded = False
                    for t, pol in atomic_conditions(gf, c):
                        if holds(t, pol, "In", lambda e: resolve_sources(pm, st, g, e) == {"self.sample_name"}, lambda e: norm(e).endswith(".dims")):
                            guarded = True
                    chk.check(guarded, rule, g, c, construct=f"{mname}: rename of the stacked sample name only where it is a dimension of the data",
                              why=f"{g.qualname} renames the stacked sample dimension unconditionally: a reconstruction made from user-provided scores carries the original "
                                  "sample dimension, so inverse_transform(scores()) raises for this container kind (the sibling variant tests `sample_name in X.dims` first)")
    chk.require(n >= 2, f"{rule}: only {n} renames of the stacked sample name found in the unstack functions (anchor vanished)")


def _dataset_layout(chk, rule="MIRROR.state.stack.dataset_layout"):
    """``Dataset.to_stacked_array`` lays the columns out in the order of the Dataset's variables and of each variable's own
    dimensions (the ``feature_dims`` list is not used for Datasets).  At fit that order defines the feature axis; data
    handed to ``transform`` later may hold the same variables in another order or transposed, and everything after the
    stacker works by position.  Stacker.fit therefore records the layout (something derived from ``X.data_vars``) and
    Stacker.transform brings a Dataset into that layout before it stacks."""
    pm = chk.pm
    st = pm.cls("xeofs.preprocessing.stacker.Stacker")
    stack, fit, tr = st.methods["_stack"], st.methods["fit"], st.methods["transform"]
    from .common import class_closure
    writer = [c for g in class_closure(pm, st, stack) for c in calls_in(g) if isinstance(c.func, ast.Attribute) and c.func.attr == "to_stacked_array"]
    if not writer:
        chk.ok(rule, stack, None, construct="<Datasets are not stacked with to_stacked_array: rule not applicable>", nontrivial=False)
        return
    ffit, ftr = FuncFacts.of(fit), FuncFacts.of(tr)
    fdata = [p for p in fit.params if p != "self"][0]
    layout_attrs = set()
    for stt in ffit.statements():
        tgt = stt.targets[0] if isinstance(stt, ast.Assign) and len(stt.targets) == 1 else stt.target if isinstance(stt, ast.AnnAssign) and stt.value is not None else None
        if tgt is None or not is_self_attr(tgt):
            continue
        if any(isinstance(n, ast.Attribute) and n.attr in ("data_vars", "variables") and isinstance(n.value, ast.Name) and n.value.id == fdata for n in ast.walk(stt.value)) or \
                any(isinstance(n, ast.Call) and isinstance(n.func, ast.Name) and n.func.id == "list" and n.args and isinstance(n.args[0], ast.Name) and n.args[0].id == fdata for n in ast.walk(stt.value)):
            layout_attrs.add(tgt.attr)
    scalls = [c for c in calls_in(tr) if is_self_attr(c.func, "_stack")]
    chk.require(len(scalls) >= 1, "Stacker.transform: call of _stack vanished")
    data = [p for p in tr.params if p != "self"][0]
    used = set()
    for c in scalls:
        a = c.args[0] if c.args else call_kwargs(c).get(data)
        for p in ftr.paths(a, spine_only=False) if a is not None else []:
            if p.atom.kind == "selfattr" and p.atom.name.split(".")[-1] in layout_attrs:
                used.add(p.atom.name.split(".")[-1])
    ok = bool(layout_attrs) and bool(used)
    chk.check(ok, rule, tr, scalls[0], construct="transform brings a Dataset into the variable / dimension order recorded at fit before stacking",
              why=(f"Stacker.fit records no layout of a Dataset (nothing derived from {fdata}.data_vars)" if not layout_attrs else
                   f"Stacker.transform stacks the Dataset as it comes (the recorded layout {sorted(layout_attrs)} does not reach _stack)") +
                  ": to_stacked_array follows the order of the variables and of each variable's dimensions, so the same data with variables re-ordered or transposed "
                  "is projected column by column on the wrong features")


def _unstack_order(chk, rule="MIRROR.state.stack.order"):
    """xarray's unstack returns every un-stacked dimension with its labels SORTED; Stacker.transform compares the labels of
    new data with the fitted ones in order.  Whatever the inverse maps return must therefore carry the feature coordinates
    in the fitted order again (a reindex / sel by the recorded coordinates after un-stacking) - otherwise a reconstruction
    of data with a descending or unsorted coordinate (latitude from north to south) cannot be handed back to transform."""
    pm = chk.pm
    st = pm.cls("xeofs.preprocessing.stacker.Stacker")
    from .common import class_closure
    for mname in ("inverse_transform_data", "inverse_transform_components"):
        m = st.methods.get(mname)
        chk.require(m is not None, f"Stacker.{mname} vanished")
        ok = False
        node = m.node
        for g in class_closure(pm, st, m):
            gf = FuncFacts.of(g)
            for c in calls_in(g):
                if isinstance(c.func, ast.Attribute) and c.func.attr in ("reindex", "sel", "reindex_like", "sortby", "isel"):
                    args = list(c.args) + [k.value for k in c.keywords]
                    vals = [v for a in args for v in (a.values if isinstance(a, ast.Dict) else [a])]
                    if any(p.atom.kind == "selfattr" and p.atom.name == "self.coords_in" for v in vals for p in gf.paths(v, spine_only=False)):
                        ok = True
                        node = c
        chk.check(ok, rule, m, node, construct=f"{mname}: feature coordinates come back in the fitted order",
                  why=f"Stacker.{mname} un-stacks (labels come back sorted) and never restores the order of the coordinates recorded at fit: for data fitted with a descending / "
                      "unsorted feature coordinate, inverse_transform returns it ascending and transform() refuses that very reconstruction ('different coordinates')")


def _dataset_unstack_scope(chk, rule="MIRROR.state.dataset.unstack_scope"):
    """The inverse of the Dataset stacking un-stacks the `feature` dimension and nothing else.  A bare ``.unstack()`` splits
    EVERY MultiIndex of the array - also the user's own sample MultiIndex, which a reconstruction carries - and merges the
    level tables of variables with different dimension sets (a variable lacking a dimension has level code -1 there, which
    the blanket unstack writes at the last label of that dimension: values of other variables are overwritten by NaN);
    ``to_unstacked_dataset`` additionally squeezes every dimension of length one (a reconstruction of one sample, one mode).
    Outside a legacy fallback (guarded by the absence of the layout recorded at fit) the Dataset path names the dimension
    it un-stacks."""
    pm = chk.pm
    st = pm.cls("xeofs.preprocessing.stacker.Stacker")
    from .common import class_closure, effective_guards
    n = 0
    seen = set()
    for mname in ("_unstack_to_dataset_data", "_unstack_to_dataset_components"):
        m = st.methods.get(mname)
        chk.require(m is not None, f"Stacker.{mname} vanished")
        for g in class_closure(pm, st, m):
            gf = FuncFacts.of(g)
            for c in calls_in(g):
                if not (isinstance(c.func, ast.Attribute) and c.func.attr in ("unstack", "to_unstacked_dataset")) or id(c) in seen:
                    continue
                seen.add(id(c))
                blanket = c.func.attr == "unstack" and not c.args and not c.keywords
                squeezes = c.func.attr == "to_unstacked_dataset"
                if not (blanket or squeezes):
                    continue
                n += 1
                legacy = any(is_self_attr(x) and not pol for t, pol, _ in effective_guards(gf, c) for x in ([t] if is_self_attr(t) else [])) or \
                    any(isinstance(t, ast.UnaryOp) and isinstance(t.op, ast.Not) and is_self_attr(t.operand) and pol for t, pol, _ in effective_guards(gf, c))
                chk.check(legacy, rule, g, c, construct=f"{g.name}: `{norm(c)[-40:]}` only in the legacy fallback",
                          why=f"{g.qualname} rebuilds the Dataset with `{norm(c)[-60:]}`: " + ("a bare unstack() splits every MultiIndex (the user's sample MultiIndex included) and merges the "
                              "level tables of variables with different dimension sets" if blanket else "to_unstacked_dataset squeezes every dimension of length one (one sample, one mode)") +
                              " - reconstructions and components of Dataset-fitted models come back with other dimensions or with values at the wrong labels")
    chk.ok(rule, st.qualname, None, construct=f"<blanket unstack / to_unstacked_dataset calls on the Dataset inverse path: {n}>", nontrivial=False)


def _stacker(chk):
    pm = chk.pm
    st = pm.cls("xeofs.preprocessing.stacker.Stacker")
    from .common import class_closure, resolve_sources
    stack = st.methods["_stack"]
    sf = FuncFacts.of(stack)
    # forward: which name each stack/rename targets (the calls may live in private helpers)
    fwd = {"stack": set(), "rename": set()}
    for g in class_closure(pm, st, stack):
        for c in calls_in(g):
            if isinstance(c.func, ast.Attribute) and c.func.attr in ("stack", "rename") and c.args and isinstance(c.args[0], ast.Dict):
                d = c.args[0]
                if c.func.attr == "stack":
                    for k in d.keys:
                        fwd["stack"] |= resolve_sources(pm, st, g, k)
                else:
                    for v in d.values:
                        fwd["rename"] |= resolve_sources(pm, st, g, v)
    chk.check(fwd["stack"] == {"self.sample_name", "self.feature_name"} and fwd["rename"] == {"self.sample_name", "self.feature_name"},
              "MIRROR.state.stack.names", stack, stack.node, construct="_stack stacks / renames into sample_name and feature_name",
              why=f"forward stacking targets {fwd}")
    un = st.methods["_unstack_to_dataarray"]
    inv = {"unstack": set(), "rename_from": set(), "rename_to": set()}
    pair_ok = True
    for g in class_closure(pm, st, un):
        for c in calls_in(g):
            if isinstance(c.func, ast.Attribute) and c.func.attr == "unstack" and c.args:
                inv["unstack"] |= resolve_sources(pm, st, g, c.args[0])
            if isinstance(c.func, ast.Attribute) and c.func.attr == "rename" and c.args and isinstance(c.args[0], ast.Dict):
                for k, v in zip(c.args[0].keys, c.args[0].values):
                    ks = resolve_sources(pm, st, g, k)
                    vs = resolve_sources(pm, st, g, v)
                    inv["rename_from"] |= ks
                    inv["rename_to"] |= vs
    want_to = {"self.dims_mapping[self.sample_name][0]", "self.dims_mapping[self.feature_name][0]"}
    okinv = inv["unstack"] == {"self.sample_name", "self.feature_name"} and inv["rename_from"] == {"self.sample_name", "self.feature_name"} \
        and inv["rename_to"] == want_to
    chk.check(okinv, "MIRROR.state.stack.inverse", un, un.node, construct="_unstack_to_dataarray: unstack(name) / rename({name: dims_mapping[name][0]})",
              why=f"the inverse does not undo the forward stacking by the same names ({inv})")
    # every rename-back call site pairs a stacked name with the original dimension of the SAME role
    for g in class_closure(pm, st, un):
        gf = FuncFacts.of(g)
        if g is un:
            for c in calls_in(g):
                if isinstance(c.func, ast.Attribute) and c.func.attr == "rename" and c.args and isinstance(c.args[0], ast.Dict):
                    k, v = c.args[0].keys[0], c.args[0].values[0]
                    chk.check(f"[{norm(k)}]" in norm(v), "MIRROR.state.stack.pair", un, c, why="a stacked name is renamed back to the original dimension of the other role")
        else:
            # helper(X, stacked_name, original_dims): at each call the two arguments must refer to the same role
            from .common import callers_in_class, bind_args as _bind
            for caller, call in callers_in_class(pm, st, g):
                b = _bind(g, call)
                roles = []
                for pn, a in b.items():
                    t = norm(a)
                    if "sample_name" in t:
                        roles.append("sample")
                    if "feature_name" in t:
                        roles.append("feature")
                chk.check(len(set(roles)) <= 1, "MIRROR.state.stack.pair", caller, call, why="a stacked name is un-stacked / renamed back with the original dimensions of the other role")
    fit = st.methods["fit"]
    ffit = FuncFacts.of(fit)
    pairs = set()
    for d in [n for n in walk_no_nested(fit.node) if isinstance(n, ast.Dict)]:
        for k, v in zip(d.keys, d.values):
            if k is None:
                continue
            ks = {p.atom.name for p in ffit.paths(k, spine_only=True)}
            vs = {p.atom.name for p in ffit.paths(v, spine_only=True) if p.atom.kind == "param"}
            if len(ks) == 1 and len(vs) == 1:
                pairs.add((next(iter(ks)), next(iter(vs))))
    for stt in walk_no_nested(fit.node):
        if isinstance(stt, ast.Assign) and isinstance(stt.targets[0], ast.Subscript) and is_self_attr(stt.targets[0].value, "dims_mapping"):
            ks = {p.atom.name for p in ffit.paths(stt.targets[0].slice, spine_only=True)}
            vs = {p.atom.name for p in ffit.paths(stt.value, spine_only=True) if p.atom.kind == "param"}
            if len(ks) == 1 and len(vs) == 1:
                pairs.add((next(iter(ks)), next(iter(vs))))
    chk.check({("self.sample_name", "sample_dims"), ("self.feature_name", "feature_dims")} <= pairs, "MIRROR.state.stack.mapping", fit, fit.node,
              construct="fit records {sample_name: sample_dims, feature_name: feature_dims}", why="dims_mapping no longer records which original dimensions each stacked name stands for")
    _stack_transform_dims(chk)
    _unstack_guarded(chk)
    _unstack_order(chk)
    _dataset_unstack_scope(chk)
    _dataset_layout(chk)
    # ... and only after the labels along every feature dimension have been compared IN ORDER with the recorded ones
    from .common import ordered_label_comparison
    ordered_label_comparison(chk, "MIRROR.state.stack.transform_coords", st.methods["_validate_transform_feature_coords"], ("coords_in",),
                             "new data holding the fitted labels in another order along a feature dimension are stacked into differently ordered columns: every value is attached to the wrong label")
    # dataset variant: variable level name
    writer = [c for c in calls_in(stack) if isinstance(c.func, ast.Attribute) and c.func.attr == "to_stacked_array"]
    chk.require(len(writer) == 1, "Stacker._stack: to_stacked_array vanished")
    wv = call_kwargs(writer[0]).get("variable_dim")
    wname = const_str(wv) if wv is not None else "variable"  # xarray's default
    nd = call_kwargs(writer[0]).get("new_dim") or (writer[0].args[0] if writer[0].args else None)
    chk.check(nd is not None and {p.atom.name for p in sf.paths(nd, spine_only=True)} == {"self.feature_name"}, "MIRROR.state.dataset.new_dim", stack, writer[0],
              why="Datasets must be stacked into the feature_name dimension")
    for mname in ("_unstack_to_dataset_data", "_unstack_to_dataset_components"):
        m = st.methods[mname]
        # (one of the two may delegate its tail to the other)
        found = [(g, c) for g in class_closure(pm, st, m) for c in calls_in(g) if isinstance(c.func, ast.Attribute) and c.func.attr == "to_unstacked_dataset"]
        chk.require(len(found) == 1, f"Stacker.{mname}: to_unstacked_dataset vanished")
        mf = FuncFacts.of(found[0][0])
        rd = [found[0][1]]
        lvl = rd[0].args[1] if len(rd[0].args) > 1 else call_kwargs(rd[0]).get("level")
        dimarg = rd[0].args[0] if rd[0].args else call_kwargs(rd[0]).get("dim")
        ok = const_str(lvl) == wname and dimarg is not None and {p.atom.name for p in mf.paths(dimarg, spine_only=True)} == {"self.feature_name"}
        chk.check(ok, "MIRROR.state.dataset.level", m, rd[0], construct=f"{mname}: to_unstacked_dataset(feature_name, {wname!r})",
                  why=f"Datasets are stacked with variable level {wname!r} along feature_name but unstacked with level {const_str(lvl)!r}")
    # dispatch on the stored type name
    tn = st.methods["_type_name"]
    oktn = any("__name__" in norm(r.value) and "type(" in norm(r.value) for r in returns_of(tn))
    wr = [s for s in walk_no_nested(fit.node) if isinstance(s, ast.Assign) and is_self_attr(s.targets[0], "data_type") and "_type_name" in norm(s.value)]
    chk.check(oktn and bool(wr), "MIRROR.state.type.write", fit, wr[0] if wr else fit.node, construct="fit stores type(X).__name__ as data_type",
              why="the container type of the fit data is no longer recorded for the inverse maps")
    for mname, want in (("inverse_transform_data", {"DataArray": "_unstack_to_dataarray", "Dataset": "_unstack_to_dataset_data"}),
                        ("inverse_transform_components", {"DataArray": "_unstack_to_dataarray", "Dataset": "_unstack_to_dataset_components"})):
        m = st.methods[mname]
        got = {}
        default_raises = False
        # which helper runs under `self.data_type == <name>` (however the branch is written), and is anything else refused
        from .common import atomic_conditions, cmp_forms
        mf = FuncFacts.of(m)

        def type_conds(node):
            eq, ne = set(), set()
            for t, pol in atomic_conditions(mf, node):
                for op, a, b in cmp_forms(t, pol):
                    if norm(a) == "self.data_type" and const_str(b) is not None:
                        (eq if op == "Eq" else ne if op == "NotEq" else set()).add(const_str(b))
            return eq, ne

        for c in calls_in(m):
            if is_self_attr(c.func) and c.func.attr.startswith("_unstack"):
                eq, _ = type_conds(c)
                for k in eq:
                    got[k] = c.func.attr
        for r in [n for n in walk_no_nested(m.node) if isinstance(n, ast.Raise)]:
            _, ne = type_conds(r)
            if ne and ne >= set(got):
                default_raises = True
        chk.check(got == want and default_raises, "MIRROR.state.type.dispatch", m, m.node, construct=f"{mname} dispatches {want}",
                  why=f"inverse dispatch on the stored container type is {got} (raising default: {default_raises})")
    # reorder
    for mname in ("_unstack_to_dataarray", "_unstack_to_dataset_data", "_unstack_to_dataset_components"):
        m = st.methods[mname]
        mf = FuncFacts.of(m)
        rets = returns_of(m)
        def reordered(mf2, e, depth=0):
            for p in mf2.paths(e, spine_only=True):
                if any(o.kind == "arg" and o.name == "self._reorder_dims" for o in p.ops) or (p.atom.kind == "call" and p.atom.name == "self._reorder_dims"):
                    return True
                # the tail is delegated to a sibling that ends in _reorder_dims
                if depth < 2 and p.atom.kind == "call" and p.atom.name.startswith("self._unstack") and not p.ops:
                    sib = st.resolve(p.atom.name.split(".")[-1])
                    if sib is not None and sib is not mf2.fn and all(reordered(FuncFacts.of(sib), r2.value, depth + 1) for r2 in returns_of(sib)):
                        return True
                for o in p.ops:
                    if depth < 2 and o.kind == "arg" and o.name.startswith("self._unstack"):
                        sib = st.resolve(o.name.split(".")[-1])
                        if sib is not None and sib is not mf2.fn and all(reordered(FuncFacts.of(sib), r2.value, depth + 1) for r2 in returns_of(sib)):
                            return True
            return False

        ok = bool(rets) and all(reordered(mf, r.value) for r in rets)
        chk.check(ok, "MIRROR.order", m, rets[0] if rets else m.node, construct=f"{mname} ends in _reorder_dims", why="the original dimension order is not restored")
    ro = st.methods["_reorder_dims"]
    chk.check("self.dims_in" in norm(ro.node) and "transpose" in norm(ro.node), "MIRROR.order.dims_in", ro, ro.node, construct="_reorder_dims transposes to dims_in order",
              why="_reorder_dims no longer uses the dimension order recorded at fit")
    okd = any(isinstance(s, ast.Assign) and is_self_attr(s.targets[0], "dims_in") and any(
        p.atom.kind == "param" and [o.name for o in p.ops if o.kind == "attr"] == ["dims"] for p in ffit.paths(s.value, spine_only=True)) for s in walk_no_nested(fit.node))
    chk.check(okd, "MIRROR.order.dims_in", fit, fit.node, construct="fit records dims_in = X.dims", why="fit no longer records the input's dimension order")


def _concatenator(chk):
    pm = chk.pm
    cc = pm.cls("xeofs.preprocessing.concatenator.Concatenator")
    from .common import class_closure
    exprs = {}
    for mname in ("transform", "_split_dataarray_into_list"):
        m = cc.methods[mname]
        hit = None
        # the offsets and the range built from them may live in a helper shared by both directions
        for g in class_closure(pm, cc, m):
            gf = FuncFacts.of(g)
            for c in gf.calls():
                if not ((dotted(c.func) or "").endswith("arange") and len(c.args) == 2):
                    continue
                lps = [p for p in gf.paths(c.args[0], spine_only=True) if p.atom.kind == "call" and p.atom.name.endswith("cumsum")]
                hps = [p for p in gf.paths(c.args[1], spine_only=True) if p.atom.kind == "call" and p.atom.name.endswith("cumsum")]
                if lps and hps:
                    hit = (g, c, lps, hps)
        chk.require(hit is not None, f"Concatenator.{mname}: offset computation vanished")
        g, c, lps, hps = hit
        exprs[mname] = (g, lps[0].atom.node)
        okar = False
        if len(lps) == 1 and len(hps) == 1 and lps[0].atom.node is hps[0].atom.node:
            lo = [o for o in lps[0].ops if o.kind == "subscript"]
            hi = [o for o in hps[0].ops if o.kind == "subscript"]
            if len(lo) == 1 and len(hi) == 1 and len(lps[0].ops) == 1 and len(hps[0].ops) == 1:
                ls, hs = lo[0].node.slice, hi[0].node.slice
                okar = isinstance(ls, ast.Name) and isinstance(hs, ast.BinOp) and isinstance(hs.op, ast.Add) \
                    and norm(hs.left) == norm(ls) and norm(hs.right) == "1"
        chk.check(okar, "MIRROR.state.concat.range", g, c, construct=f"{mname}: item i occupies offsets [o[i], o[i+1])",
                  why="the dummy feature coordinates of item i are not the half-open range between consecutive offsets")
    (ga, a), (gb, b) = exprs["transform"], exprs["_split_dataarray_into_list"]
    chk.check(norm(a) == norm(b) and "self.n_features" in norm(a) and "[0] +" in norm(a), "MIRROR.state.concat.offsets",
              gb, b, construct="split uses the offsets transform used: cumsum([0] + n_features)",
              why=f"transform concatenates with offsets {norm(a)} but the inverse splits with {norm(b)}")
    fit = cc.methods["fit"]
    cfit = FuncFacts.of(fit)
    ok_nf = ok_ci = False
    for stt in walk_no_nested(fit.node):
        if isinstance(stt, ast.Assign) and is_self_attr(stt.targets[0], "n_features"):
            ps = cfit.paths(stt.value, spine_only=True)
            ok_nf = any(p.has_op("attr", "size") and (p.atom.name == "self.coords_in" or (p.atom.kind == "param" and p.has_op("attr", "coords"))) for p in ps)
        if isinstance(stt, ast.Assign) and is_self_attr(stt.targets[0], "coords_in"):
            ps = cfit.paths(stt.value, spine_only=True)
            ok_ci = any(p.atom.kind == "param" and p.has_op("attr", "coords") for p in ps) and "self.feature_name" in norm(stt.value)
    chk.check(ok_nf and ok_ci, "MIRROR.state.concat.fit", fit, fit.node, construct="fit records the feature coordinates and their sizes per item",
              why="the concatenator no longer records per-item feature coordinates / sizes consistently")
    sp = cc.methods["_split_dataarray_into_list"]
    spf = FuncFacts.of(sp)
    okrs = False
    for c in calls_in(sp):
        if isinstance(c.func, ast.Attribute) and c.func.attr == "assign_coords" and c.args and isinstance(c.args[0], ast.Dict):
            v = c.args[0].values[0]
            okrs = okrs or any(p.atom.name == "self.coords_in" for p in spf.paths(v, spine_only=True))
    chk.check(okrs, "MIRROR.state.concat.restore", sp, sp.node,
              construct="split re-attaches the recorded feature coordinates", why="the original feature coordinates are not re-attached when splitting")


def positional_relabel(chk, rule="MIRROR.state.stack.labels"):
    """Stacker's inverse maps change labels only by rename / unstack (label based).  Overwriting coordinates from the
    values remembered at fit (assign_coords / .coords[...] = ...) re-labels by POSITION, but unstack returns sorted labels."""
    pm = chk.pm
    from .c14 import self_closure
    st = pm.cls("xeofs.preprocessing.stacker.Stacker")
    seen = set()
    for mname in INVERSES:
        for fn in self_closure(pm, st, st.methods[mname]):
            if fn.qualname in seen:
                continue
            seen.add(fn.qualname)
            ff = FuncFacts.of(fn)
            bad = []
            for c in calls_in(fn):
                if isinstance(c.func, ast.Attribute) and c.func.attr in ("assign_coords", "reset_coords", "set_index", "reindex_like"):
                    args = list(c.args) + [k.value for k in c.keywords]
                    if any(any(p.atom.kind == "selfattr" and p.atom.name.startswith("self.coords") for p in ff.paths(a, spine_only=False)) for a in args):
                        bad.append(c)
            for n in walk_no_nested(fn.node):
                if isinstance(n, ast.Assign):
                    for t in n.targets:
                        if isinstance(t, ast.Subscript) and isinstance(t.value, ast.Attribute) and t.value.attr == "coords":
                            bad.append(n)
            chk.check(not bad, rule, fn, bad[0] if bad else fn.node, construct=f"{fn.qualname}: labels changed only by rename/unstack",
                      why="coordinates remembered at fit are written back by position; unstack returns labels sorted, so for unsorted or permuted "
                          "feature coordinates every value lands on the wrong label")


def rule_prefix(chk, rule: str) -> str:
    return rule


def _concat_align(chk):
    pm = chk.pm
    cc = pm.cls("xeofs.preprocessing.concatenator.Concatenator")
    tr = cc.methods["transform"]
    cs = [c for c in calls_in(tr) if (dotted(c.func) or "").endswith("concat")]
    chk.require(len(cs) == 1, "Concatenator.transform: xr.concat vanished")
    kw = call_kwargs(cs[0])
    bad = {k: const_str(v) for k, v in kw.items() if k in ("join", "compat", "coords") and const_str(v) == "override"}
    chk.check(not bad, "MIRROR.state.concat.align", tr, cs[0],
              why=f"list items are concatenated with {bad}: the sample index of the first item is pasted onto the others by position, so items whose "
                  "samples are ordered differently get their values attached to the wrong sample labels")
    # other ways of gluing by position: numpy / dask concatenation, or giving the items a common sample index first
    tf = FuncFacts.of(tr)
    pos = []
    for c in calls_in(tr):
        nm = dotted(c.func) or ""
        if nm.split(".")[-1] in ("concatenate", "hstack", "vstack", "column_stack", "stack") and nm.split(".")[0] in ("np", "numpy", "da", "dask"):
            pos.append((c, f"{nm}() concatenates raw arrays"))
        if isinstance(c.func, ast.Attribute) and c.func.attr in ("assign_coords", "drop_vars", "reset_index", "reset_coords", "reindex_like", "reindex", "isel", "sel"):
            args = list(c.args) + [k.value for k in c.keywords] + ([k for a in c.args if isinstance(a, ast.Dict) for k in a.keys])
            if any(any(p.atom.kind == "selfattr" and p.atom.name == "self.sample_name" for p in tf.paths(a, spine_only=True)) for a in args if a is not None) \
                    or any(k.arg == "sample" for k in c.keywords):
                pos.append((c, f".{c.func.attr}() re-labels or re-selects the sample dimension of an item before concatenation"))
    chk.check(not pos, rule_prefix(chk, "MIRROR.state.concat.align.items"), tr, pos[0][0] if pos else cs[0], construct="items reach xr.concat with their own sample labels",
              why=(pos[0][1] + ": items whose samples are stored in another order (or lost other samples) are attached to the wrong sample labels") if pos else "")
    d = kw.get("dim")
    dps = FuncFacts.of(tr).paths(d, spine_only=True) if d is not None else []
    chk.check(bool(dps) and all(p.atom.kind == "selfattr" and p.atom.name == "self.feature_name" and not p.ops for p in dps), "MIRROR.state.concat.dim", tr, cs[0],
              why="items must be concatenated along the feature dimension")


def _multiindex(chk):
    pm = chk.pm
    mc = pm.cls("xeofs.preprocessing.multi_index_converter.MultiIndexConverter")
    fit = mc.methods["fit"]
    ff = FuncFacts.of(fit)
    writes = [s for s in walk_no_nested(fit.node) if isinstance(s, ast.Assign) and isinstance(s.targets[0], ast.Subscript) and is_self_attr(s.targets[0].value, "coords_from_fit")]
    apps = [c for c in calls_in(fit) if isinstance(c.func, ast.Attribute) and c.func.attr == "append" and is_self_attr(c.func.value, "modified_dimensions")]
    ok = len(writes) == 1 and len(apps) == 1
    if ok:
        from .common import effective_guards
        for n in (writes[0], apps[0]):
            ok = ok and any("isinstance" in norm(t) and "MultiIndex" in norm(t) and pol for t, pol, _ in effective_guards(ff, n))
        ok = ok and norm(writes[0].targets[0].slice) == norm(apps[0].args[0])
    chk.check(ok, "MIRROR.state.multiindex.fit", fit, writes[0] if writes else fit.node, construct="fit records coords and name of exactly the MultiIndex dimensions",
              why="the set of converted dimensions and the remembered coordinates disagree")
    tr = mc.methods["transform"]
    loops = [n for n in walk_no_nested(tr.node) if isinstance(n, ast.For)]
    okt = bool(loops) and norm(loops[0].iter) == "self.modified_dimensions" and any(
        isinstance(s, ast.Assign) and isinstance(s.targets[0], ast.Subscript) and is_self_attr(s.targets[0].value, "coords_from_transform") for s in ast.walk(loops[0]))
    chk.check(okt, "MIRROR.state.multiindex.transform", tr, loops[0] if loops else tr.node, construct="transform replaces exactly the recorded dimensions and remembers the new coordinates",
              why="transform no longer converts exactly the dimensions converted at fit")
    inv = mc.methods["_inverse_transform"]
    from .c05 import reads_in
    got = {}
    for ref in ("fit", "transform"):
        rd = reads_in(pm, mc, inv, {"reference": ref}) & {"coords_from_fit", "coords_from_transform"}
        got[ref] = "self." + "|".join(sorted(rd))
    chk.check(got == {"fit": "self.coords_from_fit", "transform": "self.coords_from_transform"}, "MIRROR.state.multiindex.reference", inv, inv.node,
              construct="reference 'fit' -> coords_from_fit, 'transform' -> coords_from_transform", why=f"reference table is {got}")
    # the inverse puts the remembered labels back AND rebuilds the MultiIndex from them
    invf = FuncFacts.of(inv)
    rets = returns_of(inv)
    restored = any(p.has_op("method", "set_index") for r in rets for p in invf.paths(r.value, spine_only=True))
    wrote = any(isinstance(stt, ast.Assign) and isinstance(stt.targets[0], ast.Subscript) and isinstance(stt.targets[0].value, ast.Attribute) and stt.targets[0].value.attr == "coords"
                for stt in walk_no_nested(inv.node)) or any(p.has_op("method", "assign_coords") for r in rets for p in invf.paths(r.value, spine_only=True))
    chk.check(restored and wrote, "MIRROR.state.multiindex.restore", inv, rets[0] if rets else inv.node, construct="inverse re-attaches the labels and rebuilds the MultiIndex (set_index)",
              why="the inverse map no longer " + ("rebuilds the MultiIndex from the restored labels" if wrote else "re-attaches the remembered labels") + ": results come back with a flat / positional index")
    # the levels the MultiIndex is rebuilt from are the remembered INDEX's own levels (`.indexes` / `to_index().names`), not
    # whatever coordinates lie along the dimension: an auxiliary coordinate (season(time)) taken as a level becomes an
    # extra dimension when the results are unstacked
    for c in calls_in(inv):
        if not (isinstance(c.func, ast.Attribute) and c.func.attr == "set_index"):
            continue
        lv = [v for a in c.args if isinstance(a, ast.Dict) for v in a.values] + [k.value for k in c.keywords if k.arg not in ("append",)]
        for v in lv:
            ps = invf.paths(v, spine_only=False)
            from_index = any(p.has_op("attr", "indexes") or p.has_op("attr", "xindexes") or p.has_op("method", "to_index") or p.has_op("method", "get_index") or p.has_op("attr", "names") for p in ps)
            from_coords = any((p.has_op("attr", "coords") or p.has_op("attr", "variables") or p.has_op("attr", "dims")) and not
                              (p.has_op("attr", "indexes") or p.has_op("attr", "xindexes") or p.has_op("method", "to_index") or p.has_op("attr", "names")) for p in ps
                              if p.atom.kind != "const" and not (p.atom.kind in ("loopvar", "name") and not p.ops))
            chk.check(from_index and not from_coords, "MIRROR.state.multiindex.restore.levels", inv, c, construct="MultiIndex rebuilt from the levels of the remembered index",
                      why="the levels handed to set_index are read from the coordinates lying along the dimension, not from the remembered index: an auxiliary "
                          "coordinate along a stacked or MultiIndex dimension becomes a level, and scores / components / reconstructions unstack into an extra dimension")
    # the labels also survive the serialisation round trip that compute() / load() perform (shared with C13)
    from . import c13 as _c13
    _c13._mi_levels(chk, rule="MIRROR.state.multiindex.levels")
    # the coordinates remembered at fit and those captured by transform live in two distinct containers
    from .c14 import alias_sites
    al = [(fn, st, t, a) for fn, st, t, a in alias_sites(pm) if fn.cls is not None and mc in fn.cls.mro and {t, a} & {"coords_from_fit", "coords_from_transform"}]
    chk.check(not al, "MIRROR.state.multiindex.distinct", al[0][0] if al else fit, al[0][1] if al else fit.node,
              construct="coords_from_fit and coords_from_transform are two containers",
              why=(f"self.{al[0][2]} is bound to the container of self.{al[0][3]}: transforming other data overwrites the labels remembered at fit, and the "
                   "fitted results come back with the other data's labels") if al else "")
    want = {"inverse_transform_data": "fit", "inverse_transform_components": "fit", "inverse_transform_scores": "fit", "inverse_transform_scores_unseen": "transform"}
    for mname, ref in want.items():
        m = mc.methods[mname]
        cs = [c for c in calls_in(m) if is_self_attr(c.func, "_inverse_transform")]
        r = None
        if cs:
            r = call_kwargs(cs[0]).get("reference") or (cs[0].args[1] if len(cs[0].args) > 1 else None)
        chk.check(const_str(r) == ref, "MIRROR.state.multiindex.uses", m, cs[0] if cs else m.node, construct=f"{mname} restores from reference {ref!r}",
                  why=f"{mname} restores MultiIndexes from {const_str(r)!r}: labels of the fitted data and of transformed data get mixed up")


def _renamer_by_role(chk, rule="MIRROR.state.renamer.by_role"):
    """The items of a list are renamed one by one to internal dimension names, then the (sorted) union of their internal
    SAMPLE names is stacked and the items are concatenated by position.  The internal name of a sample dimension must
    therefore be the same for every item, whatever position the dimension has in that item's layout: the numbering
    starts from the sample dimensions given by the user, not from ``X.dims``."""
    pm = chk.pm
    rn = pm.cls("xeofs.preprocessing.dimension_renamer.DimensionRenamer")
    fit = rn.methods.get("fit")
    chk.require(fit is not None, "DimensionRenamer.fit vanished")
    ff = FuncFacts.of(fit)
    found = False
    for st in ff.statements():
        tgt = st.targets[0] if isinstance(st, ast.Assign) and len(st.targets) == 1 else None
        if tgt is None or not is_self_attr(tgt, "dim_mapping"):
            continue
        v = inline_locals(ff, st.value)
        enum = [c for c in ast.walk(v) if isinstance(c, ast.Call) and isinstance(c.func, ast.Name) and c.func.id == "enumerate" and c.args]
        if not enum:
            continue
        found = True
        it = enum[0].args[0]
        ps = ff.paths(it, spine_only=False)
        # the enumeration must start with the sample dimensions handed to fit: a concatenation whose LEFT-most part comes from that parameter
        lead = it
        while isinstance(lead, ast.Name):
            defs = ff.rd.reaching(lead.id, ff.node_of(st))
            if len(defs) == 1 and defs[0].kind == "assign" and not defs[0].index:
                lead = defs[0].value
            else:
                break
        while isinstance(lead, ast.BinOp) and isinstance(lead.op, ast.Add):
            lead = lead.left
        lead_from_samples = any(p.atom.kind == "param" and p.atom.name == "sample_dims" for p in ff.paths(lead, spine_only=False))
        chk.check(lead_from_samples, rule, fit, st, construct="internal dimension names are numbered from the sample dimensions given to fit",
                  why=f"DimensionRenamer.fit numbers the dimensions in the order `{norm(it)[:60]}`: the internal name of a sample dimension depends on its position in the layout of "
                      "the data, so two items of a list that hold the sample dimensions at different positions are stacked differently and concatenated row against wrong row "
                      "(or the union of their sample names is taken for several sample dimensions and fit raises)")
    chk.require(found, "DimensionRenamer.fit: dim_mapping is no longer built from an enumeration (anchor vanished)")


def _renamer(chk):
    pm = chk.pm
    rn = pm.cls("xeofs.preprocessing.dimension_renamer.DimensionRenamer")
    tr = rn.methods["transform"]
    okf = any(isinstance(c.func, ast.Attribute) and c.func.attr == "rename" and c.args and norm(c.args[0]) == "self.dim_mapping" for c in calls_in(tr))
    chk.check(okf, "MIRROR.state.renamer.forward", tr, tr.node, construct="transform renames with dim_mapping", why="transform no longer applies the mapping recorded at fit")
    inv = rn.methods["_inverse_transform"]
    oki = False
    for c in calls_in(inv):
        a0 = inline_locals(FuncFacts.of(inv), c.args[0]) if c.args else None
        if isinstance(c.func, ast.Attribute) and c.func.attr == "rename" and isinstance(a0, ast.DictComp):
            dc = a0
            g = dc.generators[0]
            tg = [norm(e) for e in g.target.elts] if isinstance(g.target, ast.Tuple) else []
            oki = norm(g.iter) == "self.dim_mapping.items()" and len(tg) == 2 and norm(dc.key) == tg[1] and norm(dc.value) == tg[0]
    chk.check(oki, "MIRROR.state.renamer.inverse", inv, inv.node, construct="inverse renames with the swapped dim_mapping", why="the inverse does not swap keys and values of the recorded mapping")
    for mname in INVERSES:
        m = rn.methods[mname]
        chk.check(any(is_self_attr(c.func, "_inverse_transform") for c in calls_in(m)), "MIRROR.state.renamer.uses", m, m.node, construct=f"{mname} undoes the renaming",
                  why=f"DimensionRenamer.{mname} does not undo the renaming")
