"""C17 - unusable input is rejected (structural clauses: guards exist and precede the use they protect).

GUARD.type      every public data entry point validates the container type before anything else touches
                the data (validate_input_type at the entry, or the preprocessor chain whose first stage
                begins with an isinstance guard)
GUARD.dims      the first arithmetic of user data with fitted arrays (Scaler.transform) is dominated by a
                raising check of the data's dimensions against the fitted parameters
GUARD.role.*    the role guards exist, raise, and dominate the use they protect: n_modes sanity (both SVD
                wrappers), rank, init_rank_reduction range, negative alpha, unknown solver (C15 rule),
                item count (Preprocessor, Concatenator), transform dimensions / feature coordinates
                (Stacker), empty dims, MultiIndex, dim-type conversion, 'X or Y required'
"""

from __future__ import annotations

import ast

from ..pm import AnalysisError, ClassInfo, FuncInfo, const_str, dotted, is_self_attr, norm, walk_no_nested
from ..prov import FuncFacts
from ..resolve import Ctx, calls_in
from . import c15
from .c01 import _Relabel
from .common import call_kwargs, inline_locals, class_closure, holds


def _closure_of(pm, fn: FuncInfo) -> list[FuncInfo]:
    from .common import class_closure
    if pm is None:
        return [fn]
    if fn.cls is not None:
        return class_closure(pm, fn.cls, fn)
    out = [fn]
    ctx = Ctx(pm, fn)
    for c in calls_in(fn):
        for t in ctx.resolve_call(c):
            if t.fn is not None and t.fn.cls is None and t.fn.module is fn.module and t.fn.name.startswith("_") and t.fn not in out:
                out.append(t.fn)
    return out


def _sites_in(pm, entry: FuncInfo, g: FuncInfo, node: ast.AST, clo, depth=0) -> list[ast.AST]:
    """nodes of ``entry`` at which ``node`` (a node of g, entry itself or a helper in its closure) executes"""
    if g is entry:
        return [node]
    if depth > 3:
        return []
    out = []
    for h in clo:
        if h is g:
            continue
        ctx = Ctx(pm, h, entry.cls)
        for c in calls_in(h):
            if any(t.fn is g for t in ctx.resolve_call(c)):
                out += _sites_in(pm, entry, h, c, clo, depth + 1)
    return out


def _raises_under(fn: FuncInfo, pred, pm=None) -> list[ast.Raise]:
    """raise statements of fn - or, with ``pm``, of a private helper in its closure - whose own (innermost) condition
    satisfies pred(guard, ff of the function that contains it)"""
    out = []
    for g in _closure_of(pm, fn):
        out += _raises_under_one(g, pred)
    return out


def _raises_under_one(fn: FuncInfo, pred) -> list[ast.Raise]:
    ff = FuncFacts.of(fn)
    out = []
    for r in [n for n in walk_no_nested(fn.node) if isinstance(n, ast.Raise)]:
        gs = [g for g in ff.guards(r) if g.kind in ("if", "case", "early-exit")]
        own = gs[-1:]  # the innermost condition, whether it encloses the raise or is a guard clause before it
        for g in own:
            # the predicate sees the condition with named intermediate results substituted back (so that
            # `n = len(p); if n != n_data` and `if len(p) != n_data` are the same guard)
            from dataclasses import replace
            from .common import inline_locals, inline_locals
            try:
                gi = replace(g, test=inline_locals(ff, g.test))
            except Exception:
                gi = g
            for cand in (g, gi):
                try:
                    if pred(cand, ff):
                        out.append(r)
                        break
                except Exception:
                    pass
    return out


def _is_type_guard(fn: FuncInfo) -> bool:
    """a function that raises TypeError unless its first argument is a DataArray/Dataset (or a list of them)"""
    txt = norm(fn.node)
    if "isinstance" not in txt or "raise TypeError" not in txt:
        return False
    return "DataArray" in txt or "Dataset" in txt


_GP_CACHE: dict = {}


def guarded_params(pm, fn: FuncInfo, depth: int = 0) -> set[str]:
    """parameters of ``fn`` whose container type the function validates (raises TypeError unless DataArray / Dataset / list
    of them), directly or by handing them to a function that does - `None` may be let through (`if p is not None`)"""
    k = fn.qualname
    if k in _GP_CACHE:
        return _GP_CACHE[k]
    _GP_CACHE[k] = set()
    out: set[str] = set()
    params = [q for q in fn.params if q not in ("self", "cls")]
    if _is_type_guard(fn) and params:
        out.add(params[0])
    elif depth < 3:
        from .common import bind_args
        ctx = Ctx(pm, fn)
        for c in calls_in(fn):
            for t in ctx.resolve_call(c):
                if t.fn is None or t.fn is fn:
                    continue
                gp = guarded_params(pm, t.fn, depth + 1)
                if not gp:
                    continue
                b = bind_args(t.fn, c)
                for q in gp:
                    a = b.get(q)
                    if isinstance(a, ast.Name) and a.id in params:
                        out.add(a.id)
    _GP_CACHE[k] = out
    return out


def check(chk):
    pm = chk.pm
    _type_guards(chk)
    _dims_guard(chk)
    _roles(chk)
    _mode_labels(chk)
    _n_modes_at_construction(chk)
    c15._exhaustive(_Relabel(chk, "EXH.solver", "GUARD.role.solver"))
    chk.floor("GUARD.type", 30)
    chk.floor("GUARD.role", 25)


# ----------------------------------------------------------------------------
def _first_stage_guard(chk) -> bool:
    pm = chk.pm
    prep = pm.cls("xeofs.preprocessing.preprocessor.Preprocessor")
    chain = Ctx(pm, prep.methods["transform"], prep).transformer_chain(prep)
    first = pm.attrtype(prep, chain[0])
    chk.require(isinstance(first, tuple) and first[0] == "list", "Preprocessor: first stage is no longer a list transformer")
    k: ClassInfo = first[1]
    ok = True
    for mname in ("fit", "transform"):
        m = k.resolve(mname)
        chk.require(m is not None, f"{k.name}.{mname} vanished")
        ff = FuncFacts.of(m)
        data = [p for p in m.params if p != "self"][0]
        guards = [c for c in calls_in(m) if any(t.fn is not None and _is_type_guard(t.fn) for t in Ctx(pm, m, k).resolve_call(c))
                  and c.args and isinstance(c.args[0], ast.Name) and c.args[0].id == data]
        good = False
        if guards:
            gn = ff.cfg.node_for(guards[0])
            uses = [n for n in walk_no_nested(m.node) if isinstance(n, ast.Name) and n.id == data and isinstance(n.ctx, ast.Load)
                    and not any(n is a for a in guards[0].args)]
            good = all(ff.cfg.dominates(gn, ff.cfg.node_for(u)) for u in uses)
        chk.check(good, "GUARD.type.first_stage", m, guards[0] if guards else m.node,
                  construct=f"{k.name}.{mname}: isinstance guard on {data} dominates every use",
                  why=f"the first preprocessing stage no longer checks the container type before using the data")
        ok = ok and good
    return ok


def _type_guards(chk):
    pm = chk.pm
    stage_ok = _first_stage_guard(chk)
    DATA_PARAMS = {"X", "Y", "data", "weights", "weights_X", "weights_Y", "views"}
    for cls in pm.concrete_models():
        for ename in ("fit", "transform", "predict"):
            entry = cls.resolve(ename)
            if entry is None or entry.is_abstract or any(isinstance(s, ast.Raise) for s in entry.node.body):
                continue
            ff = FuncFacts.of(entry)
            ctx = Ctx(pm, entry, cls)
            for p in [q for q in entry.params if q in DATA_PARAMS]:
                uses = [n for n in walk_no_nested(entry.node) if isinstance(n, ast.Name) and n.id == p and isinstance(n.ctx, ast.Load)]
                # ignore identity tests against None
                par = ff.cfg.parents()
                real = [u for u in uses if not (isinstance(par.get(id(u)), ast.Compare) and all(isinstance(o, (ast.Is, ast.IsNot)) for o in par[id(u)].ops))]
                # structure-only helpers do not touch the data
                HARMLESS = {"len", "enumerate", "zip", "isinstance", "convert_to_list", "list", "tuple"}
                real = [u for u in real if not (isinstance(par.get(id(u)), ast.Call) and (dotted(par[id(u)].func) or "").split(".")[-1] in HARMLESS)]
                # plain aliasing (v = X) does not touch the data either; the alias is followed when it is validated
                real = [u for u in real if not (isinstance(par.get(id(u)), ast.Assign) and par[id(u)].value is u)]
                # pure delegation to the same entry point of another class in the MRO (checked there)
                deleg = [u for u in real if isinstance(par.get(id(u)), ast.Call) and isinstance(par[id(u)].func, ast.Attribute) and par[id(u)].func.attr == ename
                         and not is_self_attr(par[id(u)].func.value)]
                if real and len(deleg) == len(real):
                    continue
                if not real:
                    continue
                guards = []
                loop_of = {}
                for c in calls_in(entry):
                    hit = bool(c.args) and isinstance(c.args[0], ast.Name) and c.args[0].id == p
                    if not hit and c.args and isinstance(c.args[0], ast.Name):
                        # a local alias of the parameter (v = X; validate(v))
                        aps = ff.paths(c.args[0], spine_only=True)
                        hit = bool(aps) and all(q.atom.kind == "param" and q.atom.name == p and not q.ops for q in aps)
                    if not hit and c.args and isinstance(c.args[0], ast.Name):
                        # `for v in (X, Y): validate(v)` - the loop variable ranges over a display containing the parameter
                        cur = par.get(id(c))
                        while cur is not None:
                            if isinstance(cur, ast.For) and isinstance(cur.target, ast.Name) and cur.target.id == c.args[0].id \
                                    and isinstance(cur.iter, (ast.Tuple, ast.List)) and any(isinstance(e, ast.Name) and e.id == p for e in cur.iter.elts):
                                hit = True
                                loop_of[id(c)] = cur
                                break
                            cur = par.get(id(cur))
                    ts0 = ctx.resolve_call(c)
                    if not hit:
                        # the parameter is handed (in any position) to a helper that validates that argument
                        from .common import bind_args as _ba
                        for t in ts0:
                            if t.fn is not None:
                                b = _ba(t.fn, c)
                                if any(isinstance(b.get(q), ast.Name) and b[q].id == p for q in guarded_params(pm, t.fn)):
                                    guards.append((c, "entry"))
                    if hit:
                        ts = ts0
                        if any(t.fn is not None and (_is_type_guard(t.fn) or guarded_params(pm, t.fn)) for t in ts):
                            guards.append((c, "entry"))
                        elif any(t.fn is not None and t.fn.cls is not None and t.fn.cls.name == "Preprocessor" and t.fn.name in ("transform", "fit_transform", "fit") for t in ts) and stage_ok:
                            guards.append((c, "preprocessor"))
                ok = False
                how = ""
                for g, kind in guards:
                    gn = ff.cfg.node_for(g)
                    # validation inside `if p is not None:` - the if statement itself must dominate the uses
                    for gd in ff.guards(g):
                        if gd.kind == "if" and holds(inline_locals(ff, gd.test), gd.polarity, "IsNot", lambda e: isinstance(e, ast.Name) and e.id == p,
                                                     lambda e: isinstance(e, ast.Constant) and e.value is None):
                            for stt in ff.statements():
                                if isinstance(stt, ast.If) and stt.test is gd.test:
                                    gn = ff.cfg.node_of_stmt.get(id(stt), gn)
                    if id(g) in loop_of:
                        # the loop statement: it runs the validation for every listed argument before anything after it
                        gn = ff.cfg.node_of_stmt.get(id(loop_of[id(g)]), gn)
                    others = [u for u in real if not any(u is a for a in ast.walk(g))]
                    # uses under the same `is not None` guard as the validation are fine if dominated by it
                    if all(ff.cfg.dominates(gn, ff.cfg.node_for(u)) or ff.cfg.node_for(u) == gn for u in others):
                        ok, how = True, kind
                        break
                # list inputs iterated element-wise into the preprocessor (multi-set models)
                if not ok:
                    for c in calls_in(entry):
                        ts = ctx.resolve_call(c)
                        if any(t.fn is not None and t.fn.cls is not None and t.fn.cls.name == "Preprocessor" and t.fn.name in ("transform", "fit_transform") for t in ts) and stage_ok:
                            srcs = {q.atom.name for a in c.args[:1] for q in ff.paths(a, spine_only=True) if q.atom.kind == "param"}
                            # the call sits in a comprehension / loop over the parameter
                            cur = par.get(id(c))
                            while cur is not None and not isinstance(cur, (ast.ListComp, ast.GeneratorExp, ast.For)):
                                cur = par.get(id(cur))
                            if isinstance(cur, (ast.ListComp, ast.GeneratorExp)):
                                for gen in cur.generators:
                                    srcs |= {q.atom.name for q in ff.paths(gen.iter, spine_only=True) if q.atom.kind == "param"}
                            elif isinstance(cur, ast.For):
                                srcs |= {q.atom.name for q in ff.paths(cur.iter, spine_only=True) if q.atom.kind == "param"}
                            if p in srcs:
                                ok, how = True, "preprocessor (element-wise)"
                chk.check(ok, "GUARD.type", entry, guards[0][0] if guards else entry.node, context=cls.name,
                          construct=f"{cls.name}.{ename}({p}): container type validated first ({how})",
                          why=f"'{p}' is used before (or without) a container-type validation: a non-xarray argument is processed instead of refused")


def _dims_guard(chk):
    pm = chk.pm
    sc = pm.cls("xeofs.preprocessing.scaler.Scaler")
    tr = sc.methods["transform"]
    ff = FuncFacts.of(tr)
    data = [p for p in tr.params if p != "self"][0]
    ctx = Ctx(pm, tr, sc)
    # candidate validators: self-methods called with the data whose body raises depending on `.dims`
    good = None
    for c in calls_in(tr):
        if not (c.args and isinstance(c.args[0], ast.Name) and c.args[0].id == data):
            continue
        for t in ctx.resolve_call(c):
            if t.fn is None:
                continue
            from .common import class_closure
            clo = class_closure(pm, sc, t.fn)
            txt = " ".join(norm(g.node) for g in clo)
            rs = [r for r in walk_no_nested(t.fn.node) if isinstance(r, ast.Raise)]
            if rs and ".dims" in txt and any(a in txt for a in ("self.mean_", "self.std_", "self.weights_", "self.coslat_weights_", "self.feature_dims", "self.sample_dims")):
                good = c
    if good is None:
        chk.violation("GUARD.dims", tr, tr.node, construct="Scaler.transform: dimension check before scaling",
                      why="user data is combined with the fitted mean/std/weights before any dimension check: data lacking a dimension is "
                          "broadcast against the fitted arrays and transform answers with numbers that were never in the input")
        return
    # coverage: every fitted array that transform combines with the data is one whose dimensions the validator compares
    # (or the validator compares against the fitted feature dimensions, which contain them all)
    used: dict[str, ast.AST] = {}
    for b in [x for x in walk_no_nested(tr.node) if isinstance(x, (ast.BinOp, ast.AugAssign))]:
        l, r = (b.left, b.right) if isinstance(b, ast.BinOp) else (b.target, b.value)
        for a, o in ((l, r), (r, l)):
            if any(p.atom.kind == "param" and p.atom.name == data for p in ff.paths(a, spine_only=True)):
                for p in ff.paths(o, spine_only=True):
                    if p.atom.kind == "selfattr" and not p.has_op("subscript"):
                        used.setdefault(p.atom.name, b)
    covered: set[str] = set()
    for t in ctx.resolve_call(good):
        if t.fn is None:
            continue
        for g in class_closure(pm, sc, t.fn):
            gf = FuncFacts.of(g)
            for r in [x for x in walk_no_nested(g.node) if isinstance(x, ast.Raise)]:
                gds = list(gf.guards(r))
                # only the raise of the DIMENSION comparison counts here (its condition reads `.dims`); the label comparison
                # further down refuses other labels, not a dimension that is absent
                def _txt(t):
                    try:
                        from .common import inline_locals as _il
                        return norm(_il(gf, t))
                    except Exception:
                        return norm(t)
                if not any(".dims" in _txt(gd.test) for gd in gds):
                    continue
                for gd in gds:
                    if not gd.polarity or ".dims" not in _txt(gd.test):
                        continue  # `not missing` left behind by an earlier early exit, or a condition of another comparison
                    # `required - set(data.dims)`: what the check REQUIRES is the left operand; the data side says nothing
                    # about which fitted arrays are looked at
                    tests = [gd.test]
                    if isinstance(gd.test, ast.Name):
                        defs = [st.value for st in walk_no_nested(g.node) if isinstance(st, ast.Assign) and any(isinstance(tg, ast.Name) and tg.id == gd.test.id for tg in st.targets)]
                        tests = defs or tests
                    for t in tests:
                        if isinstance(t, ast.BinOp) and isinstance(t.op, ast.Sub):
                            t = t.left
                        for p in gf.paths(t, spine_only=False, follow=True):
                            if p.atom.kind == "selfattr":
                                covered.add(p.atom.name)
    whole = {"self.feature_dims", "self.dims"} & covered
    # ... provided that attribute is part of the state a rebuilt model (load, compute(), rotators) gets back: a check that
    # reads fit-time bookkeeping which is not serialised compares against nothing after a round trip
    from .c13 import _serial_keys
    sk = _serial_keys(sc)
    if sk is not None:
        whole = {w for w in whole if w.split(".", 1)[1] in sk}
    miss = sorted(a for a in used if a not in covered) if not whole else []
    chk.check(not miss, "GUARD.dims.cover", tr, used[miss[0]] if miss else good,
              construct="Scaler.transform: every fitted array combined with the data is covered by the dimension check",
              why=f"transform combines the data with {miss} but the dimension check does not look at {'them' if len(miss) > 1 else 'it'}: data lacking one of "
                  f"{'their' if len(miss) > 1 else 'its'} dimensions is broadcast and answered with numbers when no other fitted array carries that dimension",
              facts={"combined_with_data": sorted(used), "covered_by_check": sorted(covered)})
    chk.require(len(used) >= 3, "Scaler.transform: arithmetic with fitted arrays vanished")
    # GUARD.dims.coords - xarray arithmetic aligns by label with an INNER join: data whose labels along a fitted dimension
    # are a superset of (or differ from) the fitted ones are silently cut down to the fitted labels by the first product
    # with a fitted array, and every later coordinate check (stacker) sees exactly what it expects.  The validator that runs
    # before the arithmetic must therefore compare the data's index with the fitted arrays' index, order-sensitively.
    cmp_ok = None
    per_var = False
    for t in ctx.resolve_call(good):
        if t.fn is None:
            continue
        for g in class_closure(pm, sc, t.fn):
            gf = FuncFacts.of(g)
            txt_g = norm(g.node)
            if any(k in txt_g for k in ("data_vars", ".items()", ".values()", ".map(")) or ("isinstance" in txt_g and "Dataset" in txt_g):
                per_var = True
            for r in [x for x in walk_no_nested(g.node) if isinstance(x, ast.Raise)]:
                for gd in gf.guards(r):
                    for c in ast.walk(gd.test):
                        if isinstance(c, ast.Call) and isinstance(c.func, ast.Attribute) and c.func.attr in ("equals", "identical") and c.args:
                            a, b = norm(c.func.value), norm(c.args[0])
                            lab = lambda z: ".indexes[" in z or "to_index()" in z or ".get_index(" in z
                            if lab(a) and lab(b):
                                cmp_ok = c
    chk.check(cmp_ok is not None, "GUARD.dims.coords", tr, good, construct="Scaler.transform: the data's labels are compared with the fitted arrays' labels before the arithmetic",
              why="the validator that precedes the scaling arithmetic does not compare the data's coordinates with those of the fitted mean / std / weights: "
                  "data with a superset of the fitted labels (8 longitudes for a model fitted on 6) are inner-joined down to the fitted labels by the first "
                  "product and transform answers with scores although the input does not match the model")
    chk.check(per_var, "GUARD.dims.per_variable", tr, good, construct="Scaler.transform: Dataset input is validated variable by variable",
              why="the dimension check looks at the union of the Dataset's dimensions: a variable that lacks a feature dimension another variable has is "
                  "broadcast against the fitted arrays and projected at full size")
    gn = ff.cfg.node_for(good)
    ops = [b for b in walk_no_nested(tr.node) if isinstance(b, ast.BinOp) and any(is_self_attr(x) for x in (b.left, b.right))]
    chk.check(bool(ops) and all(ff.cfg.dominates(gn, ff.cfg.node_for(b)) for b in ops), "GUARD.dims", tr, good,
              why="the dimension check does not precede every arithmetic with fitted arrays")


# ----------------------------------------------------------------------------
# constructors whose n_modes is not a decomposition size (reason per row; frozen after reading each)
N_MODES_CTOR_EXEMPT = {
    "EOFRotator": "n_modes bounds a label slice over the modes of the model handed to fit() (.sel(mode=slice(1, n_modes))); the rotators have their own constructor and do not decompose anything",
    "GWPCA": "own constructor; needs numba (absent here); its parameter handling is recorded as a known finding of C13",
}


def _n_modes_at_construction(chk):
    """GUARD.role.n_modes.ctor - non-positive or non-numeric n_modes is refused by EVERY model, also by those that never hand
    n_modes to a decomposer (POP takes all eigen-pairs of the feedback matrix, SparsePCA passes it to its own kernel): the
    value given to a single-set model's constructor travels up the ``super().__init__(n_modes=n_modes, ...)`` chain to a
    constructor that calls sanity_check_n_modes on it."""
    pm = chk.pm
    base = pm.cls("xeofs.single.base_model_single_set.BaseModelSingleSet")
    n = 0
    for cls in pm.concrete_models():
        if base not in cls.mro:
            continue
        init = cls.resolve("__init__")
        if init is None or "n_modes" not in init.params:
            continue
        if cls.name in N_MODES_CTOR_EXEMPT or any(k.name in N_MODES_CTOR_EXEMPT for k in cls.mro):
            continue
        n += 1
        cur, name, ok, hops = init, "n_modes", False, 0
        while cur is not None and hops < 8:
            hops += 1
            if any((dotted(c.func) or "").split(".")[-1] == "sanity_check_n_modes" and c.args and isinstance(c.args[0], ast.Name) and c.args[0].id == name for c in calls_in(cur)):
                ok = True
                break
            nxt = None
            for c in calls_in(cur):
                f = c.func
                if isinstance(f, ast.Attribute) and f.attr == "__init__" and isinstance(f.value, ast.Call) and isinstance(f.value.func, ast.Name) and f.value.func.id == "super":
                    kw = {k.arg: k.value for k in c.keywords if k.arg}
                    v = kw.get("n_modes")
                    if isinstance(v, ast.Name) and v.id == name and cur.cls is not None:
                        m = cur.cls.mro if cur.cls in cls.mro else cls.mro
                        after = cls.mro[cls.mro.index(cur.cls) + 1:] if cur.cls in cls.mro else []
                        for k in after:
                            if "__init__" in k.methods:
                                nxt = k.methods["__init__"]
                                break
            cur = nxt
        if not ok:
            # ... or it is refused at fit: the fit algorithm hands the model's n_modes to a decomposer / inner model that validates it
            fa = cls.resolve("_fit_algorithm")
            if fa is not None:
                for g in class_closure(pm, cls, fa):
                    for c in calls_in(g):
                        callee = (dotted(c.func) or "").split(".")[-1]
                        if callee in ("Decomposer", "SVD", "_SVD", "EOF", "ComplexEOF"):
                            kw = {k.arg: k.value for k in c.keywords}
                            v = kw.get("n_modes")
                            star = [k.value for k in c.keywords if k.arg is None]
                            if (v is not None and "n_modes" in norm(v) and "pca" not in norm(v)) or any("_decomposer_kwargs" in norm(x) for x in star):
                                ok = True
        chk.check(ok, "GUARD.role.n_modes.ctor", init, init.node, construct=f"{cls.name}(n_modes=...) is validated at construction or at fit",
                  why=f"the n_modes given to {cls.name} neither reaches sanity_check_n_modes on the constructor chain nor a validating decomposer / inner model at fit: "
                      f"{cls.name}(n_modes=0), (n_modes=-1) or (n_modes='foo') is fitted and returns numbers")
    chk.require(n >= 6, f"GUARD.role.n_modes.ctor: only {n} single-set constructors with n_modes found")


def _mode_labels(chk):
    """GUARD.modes.select - score arrays naming modes the model does not have are refused.  In every
    _inverse_transform_algorithm the stored array that is contracted with a score parameter P is selected by P's OWN
    mode labels (``.sel(mode=P.mode)`` raises KeyError for a label the model does not have; labels taken from another
    argument let xr.dot inner-join the unknown label away) - or a guard reading P's modes raises."""
    pm = chk.pm
    seen = set()
    n = 0
    for cls in pm.concrete_models():
        fn = cls.resolve("_inverse_transform_algorithm")
        if fn is None or fn.qualname in seen:
            continue
        seen.add(fn.qualname)
        params = [q for q in fn.params if q not in ("self", "cls")]
        ff = FuncFacts.of(fn)
        contractions = [(c, [a for a in c.args if not isinstance(a, ast.Starred)]) for c in calls_in(fn) if (dotted(c.func) or "").split(".")[-1] in ("dot", "matmul", "einsum")]
        contractions += [(b, [b.left, b.right]) for b in walk_no_nested(fn.node) if isinstance(b, ast.BinOp) and isinstance(b.op, ast.MatMult)]
        for node, operands in contractions:
            info = []
            for a in operands:
                ps = ff.paths(a, spine_only=True, follow=True)
                info.append((a, {q.atom.name for q in ps if q.atom.kind == "param" and q.atom.name in params},
                             [q for q in ps if q.atom.kind == "selfattr" and q.atom.name == "self.data"]))
            given = set().union(*[i[1] for i in info]) if info else set()
            stored = [q for i in info for q in i[2]]
            if len(given) != 1 or not stored:
                continue
            P = next(iter(given))
            n += 1

            def own_labels(q):
                for o in q.ops:
                    if o.kind == "method" and o.name == "sel":
                        kw = call_kwargs(o.node)
                        lab = kw.get("mode")
                        if lab is None and o.node.args and isinstance(o.node.args[0], ast.Dict):
                            for k, v in zip(o.node.args[0].keys, o.node.args[0].values):
                                if const_str(k) == "mode":
                                    lab = v
                        if lab is None:
                            continue
                        lps = ff.eval_in(o.frame, lab, spine_only=True)
                        if lps and all(x.atom.kind == "param" and x.atom.name == P and (x.has_op("attr", "mode") or any(y.kind == "subscript" and "mode" in y.name for y in x.ops)) for x in lps):
                            return True
                return False

            guard = any(isinstance(g, ast.If) and any(isinstance(r, ast.Raise) for r in ast.walk(g)) and "mode" in norm(g.test)
                        and any(isinstance(x, ast.Name) and x.id == P for x in ast.walk(g.test)) for g in walk_no_nested(fn.node))
            ok = all(own_labels(q) for q in stored) or guard
            chk.check(ok, "GUARD.modes.select", fn, node, construct=f"{fn.qualname.split('.')[-2]}: stored array contracted with {P} is selected by {P}'s own mode labels",
                      why=f"the array contracted with the score argument {P} is not selected by {P}.mode: a score array naming a mode the model does not have is no longer "
                          f"refused (the contraction silently drops the unknown label)")
    chk.require(n >= 3, f"GUARD.modes.select: only {n} score contractions found in the _inverse_transform_algorithm implementations")
    # the same for the public entry points: a per-mode entry (norms) that meets the given scores arithmetically is selected
    # by the scores' own labels first - plain xarray arithmetic inner-joins an unknown mode away BEFORE the algorithm's own
    # selection can refuse it (rule shared with C03.MIRROR.modesel)
    from . import c03 as _c03
    from .c01 import _Relabel
    _c03._modesel(_Relabel(chk, "MIRROR.modesel", "GUARD.modes.select.entry"))


def _src(ff, e):
    params, attrs, funcs = set(), set(), set()
    for p in ff.paths(e, spine_only=False):
        if p.atom.kind == "param":
            params.add(p.atom.name)
        if p.atom.kind == "selfattr":
            attrs.add(p.atom.name)
        for o in p.ops:
            if o.kind in ("arg", "method", "marg", "attr"):
                funcs.add(o.name.split(".")[-1])
    return params, attrs, funcs


def _role(chk, name, fn: FuncInfo, pred, why, dominates=None):
    pm = chk.pm
    rs = _raises_under(fn, pred, pm)
    ok = bool(rs)
    node = rs[0] if rs else fn.node
    if ok and dominates is not None:
        ff = FuncFacts.of(fn)
        clo = _closure_of(pm, fn)
        owner = next((g for g in clo if any(x is rs[0] for x in ast.walk(g.node))), fn)
        if owner is fn:
            # the `if` that owns the raise (or the guard clause before it)
            ifs = [s for s in ff.statements() if isinstance(s, (ast.If, ast.Match)) and any(x is rs[0] for x in ast.walk(s))]
            anchors = [ifs[0]] if ifs else [rs[0]]
            # a guard clause: the exiting `if` that precedes the raise
            og = [g for g in ff.guards(rs[0]) if g.kind == "early-exit"]
            if not ifs and og:
                anchors = [s for s in ff.statements() if isinstance(s, ast.If) and s.test is og[-1].test] or anchors
        else:
            anchors = _sites_in(pm, fn, owner, rs[0], clo)
        gns = [ff.cfg.node_for(a) for a in anchors]
        uses = dominates(fn, ff)
        ok = bool(gns) and all(any(gn is not None and ff.cfg.dominates(gn, ff.cfg.node_for(u)) for gn in gns) for u in uses)
        if not ok:
            why = why + " (the check does not precede the use it protects)"
    chk.check(ok, f"GUARD.role.{name}", fn, node, construct=f"{fn.qualname}: {name}", why=why)


def _called_first(chk, name, fn: FuncInfo, callee_suffix: str, why: str, before=None):
    ff = FuncFacts.of(fn)
    cs = [c for c in calls_in(fn) if (dotted(c.func) or "").split(".")[-1] == callee_suffix]
    ok = bool(cs)
    if ok and before is not None:
        cn = ff.cfg.node_for(cs[0])
        ok = all(ff.cfg.dominates(cn, ff.cfg.node_for(u)) for u in before(fn, ff))
    chk.check(ok, f"GUARD.role.{name}", fn, cs[0] if cs else fn.node, construct=f"{fn.qualname}: calls {callee_suffix} first", why=why)


def _roles(chk):
    pm = chk.pm
    F = pm.func
    M = pm.own_method

    def cmp_pred(left_has=(), right_has=(), ops=(ast.Lt, ast.LtE, ast.Gt, ast.GtE, ast.NotEq, ast.Eq), any_text=()):
        def pred(g, ff):
            t = g.test
            txt = norm(t)
            if any_text and not all(a in txt for a in any_text):
                return False
            comps = [n for n in ast.walk(t) if isinstance(n, ast.Compare)]
            if not comps and not any_text:
                return False
            return True
        return pred

    # n_modes sanity
    snm = F("xeofs.utils.sanity_checks.sanity_check_n_modes")
    nraise = len([r for r in walk_no_nested(snm.node) if isinstance(r, ast.Raise)])
    from .common import chain_heads, switch_cases
    cases = set()
    default_raises = False
    for head in chain_heads(snm.node):
        sw = switch_cases(head, snm.node)
        if sw is not None and sw[0] == "n_modes" and any(str(k).startswith("type:") for ks, _ in sw[1] for k in ks):
            cases = {str(k) for ks, _ in sw[1] for k in ks}
            default_raises = sw[2] is not None and any(isinstance(x, ast.Raise) for x in sw[2])
    chk.check(nraise >= 4 and default_raises and {"type:int", "type:float", "type:str"} <= cases, "GUARD.role.n_modes.sanity", snm, snm.node,
              construct="sanity_check_n_modes: int<1, float outside (0,1], str != 'all', other types raise",
              why=f"n_modes validation lost a case ({nraise} raises, cases {sorted(cases)})")
    # the bounds themselves: an integer below 1, a float outside (0, 1], a string other than 'all'
    sff = FuncFacts.of(snm)
    from .common import atomic_conditions, cmp_forms
    b_int = b_float = b_str = False
    for r in [x for x in walk_no_nested(snm.node) if isinstance(x, ast.Raise)]:
        atoms = atomic_conditions(sff, r)
        types = {str(k) for t, pol in atoms if pol for k in ([("type:" + norm(t.args[1]).split(".")[-1])] if isinstance(t, ast.Call) and norm(t.func) == "isinstance" and len(t.args) == 2 else [])}
        forms = [f for t, pol in atoms for f in cmp_forms(t, pol)]
        is_n = lambda e: norm(e) == "n_modes"
        num = lambda e, v: isinstance(e, ast.Constant) and not isinstance(e.value, bool) and e.value == v
        if "type:int" in types and any((o == "Lt" and is_n(a) and num(b, 1)) or (o == "LtE" and is_n(a) and num(b, 0)) for o, a, b in forms):
            b_int = True
        if "type:float" in types:
            # not (0 < n <= 1.0): chained comparison or two atoms
            txt = " ".join(("" if pol else "not ") + norm(t) for t, pol in atoms)
            if "not 0 < n_modes <= 1.0" in txt or "not 0 < n_modes <= 1" in txt or ("n_modes <= 0" in txt and "n_modes > 1" in txt):
                b_float = True
        if "type:str" in types and any((o == "NotIn" and is_n(a)) or (o == "NotEq" and is_n(a) and const_str(b) == "all") for o, a, b in forms):
            b_str = True
    chk.check(b_int and b_float and b_str, "GUARD.role.n_modes.bounds", snm, snm.node, construct="n_modes: int < 1, float outside (0, 1], str other than 'all' are refused",
              why=f"a bound of the n_modes validation changed (integer < 1 refused: {b_int}; float outside (0, 1] refused: {b_float}; other strings refused: {b_str})")
    for q in ("xeofs.linalg.decomposer.Decomposer", "xeofs.linalg._numpy._svd._SVD"):
        init = M(q, "__init__")
        _called_first(chk, "n_modes.called", init, "sanity_check_n_modes", "the SVD wrapper no longer validates n_modes at construction")
        _role(chk, "init_rank_reduction", init, cmp_pred(any_text=("init_rank_reduction",)), "init_rank_reduction outside (0, 1] is no longer refused")
        # ... and exactly when the number of modes is chosen by explained variance (the only case that uses it)
        from .common import atomic_conditions
        iff = FuncFacts.of(init)
        rr = [r for r in walk_no_nested(init.node) if isinstance(r, ast.Raise) and any("init_rank_reduction" in norm(t) for t, _ in atomic_conditions(iff, r))]
        okv = bool(rr) and any(("is_based_on_variance" in norm(t) and pol) or ("isinstance(n_modes, int)" in norm(t) and not pol) or ("isinstance(n_modes, float)" in norm(t) and pol)
                               for t, pol in atomic_conditions(iff, rr[0]))
        chk.check(okv, "GUARD.role.init_rank_reduction.when", init, rr[0] if rr else init.node, construct=f"{init.qualname}: checked when n_modes is a variance fraction",
                  why="init_rank_reduction is validated under the wrong condition: with a fractional n_modes (the case that uses it) an invalid value is accepted")
    # rank
    dfit = M("xeofs.linalg.decomposer.Decomposer", "fit")
    _role(chk, "rank", dfit, cmp_pred(any_text=("n_modes_precompute", "rank")), "more modes than the rank of the data are no longer refused",
          dominates=lambda fn, ff: [c for c in calls_in(fn) if is_self_attr(c.func, "_svd")])
    gnm = M("xeofs.linalg._numpy._svd._SVD", "_get_n_modes_precompute")
    _role(chk, "rank", gnm, cmp_pred(any_text=("n_modes_precompute", "rank")), "more modes than the rank of the data are no longer refused (numpy SVD wrapper)")
    # alpha
    winit = M("xeofs.preprocessing.whitener.Whitener", "__init__")
    from .common import holds
    _role(chk, "alpha", winit, lambda g, ff: holds(g.test, True, "Lt", lambda e: "alpha" in norm(e), lambda e: isinstance(e, ast.Constant) and e.value == 0),
          "a negative alpha is no longer refused")
    # item counts
    def srcs(ff, e):
        """(parameter names with the attribute / function names applied to them, self attributes) read by an expression"""
        ps = ff.paths(e, spine_only=False, follow=True)
        params = {(p.atom.name, tuple(o.name.split(".")[-1] for o in p.ops if o.kind in ("attr", "arg", "method"))) for p in ps if p.atom.kind == "param"}
        attrs = {p.atom.name for p in ps if p.atom.kind == "selfattr"}
        return params, attrs

    def count_vs_fitted(g, ff):
        # the number of items given (len of a parameter) differs from the fitted number (self.n_data)
        from .common import cmp_forms
        for op, a, b in cmp_forms(inline_locals(ff, g.test), g.polarity):
            if op != "NotEq":
                continue
            pa, aa = srcs(ff, a)
            pb, ab = srcs(ff, b)
            if (any("len" in ops for _, ops in pa) and "self.n_data" in ab) or (any("len" in ops for _, ops in pb) and "self.n_data" in aa):
                return True
        return False

    ptr = M("xeofs.preprocessing.preprocessor.Preprocessor", "transform")
    _role(chk, "item_count", ptr, lambda g, ff: count_vs_fitted(g, ff) or cmp_pred(any_text=("len(", "n_data"))(g, ff), "a wrong number of data items is no longer refused at transform",
          dominates=lambda fn, ff: [c for c in calls_in(fn) if isinstance(c.func, ast.Attribute) and c.func.attr == "transform"])
    ctr = M("xeofs.preprocessing.concatenator.Concatenator", "transform")
    _role(chk, "item_count", ctr, cmp_pred(any_text=("len(", "n_data")), "a wrong number of 2-D arrays is no longer refused by the concatenator")
    mtr = pm.cls("xeofs.multi.cca.CCA").resolve("transform")
    chk.require(mtr is not None, "multi.CCA.transform vanished")
    _role(chk, "item_count", mtr, cmp_pred(any_text=("len(", "n_views")), "multi-set CCA transform answers for a list with another number of views than it was fitted on (each view is projected on its own weights, missing views are silently left out)")
    pfit = M("xeofs.preprocessing.preprocessor.Preprocessor", "_fit_algorithm")
    cpn = F("xeofs.utils.xarray_utils._check_parameter_number")
    _role(chk, "param_count", cpn, cmp_pred(any_text=("len(", "n_data")), "a weights/parameter list of the wrong length is no longer refused")
    # Stacker
    st = "xeofs.preprocessing.stacker.Stacker"
    def dims_vs_fitted(g, ff):
        # the dimensions of the data differ from the dimensions recorded at fit (dims_mapping)
        from .common import cmp_forms
        for op, a, b in cmp_forms(inline_locals(ff, g.test), g.polarity):
            if op != "NotEq":
                continue
            pa, aa = srcs(ff, a)
            pb, ab = srcs(ff, b)
            if (any("dims" in ops for _, ops in pa) and "self.dims_mapping" in ab) or (any("dims" in ops for _, ops in pb) and "self.dims_mapping" in aa):
                return True
        return False

    _role(chk, "transform_dims", M(st, "_validate_transform_dimensions"), dims_vs_fitted,
          "transform data with other dimensions than the fitted data is no longer refused")
    _role(chk, "feature_coords", M(st, "_validate_transform_feature_coords"), lambda g, ff: "coords_are_equal" in norm(g.test) or "equals" in norm(g.test),
          "transform data with other feature coordinates is no longer refused")
    from .common import ordered_label_comparison
    ordered_label_comparison(chk, "GUARD.role.feature_coords.ordered", M(st, "_validate_transform_feature_coords"), ("coords_in",),
                             "transform data whose feature coordinates hold the fitted labels in another order are no longer refused, and the matrix columns are matched by position")
    ordered_label_comparison(chk, "GUARD.role.feature_coords.ordered", pm.own_method("xeofs.preprocessing.sanitizer.Sanitizer", "_check_input_coords"), ("feature_coords",),
                             "2-D data whose feature coordinate holds the fitted labels in another order are no longer refused")
    ordered_label_comparison(chk, "GUARD.role.feature_coords.multiindex", pm.own_method("xeofs.preprocessing.multi_index_converter.MultiIndexConverter", "transform"), ("coords_from_fit",),
                             "a MultiIndex along a feature dimension is replaced by positions without being compared with the index seen at fit: data holding the fitted labels in another "
                             "order pass every later check (positions equal positions) and are projected column by column on the wrong features")
    from .common import holds as _holds
    _role(chk, "transform_type", M(st, "_validate_transform_data_type"),
          lambda g, ff: _holds(g.test, g.polarity, "NotEq", lambda e: "type" in norm(e).lower(), lambda e: "data_type" in norm(e)) or _holds(g.test, g.polarity, "NotEq", lambda e: "data_type" in norm(e), lambda e: "type" in norm(e).lower()),
          "transform data of another container type than the fitted data is no longer refused")
    strf = M(st, "transform")
    _called_first(chk, "transform_dims.called", strf, "_validate_transform_dimensions", "Stacker.transform no longer validates the dimensions",
                  before=lambda fn, ff: [c for c in calls_in(fn) if is_self_attr(c.func, "_stack")])
    _called_first(chk, "feature_coords.called", strf, "_validate_transform_feature_coords", "Stacker.transform no longer validates the feature coordinates",
                  before=lambda fn, ff: [c for c in calls_in(fn) if is_self_attr(c.func, "_stack")])
    vd = M(st, "_validate_dims")
    nr = len([r for r in walk_no_nested(vd.node) if isinstance(r, ast.Raise)])
    chk.check(nr >= 3, "GUARD.role.empty_dims", vd, vd.node, construct="Stacker._validate_dims raises for empty sample / feature dimensions",
              why="empty sample or feature dimensions are no longer refused")
    _role(chk, "multiindex", M(st, "_validate_indices"), lambda g, ff: "MultiIndex" in norm(g.test), "data still carrying a MultiIndex at stacking time is no longer refused")
    _role(chk, "dim_names", M(st, "_validate_dimension_names"), lambda g, ff: "has_invalid" in norm(g.test), "a clash between the internal sample/feature name and a data dimension is no longer refused")
    sfit = M(st, "fit")
    _called_first(chk, "stacker_fit_checks", sfit, "_sanity_check", "Stacker.fit no longer runs its sanity checks")
    sc = M(st, "_sanity_check")
    called = {(dotted(c.func) or "").split(".")[-1] for c in calls_in(sc)}
    chk.check({"_validate_dims", "_validate_dimension_names", "_validate_indices"} <= called, "GUARD.role.stacker_fit_checks", sc, sc.node,
              construct="Stacker._sanity_check runs all three validators", why=f"Stacker._sanity_check only runs {sorted(called)}")
    # sanitizer / PCA / whitener input dims
    _role(chk, "2d_dims", M("xeofs.preprocessing.sanitizer.Sanitizer", "_check_input_dims"), lambda g, ff: ".dims" in norm(g.test),
          "a 2-D matrix with other dimensions than (sample, feature) is no longer refused")
    # dim type conversion
    cdt = F("xeofs.utils.sanity_checks.convert_to_dim_type")
    nr = len([r for r in walk_no_nested(cdt.node) if isinstance(r, ast.Raise)])
    chk.check(nr >= 2, "GUARD.role.dim_type", cdt, cdt.node, construct="convert_to_dim_type raises for non-string dimension specifications",
              why="an invalid `dim` argument is no longer refused")
    for q in ("xeofs.single.base_model_single_set.BaseModelSingleSet", "xeofs.cross.base_model_cross_set.BaseModelCrossSet"):
        fit = M(q, "fit")
        _called_first(chk, "dim_type.called", fit, "convert_to_dim_type", "fit no longer validates the `dim` argument",
                      before=lambda fn, ff: [c for c in calls_in(fn) if isinstance(c.func, ast.Attribute) and c.func.attr == "fit_transform"])
    # X or Y required
    base = "xeofs.cross.base_model_cross_set.BaseModelCrossSet"
    for mname in ("transform", "inverse_transform"):
        fn = M(base, mname)
        _role(chk, "x_or_y", fn, lambda g, ff: ("None" in norm(g.test) or "is_given" in norm(g.test)), f"{mname}() without X and Y is no longer refused")
    rot = M("xeofs.cross.cpcca_rotator.CPCCARotator", "transform")
    _role(chk, "x_or_y", rot, lambda g, ff: "None" in norm(g.test) or "len(results)" in norm(g.test), "rotator transform() without X and Y is no longer refused")
    # cross-set sample count
    cov = M("xeofs.cross.cpcca.CPCCA", "_compute_cross_covariance_numpy")
    _role(chk, "sample_count", cov, cmp_pred(any_text=("n_samples_x", "n_samples_y")), "cross-set fields with different sample counts are no longer refused",
          dominates=lambda fn, ff: [r for r in walk_no_nested(fn.node) if isinstance(r, ast.Return)])
    # list transformer / concatenator type checks at fit
    cf = M("xeofs.preprocessing.concatenator.Concatenator", "fit")
    nr = len([r for r in walk_no_nested(cf.node) if isinstance(r, ast.Raise)])
    chk.check(nr >= 3, "GUARD.role.concat_fit", cf, cf.node, construct="Concatenator.fit validates type, rank and dimension names of its inputs",
              why="the concatenator no longer validates its 2-D inputs")
    # multi-set CCA view validation
    vfn = M("xeofs.multi.cca.CCABaseModel", "_validate_data")
    nr = len([r for r in walk_no_nested(vfn.node) if isinstance(r, ast.Raise)])
    chk.check(nr >= 4, "GUARD.role.views", vfn, vfn.node, construct="multi-set CCA validates sample counts, rank, dtype and feature counts of its views",
              why="multi-set CCA no longer validates its views")
    mfit = M("xeofs.multi.cca.CCABaseModel", "fit")
    _called_first(chk, "views.called", mfit, "_validate_data", "multi-set CCA fit no longer validates its views",
                  before=lambda fn, ff: [c for c in calls_in(fn) if is_self_attr(c.func, "_fit_algorithm")])
