"""C09 - cross-set models diagonalise the (partially whitened) cross-covariance (structural clauses).

NORM.pair     a correlation normalises with a standard deviation of the same convention as its
              covariance denominator (ddof=1 <-> N-1, ddof=0 <-> N); CPCCA kernels use N-1 throughout
CONJ.herm     every transposed factor of a matrix product in the complex-capable kernels is a
              conjugate transpose (X^H Y, not X^T Y)
CONJ.model    reconstruction operands are conjugated, projection operands are not; the score norms
              are <s, s> with exactly one conjugated factor
GUARD.samples the sample-count comparison raises before the cross product
INDEX         field-index consistency of stage calls, dot products, norm factors and correlation calls
"""

from __future__ import annotations

import ast

from ..pm import AnalysisError, FuncInfo, const_str, dotted, is_self_attr, norm, walk_no_nested
from ..prov import FuncFacts
from ..resolve import Ctx
from .common import call_kwargs, conj_parity, denominator_kind, dot_operands, is_dot_call, reads_container, returns_of
from .fields import check_field_indices

# modules whose kernels implement C09's mechanisms (cross-covariance, whitener Gram matrix, correlation);
# the fractional power and the rotation kernels are judged under C16 / C11, where a transpose without
# conjugation changes what those properties state (it can leave C09's observables unchanged)
HERMITIAN_MODULES = ["xeofs.cross.cpcca", "xeofs.preprocessing.whitener", "xeofs.utils.optional.statistics"]


def check(chk):
    _norm_pairs(chk)
    _hermitian(chk)
    _model_conj(chk)
    _guard(chk)
    _stage_order(chk)
    # the cross-covariance that is decomposed is that of the FRACTIONALLY WHITENED fields: the whitening matrix is
    # (X^H X / n) ** ((alpha - 1) / 2) with the conjugation convention of the cross-covariance, and the stored inverse is
    # the inverse of that matrix (kernel rules shared with C16)
    from . import c16 as _c16k
    from .c01 import _Relabel as _RLk
    _c16k._kernel(_RLk(chk, "ADJOINT", "WHITEN"), chk.pm.cls("xeofs.preprocessing.whitener.Whitener"))
    # queries leave the stored decomposition alone (shared with C14): an accessor that rescales the stored arrays in place
    # changes what every later scores() / components() / transform() returns
    from . import c14 as _c14q
    from .c01 import _Relabel as _RLq
    _c14q._query_mutates(_RLq(chk, "HIST.query_mutates", "NORM.query_mutates"))
    pm = chk.pm
    cp = pm.cls("xeofs.cross.cpcca.CPCCA")
    fns = [m for c in (cp, pm.cls("ComplexCPCCA"), pm.cls("HilbertCPCCA"), pm.cls("BaseModelCrossSet")) for m in c.methods.values() if m.name != "__init__"]
    n = check_field_indices(chk, "INDEX", fns)
    # what is done to one field is done to the other (fit and the metrics of the cross-set family)
    from .fields import field_symmetry
    nsym = field_symmetry(chk, "FIELD.symmetric", [m for m in fns if m.name not in ("transform", "_transform_algorithm", "inverse_transform", "_inverse_transform_algorithm")])
    chk.require(nsym >= 8, f"FIELD.symmetric: only {nsym} two-field functions compared")
    chk.floor("NORM.pair", 6)
    chk.floor("CONJ.herm", 8)
    chk.floor("CONJ.model", 6)
    chk.floor("INDEX", 60)


def _stage_order(chk):
    """the cross-covariance that is decomposed is that of the fractionally whitened AUGMENTED data: in the shared fit,
    per field, preprocessing -> PCA -> augmentation (Hilbert transform in the Hilbert models) -> whitening -> algorithm.
    A whitener fitted before the augmentation is computed from the covariance of the real data, not of the complex data
    it is then applied to."""
    pm = chk.pm
    fit = pm.own_method("xeofs.cross.base_model_cross_set.BaseModelCrossSet", "fit")
    ff = FuncFacts.of(fit)

    def calls(pred):
        return [c for c in ff.calls() if pred(c)]

    aug = calls(lambda c: is_self_attr(c.func, "_augment_data"))
    alg = calls(lambda c: is_self_attr(c.func, "_fit_algorithm"))
    chk.require(len(aug) == 1 and len(alg) == 1, "BaseModelCrossSet.fit: augmentation / algorithm call vanished")
    an, gn = ff.cfg.node_for(aug[0]), ff.cfg.node_for(alg[0])
    for i in ("1", "2"):
        stages = {}
        for nm in ("preprocessor", "pca", "whitener"):
            cs = calls(lambda c, nm=nm: isinstance(c.func, ast.Attribute) and c.func.attr == "fit_transform" and is_self_attr(c.func.value, nm + i))
            chk.require(len(cs) == 1, f"BaseModelCrossSet.fit: {nm}{i}.fit_transform vanished")
            stages[nm] = cs[0]
        order = [("preprocessor" + i, ff.cfg.node_for(stages["preprocessor"])), ("pca" + i, ff.cfg.node_for(stages["pca"])), ("_augment_data", an),
                 ("whitener" + i, ff.cfg.node_for(stages["whitener"])), ("_fit_algorithm", gn)]
        bad = [(a, b) for (a, na), (b, nb) in zip(order, order[1:]) if not (na != nb and ff.cfg.dominates(na, nb))]
        # and the whitener is fed with what the augmentation returned
        w = stages["whitener"]
        fed = False
        if w.args and isinstance(w.args[0], ast.Name):
            ds = ff.rd.reaching(w.args[0].id, ff.cfg.node_for(w))
            fed = bool(ds) and all(d.stmt is not None and any(x is aug[0] for x in ast.walk(d.stmt)) for d in ds)
        chk.check(not bad and fed, "STAGE.fit_order", fit, stages["whitener"], construct=f"field {i}: preprocess -> PCA -> augment -> whiten -> algorithm",
                  why=(f"stage order broken at {bad}" if bad else f"whitener{i} is not fitted on the output of the augmentation") +
                      ": the whitening matrix is then not the fractional power of the covariance of the data that is decomposed, "
                      "so the singular values are not those of the alpha-whitened cross-covariance (Hilbert models with alpha < 1)")


def _matmul_divisions(fn: FuncInfo):
    """(BinOp Div node, denominator) where the numerator contains a matrix product or a sum of products"""
    out = []
    for n in walk_no_nested(fn.node):
        if isinstance(n, ast.BinOp) and isinstance(n.op, ast.Div):
            num = n.left
            if any(isinstance(x, ast.BinOp) and isinstance(x.op, ast.MatMult) for x in ast.walk(num)) or (
                isinstance(num, ast.Call) and isinstance(num.func, ast.Attribute) and num.func.attr == "sum"
            ):
                out.append((n, n.right))
    return out


def _all_funcs(pm, modname):
    mod = pm.modules.get(modname)
    if mod is None:
        raise AnalysisError(f"module {modname} vanished")
    return [f for f in pm.all_functions() if f.module is mod]


def _std_ddof_in(fn: FuncInfo):
    """(ddof, call) of the std calls of a function; if they disagree the deviating one is returned"""
    found = []
    for c in walk_no_nested(fn.node):
        if isinstance(c, ast.Call) and isinstance(c.func, ast.Attribute) and c.func.attr == "std":
            d = call_kwargs(c).get("ddof")
            if d is None:
                found.append((0, c))
            elif isinstance(d, ast.Constant):
                found.append((d.value, c))
            else:
                found.append((None, c))
    if not found:
        return None, None
    found.sort(key=lambda t: getattr(t[1], "lineno", 0))
    vals = {v for v, _ in found}
    if len(vals) > 1:
        return "mixed:" + ",".join(str(v) for v, _ in found), found[-1][1]
    return found[0]


def _norm_pairs(chk):
    pm = chk.pm
    # CPCCA: covariance kernels
    kinds = {}
    for fn in _all_funcs(pm, "xeofs.cross.cpcca"):
        ff = FuncFacts.of(fn)
        for node, den in _matmul_divisions(fn):
            kind, src = denominator_kind(ff, den, ff.node_of(node))
            if kind == "other":
                continue  # e.g. division by a squared norm, by total variance ...
            kinds[(fn.qualname, norm(node))] = kind
            chk.check(kind == "N-1", "NORM.pair.cpcca", fn, node,
                      why=f"covariance-type quantity normalised by {kind} ({src}); the CPCCA kernels use N-1 throughout "
                          "(singular values, squared covariance fractions and variance fractions are compared against each other)",
                      facts={"kind": kind, "N": src})
    chk.require(len(kinds) >= 5, "cpcca.py: covariance normalisations not found (anchor vanished)")
    nd = pm.own_method("xeofs.cross.cpcca.CPCCA", "_normalize_data")
    ddof, call = _std_ddof_in(nd)
    chk.require(call is not None, "CPCCA._normalize_data: std call vanished")
    cov = pm.own_method("xeofs.cross.cpcca.CPCCA", "_compute_cross_covariance_numpy")
    cf = FuncFacts.of(cov)
    ck = [denominator_kind(cf, d, cf.node_of(n))[0] for n, d in _matmul_divisions(cov)]
    chk.require(len(ck) == 1, "CPCCA._compute_cross_covariance_numpy: covariance expression vanished")
    want = {"N-1": 1, "N": 0}.get(ck[0])
    chk.check(ddof == want, "NORM.pair.correlation", nd, call,
              why=f"correlation = covariance/(std*std): the covariance divides by {ck[0]} but the standard deviation uses ddof={ddof}; "
                  f"self-correlation becomes N/(N-1) instead of 1", facts={"covariance": ck[0], "std_ddof": ddof})
    # pearson_correlation (homogeneous / heterogeneous patterns)
    pc = pm.func("xeofs.utils.optional.statistics.pearson_correlation")
    inner = pc.nested.get("_correlation_coefficients_numpy")
    chk.require(inner is not None, "pearson_correlation kernel vanished")
    inf = FuncFacts.of(inner)
    ddof2, call2 = _std_ddof_in(inner)
    ks = [denominator_kind(inf, d, inf.node_of(n))[0] for n, d in _matmul_divisions(inner)]
    chk.require(len(ks) == 1 and call2 is not None, "pearson_correlation: kernel expression vanished")
    want2 = {"N-1": 1, "N": 0}.get(ks[0])
    chk.check(ddof2 == want2, "NORM.pair.pearson", inner, call2,
              why=f"pearson correlation divides the product by {ks[0]} but standardises with ddof={ddof2}: coefficients leave [-1, 1]",
              facts={"covariance": ks[0], "std_ddof": ddof2})


def _operand_chain(e: ast.expr):
    """(has .T, has conj) for a matmul operand expression like X[1:].conj().T"""
    hasT = hasC = False
    cur = e
    while True:
        if isinstance(cur, ast.Attribute):
            if cur.attr == "T":
                hasT = True
            if cur.attr == "H":
                hasT = hasC = True
            cur = cur.value
        elif isinstance(cur, ast.Call) and isinstance(cur.func, ast.Attribute):
            if cur.func.attr in ("conj", "conjugate"):
                hasC = True
            if cur.func.attr == "transpose":
                hasT = True
            cur = cur.func.value
        elif isinstance(cur, ast.Subscript):
            cur = cur.value
        else:
            break
    return hasT, hasC, cur


def _matmul_operands(e: ast.expr):
    if isinstance(e, ast.BinOp) and isinstance(e.op, ast.MatMult):
        return _matmul_operands(e.left) + _matmul_operands(e.right)
    return [e]


def _hermitian(chk):
    pm = chk.pm
    for modname in HERMITIAN_MODULES:
        for fn in _all_funcs(pm, modname):
            ff = None
            tops = []
            for n in walk_no_nested(fn.node):
                if isinstance(n, ast.BinOp) and isinstance(n.op, ast.MatMult):
                    tops.append(n)
            seen = set()
            for n in tops:
                for opnd in _matmul_operands(n):
                    if id(opnd) in seen:
                        continue
                    seen.add(id(opnd))
                    hasT, hasC, base = _operand_chain(opnd)
                    if not hasT:
                        # a name bound once to a transposed value (XH = X.conj().T)
                        if isinstance(opnd, ast.Name):
                            ff = ff or FuncFacts.of(fn)
                            defs = ff.rd.reaching(opnd.id, ff.node_of(n))
                            if len(defs) == 1 and defs[0].kind == "assign" and not defs[0].index:
                                t2, c2, _ = _operand_chain(defs[0].value)
                                if t2:
                                    chk.check(c2, "CONJ.herm", fn, defs[0].stmt, construct=f"{norm(defs[0].stmt)} used in {norm(n)[:60]}",
                                              why="a transposed matrix-product factor must be conjugate-transposed for complex data")
                        continue
                    chk.check(hasC, "CONJ.herm", fn, opnd, construct=f"{norm(opnd)} in {norm(n)[:80]}",
                              why="a transposed matrix-product factor must be conjugate-transposed (X^H Y) for complex data")


def _model_conj(chk):
    pm = chk.pm
    cp = "xeofs.cross.cpcca.CPCCA"
    from .common import class_closure, closure_paths
    cpc = pm.cls(cp)

    def products(mname, parity, rule, why, what):
        entry = pm.own_method(cp, mname)
        clo = class_closure(pm, cpc, entry)
        seen = set()
        for g in clo:
            for c in FuncFacts.of(g).calls():
                if not is_dot_call(c):
                    continue
                for opnd in dot_operands(c):
                    aps = FuncFacts.of(g).paths(opnd, spine_only=True) if g is entry else closure_paths(pm, cpc, entry, g, opnd, True, 0, clo)
                    ps = [p for p in aps if p.container_key() and p.container_key()[1].startswith("components")]
                    if ps:
                        seen |= {p.container_key()[1] for p in ps}
                        chk.check(all(conj_parity(p) == parity for p in ps), rule, g, c, why=why)
        chk.require(bool(seen), f"CPCCA.{mname}: no {what} product with the stored singular vectors found (anchor vanished)")

    products("_inverse_transform_algorithm", 1, "CONJ.model.reconstruct", "reconstruction must contract scores with the conjugated singular vectors", "reconstruction")
    products("_transform_algorithm", 0, "CONJ.model.project", "projection must use the singular vectors unconjugated", "projection")
    fit = pm.own_method(cp, "_fit_algorithm")
    n = 0
    for g in class_closure(pm, cpc, fit):
        for c in FuncFacts.of(g).calls():
            if is_dot_call(c):
                opn = dot_operands(c)
                if len(opn) == 2 and norm(opn[0]).replace(".conj()", "") == norm(opn[1]).replace(".conj()", ""):
                    par = [("conj" in norm(o)) for o in opn]
                    n += 1
                    chk.check(sum(par) == 1, "CONJ.model.norm", g, c, why="a squared norm <s, s> needs exactly one conjugated factor")
    chk.require(n >= 1, "CPCCA._fit_algorithm: score-norm products <s, s> not found (anchor vanished)")
    # metrics reconstruct with conj
    for mname in ("squared_covariance_fraction", "fraction_variance_X_explained_by_X", "fraction_variance_Y_explained_by_Y", "fraction_variance_Y_explained_by_X"):
        fn = pm.own_method(cp, mname)
        f = FuncFacts.of(fn)
        for c in f.calls():
            if is_dot_call(c):
                for opnd in dot_operands(c):
                    ps = [p for p in f.paths(opnd, spine_only=True) if p.container_key() and p.container_key()[1].startswith("components")]
                    if ps:
                        chk.check(all(conj_parity(p) == 1 for p in ps), "CONJ.model.metric", fn, c,
                                  why="per-mode reconstruction in a metric must use the conjugated singular vectors")


def _guard(chk):
    pm = chk.pm
    fn = pm.own_method("xeofs.cross.cpcca.CPCCA", "_compute_cross_covariance_numpy")
    ff = FuncFacts.of(fn)
    raises = [n for n in walk_no_nested(fn.node) if isinstance(n, ast.Raise)]
    good = None
    for r in raises:
        from .common import cmp_forms
        for g in ff.guards(r):
            # the raise fires when the two sample counts DIFFER, however the condition is spelt
            for op, a, b in cmp_forms(g.test, g.polarity)[:1]:
                if op != "NotEq":
                    continue
                srcs = []
                for side in (a, b):
                    ps = ff.paths(side, spine_only=True)
                    srcs.append({p.atom.name for p in ps if p.atom.kind == "param" and p.has_op("attr", "shape") and p.has_op("subscript", "0")})
                if srcs[0] and srcs[1] and srcs[0] != srcs[1]:
                    good = r
    chk.check(good is not None, "GUARD.samples.exists", fn, fn.node, construct="raise unless X.shape[0] == Y.shape[0]",
              why="fields with different sample counts are no longer refused before the cross product")
    if good is not None:
        rn = ff.cfg.node_for(ff.cfg.enclosing_stmt(good))
        for ret in returns_of(fn):
            if any(isinstance(x, ast.BinOp) and isinstance(x.op, ast.MatMult) for x in ast.walk(ret)):
                # the test node of the guarding `if` dominates the return
                ifnode = None
                for st in ff.statements():
                    if isinstance(st, ast.If) and any(x is good for x in ast.walk(st)):
                        ifnode = ff.cfg.node_of_stmt.get(id(st))
                chk.check(ifnode is not None and ff.cfg.dominates(ifnode, ff.cfg.node_for(ret)), "GUARD.samples.dominates", fn, ret,
                          why="the sample-count check does not precede the cross product on every path")
