"""Field-index consistency and stage-chain order for the two-field (cross-set) family.

Field index: values, stage objects, container entries and name lists carry a field index
(X / ...1 / [0]  ->  1;  Y / ...2 / [1]  ->  2).  A stage call, a dot product, a norm
factor or a correlation call must not mix indices (heterogeneous patterns mix by
definition, and only there).

Stage chain: data of one field passes preprocessor -> pca -> whitener going forward and
exactly the reverse going back; consecutive stage operations on a def-use path must be
adjacent in that order.
"""

from __future__ import annotations

import ast
import re

from ..pm import AnalysisError, FuncInfo, const_str, dotted, is_self_attr, norm, walk_no_nested
from ..prov import FuncFacts, Path
from .common import call_kwargs, dot_operands, is_dot_call

STAGES = {"preprocessor": 0, "pca": 1, "whitener": 2}
INDEX_PARAMS = {"X": 1, "Y": 2, "weights_X": 1, "weights_Y": 2}
FWD = {"transform", "fit_transform", "transform_components"}
INV = {
    "inverse_transform_data", "inverse_transform_components", "inverse_transform_scores",
    "inverse_transform_scores_unseen",
}
# functions that operate on the cross matrix (both feature dimensions in one array); reason per row
CROSS_MATRIX_FUNCS = {
    "_compute_total_squared_covariance": "un-whitens the cross-covariance matrix along both of its feature dimensions",
}

_stage_re = re.compile(r"^(?:self\.)?(preprocessor|pca|whitener)([12])?$")


def stage_of(name: str):
    """'self.whitener1.transform' -> ('whitener', 1, 'transform')"""
    parts = name.split(".")
    if len(parts) < 2:
        return None
    m = _stage_re.match(".".join(parts[:-1]))
    if not m:
        return None
    return m.group(1), int(m.group(2)) if m.group(2) else 0, parts[-1]


# functions whose result belongs to a fixed field whatever their arguments (reason per row)
RESULT_INDEX = {
    "_predict_algorithm": 2,  # predicts the scores of the second field from data of the first
}
# functions exempt from the stage-index rule (reason per row)
INDEX_EXEMPT = {
    "predict": "maps field 1 to field 2 and labels the result with the samples of field 1",
}
DICT_KEYS = {"X": 1, "Y": 2}


def path_indices(ff: FuncFacts, p: Path, depth: int = 0) -> set[int]:
    out: set[int] = set()
    a = p.atom
    if a.kind == "param" and a.name in INDEX_PARAMS:
        out.add(INDEX_PARAMS[a.name])
    if a.kind == "selfattr":
        m = re.match(r"^self\.(preprocessor|pca|whitener)([12])$", a.name)
        if m:
            out.add(int(m.group(2)))
    ck = p.container_key()
    if ck is not None:
        m = re.search(r"([12])$", ck[1])
        if m:
            out.add(int(m.group(1)))
    for i, o in enumerate(p.ops):
        if o.kind == "arg":
            st = stage_of(o.name)
            if st and st[1]:
                out.add(st[1])
                continue
            last = o.name.split(".")[-1]
            if last in RESULT_INDEX:
                out = {RESULT_INDEX[last]}
                continue
            # a call that receives several fields yields a mixed value: forget what came before
            if depth < 3 and isinstance(o.node, ast.Call):
                # memoised per (function facts, call node, depth): the same call is met on many paths
                memo = ff.__dict__.setdefault("_mixed_memo", {})
                mk = (id(o.node), depth)
                mixed = memo.get(mk)
                if mixed is None:
                    mixed = set()
                    for arg in list(o.node.args) + [k.value for k in o.node.keywords]:
                        for q in ff.paths(arg, spine_only=True):
                            mixed |= path_indices(ff, q, depth + 1)
                    memo[mk] = mixed
                if len(mixed) > 1:
                    out = set()
        if o.kind == "attr" and o.name in ("U_", "V_"):
            out.add(1 if o.name == "U_" else 2)
        if o.kind == "subscript":
            key = const_str(getattr(o.node, "slice", None))
            if key in DICT_KEYS and i > 0:
                out = {DICT_KEYS[key]}
            if o.name in ("0", "1"):
                prev = p.ops[i - 1] if i > 0 else None
                if "feature_name" in a.name or (prev is not None and "feature_name" in getattr(prev, "name", "")):
                    out.add(int(o.name) + 1)
    return out


def expr_indices(ff: FuncFacts, e: ast.expr) -> set[int]:
    out: set[int] = set()
    for p in ff.paths(e, spine_only=True):
        out |= path_indices(ff, p)
    return out


def check_field_indices(chk, rule: str, fns: list[FuncInfo]) -> int:
    n = 0
    for fn in fns:
        if fn.name in CROSS_MATRIX_FUNCS or fn.name in INDEX_EXEMPT:
            continue
        ff = FuncFacts.of(fn)
        hetero = "heterogeneous" in fn.name
        for c in ff.calls():
            f = c.func
            fname = dotted(f) or ""
            st = stage_of(fname)
            args = list(c.args) + [k.value for k in c.keywords if k.arg not in ("normalized",)]
            if st and st[1]:
                idx = set()
                for a in args:
                    idx |= expr_indices(ff, a)
                n += 1
                chk.check(idx <= {st[1]}, f"{rule}.stage", fn, c,
                          why=f"field {sorted(idx - {st[1]})} data is passed through {st[0]}{st[1]} (stage objects must match the field they were fitted on)",
                          facts={"indices": sorted(idx)})
            elif is_dot_call(c):
                idx = set()
                for a in dot_operands(c):
                    idx |= expr_indices(ff, a)
                d = call_kwargs(c).get("dims") or call_kwargs(c).get("dim")
                if d is not None:
                    idx |= expr_indices(ff, d)
                if idx:
                    n += 1
                    chk.check(len(idx) == 1, f"{rule}.dot", fn, c,
                              why=f"a dot product mixes fields {sorted(idx)}: data, components and dimension name must belong to one field",
                              facts={"indices": sorted(idx)})
            elif fname.endswith("pearson_correlation") and len(c.args) >= 2:
                di = expr_indices(ff, c.args[0])
                si = expr_indices(ff, c.args[1])
                fi = expr_indices(ff, call_kwargs(c).get("feature_name")) if call_kwargs(c).get("feature_name") is not None else set()
                n += 1
                ok = len(di) == 1 and len(si) == 1 and fi == di and ((si != di) if hetero else (si == di))
                chk.check(ok, f"{rule}.correlation", fn, c,
                          why=("heterogeneous" if hetero else "homogeneous") + f" patterns correlate field {sorted(di)} data with field {sorted(si)} scores "
                              f"along feature_name of field {sorted(fi)}",
                          facts={"data": sorted(di), "scores": sorted(si), "feature_name": sorted(fi)})
        # norm factors: <value of field i> {*,/} self.data["norm<j>"]
        for b in [x for x in walk_no_nested(fn.node) if isinstance(x, ast.BinOp) and isinstance(x.op, (ast.Mult, ast.Div))]:
            sides = []
            for side in (b.left, b.right):
                ps = ff.paths(side, spine_only=True)
                keys = {p.container_key()[1] for p in ps if p.container_key() is not None and not [o for o in p.ops[1:] if o.kind != "method" or o.name not in ("sel", "copy")]}
                sides.append((side, keys))
            for (s1, k1), (s2, k2) in (sides, sides[::-1]):
                nk = {k for k in k1 if re.match(r"^norm[12]$", k)}
                if nk:
                    idx = expr_indices(ff, s2) | {int(k[-1]) for k in nk}
                    n += 1
                    chk.check(len(idx) == 1, f"{rule}.norm", fn, b,
                              why=f"a value of field {sorted(expr_indices(ff, s2))} is scaled by {sorted(nk)}",
                              facts={"indices": sorted(idx)})
    return n


# ----------------------------------------------------------------------------
def _mixing_call(ff: FuncFacts, call: ast.AST) -> bool:
    if not isinstance(call, ast.Call):
        return False
    mixed: set[int] = set()
    for arg in list(call.args) + [k.value for k in call.keywords]:
        for q in ff.paths(arg, spine_only=True):
            mixed |= path_indices(ff, q, 1)
    return len(mixed) > 1


def stage_segments(ff: FuncFacts, p: Path):
    """stage operations along a path, split into segments at calls that merge fields or map one field
    to the other: [[(stage, index, method, direction, node), ...], ...]"""
    segs = [[]]
    for o in p.ops:
        if o.kind != "arg":
            continue
        st = stage_of(o.name)
        if st and (o.other == 0 or o.other in ("X", "data")):
            d = "fwd" if st[2] in FWD else ("inv" if st[2] in INV else None)
            if d:
                segs[-1].append((st[0], st[1], st[2], d, o.node))
            continue
        if st:
            continue
        last = o.name.split(".")[-1]
        if last in RESULT_INDEX or _mixing_call(ff, o.node):
            segs.append([])
    return segs


def check_stage_chain(chk, rule: str, fn: FuncInfo, exprs: list[tuple[ast.expr, ast.AST, str]], n_stages: int = 3) -> int:
    """exprs: (expression, node for reporting, role) where role in {'data','result'}"""
    if fn.name in CROSS_MATRIX_FUNCS:
        return 0
    ff = FuncFacts.of(fn)
    n = 0
    seen: set[str] = set()
    for e, node, role in exprs:
        for p in ff.paths(e, spine_only=True):
            segs = stage_segments(ff, p)
            if not any(segs):
                continue
            text = f"{role}: " + " | ".join(" -> ".join(f"{s}{i or ''}.{m}" for s, i, m, d, _ in seq) for seq in segs if seq)
            if text in seen:
                continue
            seen.add(text)
            n += 1
            bad = ""
            for si, seq in enumerate(segs):
                for (s1, i1, m1, d1, _), (s2, i2, m2, d2, _) in zip(seq, seq[1:]):
                    r1, r2 = STAGES[s1], STAGES[s2]
                    if i1 and i2 and i1 != i2 and fn.name in INDEX_EXEMPT and s2 == "preprocessor" and m2.startswith("inverse_transform_scores"):
                        continue  # e.g. predict: the predicted field-2 scores are labelled with the samples of field 1
                    if i1 and i2 and i1 != i2:
                        bad = f"{s1}{i1}.{m1} followed by {s2}{i2}.{m2}: stage objects of different fields on one value"
                    elif d1 == "fwd" and d2 == "fwd" and r2 != r1 + 1:
                        bad = f"forward chain applies {s1} then {s2} (order is preprocessor -> pca -> whitener)"
                    elif d1 == "inv" and d2 == "inv" and r2 != r1 - 1 and not (m2.startswith("inverse_transform_scores") and r2 < r1):
                        bad = f"inverse chain applies {s1} then {s2} (order is whitener -> pca -> preprocessor)"
                    elif d1 != d2 and r1 != r2 and not m2.startswith("inverse_transform_scores"):
                        # scores live in mode space: only the preprocessor relabels them, pca/whitener score maps
                        # are identities (checked separately), so a scores inverse may start at any stage
                        bad = f"{s1}.{m1} followed by {s2}.{m2}: a change of direction must stay at the same stage"
                    if bad:
                        break
                if bad:
                    break
            first = next((seq for seq in segs if seq), None)
            if not bad and not fn.name.startswith("_") and segs[0] and p.atom.kind == "param" and p.atom.name in ("X", "Y", "data") and segs[0][0][3] == "fwd" and STAGES[segs[0][0][0]] != 0:
                bad = f"raw input enters the chain at {segs[0][0][0]} instead of the preprocessor"
            if not bad and role == "result" and segs[-1]:
                last = segs[-1][-1]
                if not (last[3] == "inv" and STAGES[last[0]] == 0):
                    bad = f"the returned value leaves the chain at {last[0]}.{last[2]} instead of through the preprocessor's inverse"
            chk.check(not bad, rule, fn, node, why=bad, construct=text)
    return n


# ---------------------------------------------------------------------------------------------------------------------
# field symmetry: what is done to one field is done to the other (sibling cross-check inside one function)
_DT = re.compile(r"(float|int|uint|complex)(8|16|32|64|128)$")


def _field_token(tok: str) -> tuple[str, int]:
    """(token with its field index replaced by a placeholder, field index 1 / 2 or 0)"""
    if tok in ("X", "Y"):
        return "F", 1 if tok == "X" else 2
    if _DT.search(tok) or tok.startswith(("np", "dummy")):
        return tok, 0
    m = re.match(r"^([A-Za-z_]*[A-Za-z_])([12])([a-z]?(?:_[A-Za-z_0-9]*)?)$", tok)
    if m:
        return m.group(1) + "#" + m.group(3), int(m.group(2))
    m = re.match(r"^([A-Z])([xy])((?:_[A-Za-z_0-9]*)?)$", tok)
    if m:
        return m.group(1) + "#" + m.group(3), 1 if m.group(2) == "x" else 2
    m = re.match(r"^([XY])((?:rec|r|_[A-Za-z_0-9]+|[a-z]{1,4}))$", tok)
    if m:
        return "F" + m.group(2), 1 if m.group(1) == "X" else 2
    m = re.match(r"^(.*)_([xyXY])((?:_[A-Za-z_0-9]*)?)$", tok)
    if m:
        return m.group(1) + "_#" + m.group(3), 1 if m.group(2) in "xX" else 2
    return tok, 0


# asymmetries that are there by design (function -> reason); frozen after reading each
FIELD_ASYMMETRIC = {
    "predict": "maps data of field 1 to scores of field 2",
    "_predict_algorithm": "maps data of field 1 to scores of field 2",
    "_fit_algorithm@CPCCA": "left singular vectors U belong to field 1, right singular vectors V to field 2",
    "_compute_residual_variance_numpy": "local kernel of a one-directional metric: dX^H dY",
    "_compute_total_variance_numpy": "local kernel of a one-directional metric",
    "fraction_variance_Y_explained_by_X": "one-directional metric by definition",
    "_compute_total_squared_covariance": "un-whitens the two axes of ONE cross matrix: the first axis needs the conjugate transpose",
    "_compute_cross_covariance_numpy": "X^H Y is not symmetric in its arguments",
}


def _op_signature(node: ast.AST) -> str | None:
    """name-independent signature of a value-changing operation"""
    if isinstance(node, ast.BinOp):
        return "binop:" + type(node.op).__name__
    if isinstance(node, ast.AugAssign):
        return "binop:" + type(node.op).__name__
    if isinstance(node, ast.Call):
        f = node.func
        kws = ",".join(sorted(_field_token(k.arg)[0] for k in node.keywords if k.arg))
        if isinstance(f, ast.Attribute):
            st = stage_of(dotted(f) or "")
            if st:
                return f"{st[0]}#.{st[2]}({kws})"
            if isinstance(f.value, ast.Name) and f.value.id in ("np", "xr", "da", "dask", "numpy", "xarray", "sp", "scipy"):
                return f"{f.value.id}.{f.attr}({kws})"
            return f".{f.attr}({kws})"
        if isinstance(f, ast.Name):
            if f.id in ("slice", "len", "isinstance", "print", "range", "tuple", "list", "dict", "str", "int", "float", "bool"):
                return None
            return f"{f.id}({kws})"
    return None


def field_symmetry(chk, rule: str, fns: list[FuncInfo]) -> int:
    """<rule>: inside one function of the two-field family, the operations applied to values of one field (stage maps,
    method calls, arithmetic - identified by what they do, not by the names of locals; a value's field is read from its
    provenance: parameters X / Y, stage objects ...1 / ...2, container entries ...1 / ...2, feature_name[0] / [1]) are
    the operations applied to values of the other field.  A stage inverse, a normalisation or a rename applied to one
    field only leaves the two fields in different spaces."""
    import collections
    n = 0
    for fn in fns:
        key = fn.name + ("@" + fn.cls.name if fn.cls is not None else "")
        if fn.name in FIELD_ASYMMETRIC or key in FIELD_ASYMMETRIC:
            continue
        ff = FuncFacts.of(fn)
        ops: dict[int, collections.Counter] = {1: collections.Counter(), 2: collections.Counter()}
        where: dict[tuple[int, str], ast.AST] = {}
        for node in walk_no_nested(fn.node):
            sig = _op_signature(node)
            if sig is None:
                continue
            if isinstance(node, ast.AugAssign):
                idx = expr_indices(ff, node.value) | expr_indices(ff, node.target) if isinstance(node.target, ast.Name) else expr_indices(ff, node.value)
            else:
                idx = expr_indices(ff, node)
                if isinstance(node, ast.Call) and isinstance(node.func, ast.Attribute):
                    idx = idx | expr_indices(ff, node.func.value)
                    st = stage_of(dotted(node.func) or "")
                    if st and st[1]:
                        idx = idx | {st[1]}
            if idx in ({1}, {2}):
                f = next(iter(idx))
                ops[f][sig] += 1
                where[(f, sig)] = node
        if not ops[1] or not ops[2]:
            continue
        n += 1
        for a, b in ((1, 2), (2, 1)):
            for sig, cnt in ops[a].items():
                if cnt > ops[b].get(sig, 0):
                    node = where[(a, sig)]
                    chk.check(False, rule, fn, node, construct=f"{fn.qualname.split('.')[-1]}: operation {sig} on field {a} has a twin on field {b}",
                              why=f"{fn.qualname} applies {sig} to values of field {a} {cnt} time(s) but only {ops[b].get(sig, 0)} time(s) to values of field {b} "
                                  f"(e.g. `{norm(node)[:80]}`): the two fields are no longer treated alike (a stage map / normalisation / rename applied to one field only)")
        chk.ok(rule, fn, None, construct=f"{fn.qualname.split('.')[-1]}: {sum(ops[1].values())} operations per field compared")
    return n
