"""C12 - dask-backed and deferred fits stay lazy (structural clauses).

LAZY.sink     interprocedural may-taint analysis from the data arguments of ``fit`` (and the arrays a
              rotator reads out of the base model) over the resolved call graph of every model whose
              constructor takes ``compute``: a certainly-materialising operation on lazily tainted
              data must be control-dependent on a compute / check_nans flag (or lie after an
              ``if use_dask: raise``) somewhere on the call path
LAZY.input    the input data entries are stored with allow_compute=False; DataContainer.compute and
              BaseModel.compute filter on that flag
"""

from __future__ import annotations

import ast

from ..pm import AnalysisError, ClassInfo, FuncInfo, const_str, dotted, is_self_attr, norm, walk_no_nested, flatten_targets
from ..prov import FuncFacts, Path
from ..resolve import Ctx, Target, calls_in
from .common import bind_args, call_kwargs, container_writes

# metadata accessors: never trigger computation (xarray/dask semantics)
META_ATTRS = {"shape", "dims", "sizes", "size", "ndim", "dtype", "name", "attrs", "coords", "indexes", "chunks", "nbytes", "encoding", "chunksizes"}
CLEANSER_FUNCS = {"isinstance", "len", "type", "hasattr", "iscomplexobj", "data_is_dask", "range", "id", "callable", "getattr", "enumerate_meta"}
# certainly materialising (frozen table, one reason each)
SINK_ATTRS = {"values": ".values converts to numpy: computes a dask graph"}
SINK_METHODS = {
    "item": ".item() needs the value", "compute": "explicit compute", "load": "explicit load", "tolist": "needs values",
    "to_numpy": "converts to numpy", "equals": "compares values", "identical": "compares values",
    "dropna": "the result's shape depends on the values: xarray computes the mask", "to_pandas": "converts to pandas",
    "to_series": "converts to pandas", "to_dataframe": "converts to pandas",
}
SINK_FUNCS = {
    "float": "scalar conversion needs the value", "int": "scalar conversion needs the value", "bool": "truth value needs the value",
    "np.asarray": "converts to numpy", "np.array": "converts to numpy", "numpy.asarray": "converts to numpy", "numpy.array": "converts to numpy",
    "dask.compute": "explicit compute", "dask.base.compute": "explicit compute", "compute": "explicit compute", "dask_compute": "explicit compute",
    "np.linalg.eig": "numpy routine without a dask implementation: the array is materialised", "numpy.linalg.eig": "numpy routine without a dask implementation",
    "np.linalg.eigvals": "numpy routine without a dask implementation",
}
# classes scoped out of the lazy set, one reason each
SCOPED_OUT = {
    "xeofs.multi.cca.CCA": "refuses dask-backed input altogether (.item() on a dask-backed DataArray raises NotImplementedError in xarray); "
    "the property counts a refusal as refused, not as a result",
}


def _guard_protects(g) -> bool:
    t = norm(g.test)
    if g.kind == "case":
        pat = g.pattern
        if isinstance(pat, ast.MatchSingleton) and pat.value is True and ("compute" in t or "check_nans" in t):
            return g.polarity
        if isinstance(pat, ast.MatchValue) and isinstance(pat.value, ast.Constant) and pat.value.value is True and ("compute" in t or "check_nans" in t):
            return g.polarity
        return False
    if ("compute" in t or "check_nans" in t) and "is_based_on" not in t:
        neg = isinstance(g.test, ast.UnaryOp) and isinstance(g.test.op, ast.Not)
        return g.polarity != neg
    if "dask" in t.lower():
        neg = isinstance(g.test, ast.UnaryOp) and isinstance(g.test.op, ast.Not)
        return g.polarity == neg  # executes only when the data is NOT dask
    return False


class Lazy:
    def __init__(self, chk):
        self.chk = chk
        self.pm = chk.pm
        self.tainted_attrs: set[tuple[str, str]] = set()
        self.memo: dict[tuple, bool] = {}
        self.active: set[tuple] = set()
        self.findings: dict[tuple, tuple] = {}
        self.visited_fns: set[str] = set()
        self.n_sinks_examined = 0
        self.entry = ""

    # -- taint of an expression inside a function ---------------------------------
    def _attr_tainted(self, cls: ClassInfo | None, attr: str) -> bool:
        if cls is None:
            return False
        if attr in ("data", "model_data"):
            return True  # result containers hold (possibly lazy) arrays
        return any((c.qualname, attr) in self.tainted_attrs for c in cls.mro)

    def path_tainted(self, p: Path, ctx: Ctx, tparams: frozenset) -> bool:
        a = p.atom
        src = False
        if a.kind == "param" and a.name in tparams:
            src = True
        elif a.kind == "selfattr":
            src = self._attr_tainted(ctx.cls, a.name.split(".", 1)[1])
        elif a.kind == "call" and isinstance(a.node, ast.Call):
            src = self.call_returns_tainted(a.node, ctx, tparams)
            # attribute of a freshly constructed helper object that is fitted on lazy data (decomposer.s_ ...)
            if not src and p.ops and p.ops[0].kind == "attr":
                r = self.pm.resolve_expr_static(ctx.fn.module, a.node.func)
                if r and r[0] == "class":
                    src = self._attr_tainted(r[1], p.ops[0].name)
        elif a.kind == "const" and isinstance(a.node, (ast.List, ast.Dict)):
            # an accumulator: tainted if anything tainted is appended / stored into it
            src = self._accumulator_tainted(a.node, ctx, tparams)
        # a read of a result container (<obj>.data[key]) is a lazy source whatever the object is
        ops = list(p.ops)
        start = 0
        for i in range(len(ops) - 1):
            if ops[i].kind == "attr" and ops[i].name in ("data", "model_data") and ops[i + 1].kind == "subscript" \
                    and const_str(getattr(ops[i + 1].node, "slice", None)) is not None:
                src = True
                start = i + 2
        if not src:
            return False
        for o in ops[start:]:
            if o.kind == "arg" and isinstance(o.node, ast.Call):
                # the result of an xeofs function is decided by that function's summary (see the call atom), not by its arguments
                if any(t.fn is not None for t in ctx.resolve_call(o.node)):
                    return False
            if o.kind == "attr" and o.name in META_ATTRS:
                return False
            if o.kind == "arg" and o.name.split(".")[-1] in CLEANSER_FUNCS:
                return False
            if o.kind == "method" and o.name in ("keys", "items") and False:
                return False
        return True

    def _accumulator_tainted(self, lit: ast.AST, ctx: Ctx, tparams: frozenset) -> bool:
        fn = ctx.fn
        key = (fn.qualname, id(lit))
        if key in getattr(self, "_acc_active", set()):
            return False
        self._acc_active = getattr(self, "_acc_active", set()) | {key}
        try:
            ff = FuncFacts.of(fn)
            names = set()
            for st in walk_no_nested(fn.node):
                if isinstance(st, ast.Assign) and st.value is lit:
                    names |= {t.id for t in st.targets if isinstance(t, ast.Name)}
                elif isinstance(st, ast.AnnAssign) and st.value is lit and isinstance(st.target, ast.Name):
                    names.add(st.target.id)
            for n in walk_no_nested(fn.node):
                if isinstance(n, ast.Call) and isinstance(n.func, ast.Attribute) and n.func.attr in ("append", "extend", "insert", "update") \
                        and isinstance(n.func.value, ast.Name) and n.func.value.id in names:
                    if any(self.tainted(a, ff, ctx, tparams) for a in n.args):
                        return True
                if isinstance(n, ast.Assign):
                    for t in n.targets:
                        if isinstance(t, ast.Subscript) and isinstance(t.value, ast.Name) and t.value.id in names and self.tainted(n.value, ff, ctx, tparams):
                            return True
            return False
        finally:
            self._acc_active = self._acc_active - {key}

    def tainted(self, e: ast.expr, ff: FuncFacts, ctx: Ctx, tparams: frozenset) -> bool:
        try:
            ps = ff.paths(e, spine_only=True)
        except AnalysisError:
            return True
        return any(self.path_tainted(p, ctx, tparams) for p in ps)

    def call_returns_tainted(self, call: ast.Call, ctx: Ctx, tparams: frozenset) -> bool:
        ff = FuncFacts.of(ctx.fn)
        res = False
        for t in ctx.resolve_call(call):
            if t.fn is None:
                continue
            if t.fn.name == "__init__":
                continue
            targs = self._tainted_args(t, call, ff, ctx, tparams)
            res = res or self.analyze(ctx.sub(t, call), targs, True, (), summary_only=True)
        return res

    def _tainted_args(self, t: Target, call: ast.Call, ff, ctx, tparams) -> frozenset:
        b = bind_args(t.fn, call)
        out = set()
        for p, a in b.items():
            if self.tainted(a, ff, ctx, tparams):
                out.add(p)
        if any(k.arg is None for k in call.keywords) and t.fn.has_varkw is False:
            pass
        # **kwargs dict that carries tainted values (weights through iter_kwargs)
        for k in call.keywords:
            if k.arg is None and self.tainted(k.value, ff, ctx, tparams):
                for p in t.fn.params:
                    if p in ("weights",):
                        out.add(p)
        return frozenset(out)

    # -- the traversal ------------------------------------------------------------
    def analyze(self, ctx: Ctx, tparams: frozenset, protected: bool, path: tuple, summary_only: bool = False) -> bool:
        key = (ctx.key(), tparams, protected or summary_only)
        if key in self.memo:
            return self.memo[key]
        if key in self.active:
            return True
        self.active.add(key)
        fn = ctx.fn
        self.visited_fns.add(fn.qualname)
        ff = FuncFacts.of(fn)
        ret_tainted = False
        try:
            # 1. tainted attribute writes
            for n in walk_no_nested(fn.node):
                if isinstance(n, ast.Assign):
                    for t in n.targets:
                        for tt in flatten_targets(t):
                            if is_self_attr(tt) and fn.cls is not None and self.tainted(n.value, ff, ctx, tparams):
                                self.tainted_attrs.add((fn.cls.qualname, tt.attr))
                            elif isinstance(tt, ast.Subscript) and is_self_attr(tt.value) and fn.cls is not None and self.tainted(n.value, ff, ctx, tparams):
                                self.tainted_attrs.add((fn.cls.qualname, tt.value.attr))
                elif isinstance(n, ast.Return) and n.value is not None:
                    if self.tainted(n.value, ff, ctx, tparams):
                        ret_tainted = True
            # 2. sinks
            if not summary_only or not protected:
                pass
            if not (protected and summary_only):
                self._sinks(ctx, ff, tparams, protected, path)
            # 3. calls
            for call in calls_in(fn):
                guards = ff.guards(call)
                prot2 = protected or any(_guard_protects(g) for g in guards)
                for t in ctx.resolve_call(call):
                    if t.fn is None or t.fn.name == "__init__":
                        continue
                    targs = self._tainted_args(t, call, ff, ctx, tparams)
                    self.analyze(ctx.sub(t, call), targs, prot2 or summary_only and protected, path + ((fn, call),), summary_only and protected)
                # kernels handed to apply_ufunc
                fname = dotted(call.func) or ""
                if fname.endswith("apply_ufunc"):
                    kw = call_kwargs(call)
                    mode = const_str(kw.get("dask")) or "forbidden"
                    refs = ctx.func_refs(call)
                    if mode == "allowed":
                        arr_args = [a for a in call.args[1:]]
                        for t in refs:
                            if t.fn is None:
                                continue
                            params = [p for p in t.fn.positional_params if p not in ("self", "cls")]
                            targs = frozenset(p for p, a in zip(params, arr_args) if self.tainted(a, ff, ctx, tparams))
                            self.analyze(ctx.sub(t), targs, prot2, path + ((fn, call),), False)
                    # parallelized kernels receive numpy blocks: clean
        finally:
            self.active.discard(key)
        self.memo[key] = ret_tainted
        return ret_tainted

    def _report(self, ctx: Ctx, node: ast.AST, what: str, why: str, path: tuple, construct: str | None = None):
        fn = ctx.fn
        k = (fn.qualname, construct or norm(node))
        if k not in self.findings:
            chain = " -> ".join([f.qualname.split(".")[-2] + "." + f.name if f.cls else f.name for f, _ in path] + [fn.name])
            self.findings[k] = (fn, node, what, why, chain, construct)

    def _sinks(self, ctx: Ctx, ff: FuncFacts, tparams, protected, path):
        fn = ctx.fn

        def unprotected(node) -> bool:
            if protected:
                return False
            return not any(_guard_protects(g) for g in ff.guards(node))

        for n in walk_no_nested(fn.node):
            # .values
            if isinstance(n, ast.Attribute) and n.attr in SINK_ATTRS and isinstance(n.ctx, ast.Load):
                par = ff.cfg.parents().get(id(n))
                if isinstance(par, ast.Call) and par.func is n:
                    continue  # dict.values()
                self.n_sinks_examined += 1
                if self.tainted(n.value, ff, ctx, tparams) and unprotected(n):
                    self._report(ctx, n, f".{n.attr}", SINK_ATTRS[n.attr], path)
            elif isinstance(n, ast.Call):
                f = n.func
                fname = dotted(f) or ""
                if isinstance(f, ast.Attribute) and f.attr in SINK_METHODS and not ff.is_static_callee(f.value) and not ff.is_object_receiver(f.value):
                    self.n_sinks_examined += 1
                    if self.tainted(f.value, ff, ctx, tparams) and unprotected(n):
                        # keyed by the method and its arguments, not by how the receiver is written
                        args_txt = ", ".join([norm(a) for a in n.args] + [f"{k.arg}={norm(k.value)}" for k in n.keywords])
                        self._report(ctx, n, f".{f.attr}()", SINK_METHODS[f.attr], path, construct=f".{f.attr}({args_txt})")
                elif isinstance(f, ast.Attribute) and f.attr == "where" and not ff.is_static_callee(f.value):
                    d = call_kwargs(n).get("drop")
                    if isinstance(d, ast.Constant) and d.value is True:
                        self.n_sinks_examined += 1
                        if (self.tainted(f.value, ff, ctx, tparams) or any(self.tainted(a, ff, ctx, tparams) for a in n.args)) and unprotected(n):
                            self._report(ctx, n, ".where(drop=True)", "the result's shape depends on the values", path)
                elif fname in SINK_FUNCS or fname.split(".")[-1] in ("compute",) and fname in ("dask.compute", "compute", "dask_compute", "dask.base.compute"):
                    self.n_sinks_examined += 1
                    if any(self.tainted(a, ff, ctx, tparams) for a in list(n.args)) and unprotected(n):
                        self._report(ctx, n, f"{fname}()", SINK_FUNCS.get(fname, "explicit compute"), path)
            # truth-value contexts
            tests = []
            if isinstance(n, (ast.If, ast.While, ast.IfExp)):
                tests.append(n.test)
            elif isinstance(n, ast.Assert):
                tests.append(n.test)
            elif isinstance(n, ast.BoolOp):
                tests += n.values[:-1] if not isinstance(ff.cfg.parents().get(id(n)), (ast.If, ast.While, ast.IfExp)) else []
            elif isinstance(n, ast.UnaryOp) and isinstance(n.op, ast.Not):
                tests.append(n.operand)
            for t in tests:
                parts = t.values if isinstance(t, ast.BoolOp) else [t]
                for part in parts:
                    while isinstance(part, ast.UnaryOp) and isinstance(part.op, ast.Not):
                        part = part.operand  # `not x` needs the truth value of x, nothing more
                    if isinstance(part, ast.BoolOp):
                        continue  # its operands are visited on their own
                    if isinstance(part, ast.Compare) and all(isinstance(o, (ast.Is, ast.IsNot, ast.In, ast.NotIn)) for o in part.ops):
                        continue
                    if isinstance(part, ast.Constant) or isinstance(part, ast.Name) and part.id in ("True", "False"):
                        continue
                    self.n_sinks_examined += 1
                    if self.tainted(part, ff, ctx, tparams) and unprotected(part):
                        self._report(ctx, part, "truth value", "the truth value of an array needs its values", path)
            # item assignment of tainted values into numpy buffers
            if isinstance(n, ast.Assign):
                for t in n.targets:
                    if isinstance(t, ast.Subscript) and isinstance(t.value, ast.Name):
                        base = ff.paths(t.value, spine_only=True)
                        is_np_buffer = any(p.atom.kind == "call" and p.atom.name in ("np.empty", "np.zeros", "np.ones", "np.full", "np.empty_like", "np.zeros_like") for p in base)
                        if is_np_buffer:
                            self.n_sinks_examined += 1
                            if self.tainted(n.value, ff, ctx, tparams) and unprotected(n):
                                # reported at the target (the sink is the buffer, whatever expression is stored)
                                self._report(ctx, t, "buffer assignment", "assigning a lazy value into a numpy buffer materialises it", path)


def check(chk):
    pm = chk.pm
    # the compute switch (and every other flag) is read from the parameters, never from the metadata dict whose
    # booleans become strings after the first fit ('False' is truthy: a deferred refit computes)
    from .common import attrs_reads
    attrs_reads(chk, "LAZY.flag.attrs")
    lz = Lazy(chk)
    base = pm.cls("xeofs.base_model.BaseModel")
    classes = []
    for cls in pm.concrete_models():
        init = cls.resolve("__init__")
        takes_compute = init is not None and "compute" in init.params
        if not takes_compute:
            continue
        if cls.qualname in SCOPED_OUT:
            chk.ok("LAZY.scope", cls.qualname, None, construct=f"{cls.name} scoped out", why=SCOPED_OUT[cls.qualname], nontrivial=False)
            continue
        classes.append(cls)
    chk.require(len(classes) >= 25, "models with a compute parameter vanished")
    for round_ in range(2):  # second round uses the attribute taint learned in the first
        lz.memo.clear()
        for cls in classes:
            fit = cls.resolve("fit")
            if fit is None:
                continue
            params = frozenset(p for p in fit.params if p not in ("self", "dim"))
            lz.analyze(Ctx(pm, fit, cls), params, False, ())
    per_fn: dict[str, int] = {}
    for (fq, txt), (fn, node, what, why, chain, construct) in sorted(lz.findings.items()):
        chk.violation("LAZY.sink", fn, node, construct=construct,
                      why=f"{what} on lazily evaluated data during fit without a compute/check_nans guard on the call path ({why}); reached via {chain}: "
                          "with compute=False and check_nans=False the fit triggers a dask computation")
        per_fn[fq] = per_fn.get(fq, 0) + 1
    for q in sorted(lz.visited_fns):
        if q not in per_fn:
            fn = pm.functions.get(q)
            if fn is not None:
                chk.ok("LAZY.sink", fn, None, construct="<no unguarded materialising operation on lazy data>")
    chk.info["functions_on_fit_paths"] = len(lz.visited_fns)
    chk.info["sink_candidates_examined"] = lz.n_sinks_examined
    chk.info["tainted_attributes"] = sorted(f"{c.split('.')[-1]}.{a}" for c, a in lz.tainted_attrs)[:80]
    _inputs(chk)
    _inner_flags(chk, classes)
    _dask_symmetry(chk, lz.visited_fns)
    chk.floor("EQUIV.branch", 4)
    chk.floor("LAZY.inner", 15)
    chk.floor("LAZY.sink", 120)
    chk.floor("LAZY.input", 8)


DASK_TESTS = ("DaskArray", "data_is_dask", "is_dask_collection", "dask_array_type")
HARMLESS_ONE_SIDED = {"warn", "warnings.warn", "compute", "persist", "dask.compute", "dask.persist", "print", "_compute_svd_result", "wait_on"}


def _is_dask_test(ff: FuncFacts, test: ast.expr) -> bool:
    from .common import inline_locals
    try:
        t = norm(inline_locals(ff, test))
    except Exception:
        t = norm(test)
    return any(k in t for k in DASK_TESTS)


def _branches(node: ast.If) -> tuple[list[tuple[ast.expr | None, list[ast.stmt]]], bool]:
    """the branches of an if / elif / else chain: [(test, body)...] and whether a final else exists"""
    out = []
    cur = node
    while True:
        out.append((cur.test, cur.body))
        if len(cur.orelse) == 1 and isinstance(cur.orelse[0], ast.If):
            cur = cur.orelse[0]
            continue
        if cur.orelse:
            out.append((None, cur.orelse))
            return out, True
        return out, False


def _dask_symmetry(chk, fit_path_fns):
    """EQUIV.branch - the dask-backed fit equals the in-memory fit only if nothing that shapes the result happens for
    one kind of backing array alone.  In every function on a fit path (and in the two SVD wrappers), for every
    if / elif / else chain one of whose conditions tests whether the data is dask-backed: a variable (or attribute)
    that a branch assigns and that is used after the chain must be assigned by every branch that falls through (an
    absent else is an empty branch); a branch may always refuse (raise) and may compute / persist / warn."""
    from ..cfg import always_exits
    pm = chk.pm
    names = set(fit_path_fns) | {"xeofs.linalg.decomposer.Decomposer.fit", "xeofs.linalg._numpy._svd._SVD.fit_transform"}
    n_chains = 0
    for q in sorted(names):
        fn = pm.functions.get(q)
        if fn is None:
            continue
        ff = FuncFacts.of(fn)
        inner_ifs = set()
        for node in [n for n in walk_no_nested(fn.node) if isinstance(n, ast.If)]:
            if id(node) in inner_ifs:
                continue
            br, has_else = _branches(node)
            cur = node
            while len(cur.orelse) == 1 and isinstance(cur.orelse[0], ast.If):
                cur = cur.orelse[0]
                inner_ifs.add(id(cur))
            if not any(t is not None and _is_dask_test(ff, t) for t, _ in br):
                continue
            n_chains += 1
            if not has_else:
                br = br + [(None, [])]
            inside = {id(x) for x in ast.walk(node)}
            # definitions made in the chain that are used after it
            per_branch: list[set[str]] = []
            for t, body in br:
                defs: set[str] = set()
                for st in body:
                    for n in walk_no_nested(st) if not isinstance(st, (ast.FunctionDef, ast.ClassDef)) else []:
                        tg = []
                        if isinstance(n, ast.Assign):
                            tg = n.targets
                        elif isinstance(n, (ast.AugAssign, ast.AnnAssign)) and getattr(n, "value", None) is not None:
                            tg = [n.target]
                        for x in tg:
                            for e in flatten_targets(x):
                                if isinstance(e, ast.Name):
                                    defs.add(e.id)
                                elif is_self_attr(e):
                                    defs.add("self." + e.attr)
                                elif isinstance(e, ast.Subscript) and (isinstance(e.value, ast.Name) or is_self_attr(e.value)):
                                    defs.add(norm(e.value))
                per_branch.append(defs)
            live: set[str] = set()
            for n in walk_no_nested(fn.node):
                if id(n) in inside:
                    continue
                if isinstance(n, ast.Name) and isinstance(n.ctx, ast.Load):
                    # is one of the chain's definitions a reaching definition of this use?
                    for d in ff.rd.reaching(n.id, ff.node_of(n)):
                        if d.stmt is not None and id(d.stmt) in inside:
                            live.add(n.id)
                elif is_self_attr(n) and isinstance(n.ctx, ast.Load):
                    for d in ff.rd.reaching("self." + n.attr, ff.node_of(n)):
                        if d.stmt is not None and id(d.stmt) in inside:
                            live.add("self." + n.attr)
            # attributes assigned in the chain are live after the function too
            for defs in per_branch:
                live |= {d for d in defs if d.startswith("self.")}
            bad = None
            for (t, body), defs in zip(br, per_branch):
                if body and always_exits(body) and any(isinstance(x, ast.Raise) for x in ast.walk(ast.Module(body=body, type_ignores=[]))):
                    continue  # refusal
                if body and always_exits(body) and isinstance(body[-1], ast.Return):
                    continue  # every branch returns its own result: compared by the value rules, not here
                missing = sorted(v for v in live if v not in defs and any(v in d2 for d2 in per_branch))
                if missing:
                    bad = (t, missing)
                    break
                # one-sided effects without assignment
            # expression statements (calls) that only one kind of data sees
            if bad is None:
                for (t, body), defs in zip(br, per_branch):
                    for st in body:
                        if isinstance(st, ast.Expr) and isinstance(st.value, ast.Call):
                            nm = (dotted(st.value.func) or norm(st.value.func))
                            last = nm.split(".")[-1]
                            if last in HARMLESS_ONE_SIDED or nm in HARMLESS_ONE_SIDED or last in ("setdefault", "update", "append"):
                                continue
                            others = [b2 for (t2, b2) in br if b2 is not body]
                            if not any(any(isinstance(s2, ast.Expr) and isinstance(s2.value, ast.Call) and (dotted(s2.value.func) or "").split(".")[-1] == last for s2 in b2) for b2 in others):
                                bad = (t, [f"call {nm}(...)"])
            chk.check(bad is None, "EQUIV.branch", fn, node, construct=f"chain on {norm(node.test)[:60]}: every branch defines what is used afterwards",
                      why=(f"{bad[1]} {'is' if len(bad[1]) == 1 else 'are'} set in one branch of a chain that depends on whether the data is dask-backed but not in the branch "
                           f"`{norm(bad[0])[:60] if bad[0] is not None else 'else'}`: the dask-backed fit and the in-memory fit apply different post-processing") if bad else "")
    chk.info["dask_dependent_chains"] = n_chains


FLAG_PARAMS = {"compute": True, "check_nans": True, "compute_eagerly": False}  # name -> must be wired when the callee's default is True


def _inner_flags(chk, classes):
    """helper models / solvers built inside a lazy-capable model must take their compute / check_nans flags from the
    outer model's flags (or pin them to False): a default of True computes whatever the user asked for"""
    pm = chk.pm
    seen = set()
    lazy_bases = set()
    for cls in classes:
        for c in cls.mro:
            lazy_bases.add(c.qualname)
    prep_like = {"Preprocessor", "Scaler", "Sanitizer"}
    for fn in pm.all_functions():
        if fn.cls is None or fn.cls.qualname not in lazy_bases:
            continue
        ff = FuncFacts.of(fn)
        ctx = Ctx(pm, fn)
        for c in calls_in(fn):
            for t in ctx.resolve_call(c):
                if t.fn is None:
                    continue
                flags = [p for p in t.fn.params if p in FLAG_PARAMS]
                if not flags or (isinstance(c.func, ast.Attribute) and c.func.attr == "__init__"):
                    continue
                if t.fn.name not in ("__init__",) and t.fn.cls is not None:
                    continue  # methods (fit etc.) do not take the flags; only constructors and kernels do
                defaults = t.fn.defaults()
                b = bind_args(t.fn, c)
                star = [k.value for k in c.keywords if k.arg is None]
                # placeholder objects of rotators (replaced at fit) take no part in the fit
                st = ff.cfg.enclosing_stmt(c)
                if fn.name == "__init__" and not c.args and not c.keywords:
                    continue
                for p in flags:
                    key = (fn.qualname, norm(c)[:120], p)
                    if key in seen:
                        continue
                    seen.add(key)
                    d = defaults.get(p)
                    default_true = isinstance(d, ast.Constant) and d.value is True
                    if p not in b:
                        given_by_star = any(
                            any(o.kind == "dictval" and o.name == p for o in q.ops) for sv in star for q in ff.paths(sv, spine_only=False)
                        ) or any(
                            q.atom.kind == "selfattr" and any(
                                isinstance(val, ast.Dict) and any(const_str(k) == p for k in val.keys)
                                for cc in fn.cls.mro for m, stt, val in pm.attr_assignments(cc, q.atom.name.split(".", 1)[1]))
                            for sv in star for q in ff.paths(sv, spine_only=True)
                        )
                        if given_by_star or not default_true:
                            chk.ok("LAZY.inner", fn, c, construct=f"{norm(c)[:70]}: {p} {'forwarded' if given_by_star else 'defaults to False'}")
                            continue
                        pinned = const_str(call_kwargs(c).get("solver")) == "full"
                        chk.check(pinned, "LAZY.inner", fn, c, construct=f"{norm(c)[:70]}: {p} omitted",
                                  why=f"{t.fn.qualname} is built without {p}, whose default is True: this helper computes / checks NaNs eagerly "
                                      "even when the user's model was created with compute=False / check_nans=False")
                        continue
                    v = b[p]
                    if isinstance(v, ast.Constant):
                        ok = v.value is False or (p == "compute_eagerly" and v.value is False)
                        chk.check(ok or const_str(call_kwargs(c).get("solver")) == "full", "LAZY.inner", fn, c, construct=f"{norm(c)[:70]}: {p}={v.value}",
                                  why=f"{p} is pinned to {v.value}: the helper ignores the user's flag")
                        continue
                    wired = any(("compute" in q.atom.name or "check_nans" in q.atom.name) or
                                (q.atom.name in ("self._params", "params") and q.ops and const_str(getattr(q.ops[0].node, "slice", None)) in ("compute", "check_nans"))
                                or any(o.kind == "subscript" and const_str(getattr(o.node, "slice", None)) in ("compute", "check_nans") for o in q.ops)
                                for q in ff.paths(v, spine_only=True))
                    chk.check(wired, "LAZY.inner", fn, c, construct=f"{norm(c)[:70]}: {p} <- {norm(v)[:40]}",
                              why=f"{p} of the helper does not derive from the model's own compute / check_nans flag")


def _inputs(chk):
    pm = chk.pm
    n = 0
    for fn in pm.all_functions():
        for recv, key, val, node in container_writes(fn):
            if key.startswith("input_data") and isinstance(node, ast.Call):
                n += 1
                ac = call_kwargs(node).get("allow_compute")
                ok = isinstance(ac, ast.Constant) and ac.value is False
                chk.check(ok, "LAZY.input.flag", fn, node,
                          why="the input data is stored without allow_compute=False: compute() would load the user's (possibly huge) input into memory")
    # a container built FROM another container starts with allow_compute=True for every entry it copies
    # (DataContainer.__init__), so the copy forgets which entry is the user's input
    dcc = pm.cls("xeofs.data_container.data_container.DataContainer")
    init = dcc.methods.get("__init__")
    resets = init is not None and any(isinstance(x, (ast.DictComp, ast.Dict, ast.Call)) and "True" in norm(x) for st in walk_no_nested(init.node)
                                      if isinstance(st, ast.Assign) and is_self_attr(st.targets[0], "_allow_compute") for x in [st.value])
    for fn in pm.all_functions():
        if fn.cls is dcc:
            continue
        ctx = Ctx(pm, fn)
        for c in calls_in(fn):
            if not (c.args or any(k.arg is None for k in c.keywords)):
                continue
            if any(t.fn is init for t in ctx.resolve_call(c)) and resets:
                n += 1
                chk.violation("LAZY.input.copy", fn, c,
                              why="a DataContainer is built from existing entries: its constructor marks every copied entry allow_compute=True, so the input data "
                                  "stored with allow_compute=False is computed (loaded into memory) by the next compute()")
    dc = pm.own_method("xeofs.data_container.data_container.DataContainer", "compute")
    t = norm(dc.node)
    chk.check("_allow_compute[" in t and " if " in t, "LAZY.input.filter", dc, None, construct="DataContainer.compute filters on _allow_compute",
              why="DataContainer.compute no longer skips entries stored with allow_compute=False")
    bc = pm.own_method("xeofs.base_model.BaseModel", "compute")
    from .common import class_closure as _clo
    t = " ".join(norm(g.node) for g in _clo(pm, bc.cls, bc))  # the predicate may be a private helper
    chk.check("allow_compute" in t and "data_is_dask" in t, "LAZY.input.filter", bc, None, construct="BaseModel.compute filters on allow_compute",
              why="BaseModel.compute no longer skips nodes flagged allow_compute=False")
    pc = [c for c in calls_in(bc) if is_self_attr(c.func, "_post_compute")]
    chk.check(len(pc) == 1 and pc[0].lineno == max(getattr(s, "lineno", 0) for s in bc.node.body), "LAZY.input.post_compute", bc, pc[0] if pc else None,
              construct="BaseModel.compute ends with _post_compute()", why="value-based sorting must run after the results are computed")
