"""C18 - POP modes are eigen-pairs of the lag-1 feedback matrix (small structural part).

SORT.*        ordering by the standard deviation of the coefficient series, descending; coverage of
              the re-ordering; 'sorted' typestate incl. reset at fit (shared rules of C11)
COEF.shared   fit and transform obtain the coefficients from one routine, with data and patterns both
              in PC space; stored patterns are mapped back to physical space
REAL.times    damping times are -1/log|lambda| and periods 2*pi/arg(lambda) of the eigenvalues returned
              by the eigen-solver; the three outputs are stored under the matching names
FEEDBACK      the feedback matrix is (lead^H lag)(lag^H lag)^-1 with conjugate transposes
"""

from __future__ import annotations

import ast

from ..pm import AnalysisError, const_str, dotted, is_self_attr, norm, walk_no_nested
from ..prov import FuncFacts
from .common import container_write, reads_container, returns_of
from . import c11
from .c01 import _Relabel
from .c09 import _matmul_operands, _operand_chain


def check(chk):
    pm = chk.pm
    pop = pm.cls("xeofs.single.pop.POP")
    c11._sort_key(chk, pop, "norms")
    c11._sort_cover(chk, pop)
    c11._sort_state(chk, pop)
    _importance(chk, pop)
    _shared(chk, pop)
    _real(chk, pop)
    _feedback(chk, pop)
    _order(chk, pop)
    chk.floor("SORT", 8)
    chk.floor("COEF", 4)
    chk.floor("REAL", 5)
    chk.floor("FEEDBACK", 2)


def _kernel_call(chk, fn, kernel_name):
    ff = FuncFacts.of(fn)
    for c in ff.calls():
        if (dotted(c.func) or "").endswith("apply_ufunc") and c.args and is_self_attr(c.args[0], kernel_name):
            return ff, c
    raise AnalysisError(f"{fn.qualname}: apply_ufunc({kernel_name}) not found (anchor vanished)")


def _importance(chk, pop):
    fit = pop.methods["_fit_algorithm"]
    ff, call = _kernel_call(chk, fit, "_np_solve_pop_system")
    val, node = container_write(fit, "norms")
    ps = [p for p in ff.paths(val, spine_only=True) if p.atom.kind == "call" and p.atom.node is call]
    chk.require(bool(ps), "POP._fit_algorithm: norms no longer derive from the POP kernel")
    ok = False
    for p in ps:
        names = [(o.kind, o.name) for o in p.ops]
        from_Z = ("unpack", "1") in names
        is_std = ("method", "std") in names or (("method", "var") in names and any(
            (o.kind == "binop" and o.name == "Pow" and norm(o.other) in ("0.5", "1 / 2")) or (o.kind == "arg" and o.name.endswith("sqrt")) for o in p.ops))
        ok = ok or (from_Z and is_std)
    chk.check(ok, "SORT.importance", fit, node,
              why="modes are ordered by 'norms', which must be the standard deviation of the coefficient time series (second kernel output)")
    for p in ps[:1]:
        for o in p.ops:
            if o.kind == "method" and o.name in ("var", "std"):
                c = o.node
                a0 = c.args[0] if c.args else None
                along = a0 is not None and any(q.atom.name == "self.sample_name" for q in ff.paths(a0, spine_only=True))
                chk.check(along, "SORT.importance.dim", fit, c, why="the spread of the coefficients must be taken along the sample dimension")


def _shared(chk, pop):
    solve = pop.methods["_np_solve_pop_system"]
    sf = FuncFacts.of(solve)
    uses = [c for c in sf.calls() if is_self_attr(c.func, "_np_compute_pop_coefficients")]
    chk.check(len(uses) == 1, "COEF.shared.fit", solve, uses[0] if uses else solve.node,
              construct="fit kernel -> _np_compute_pop_coefficients", why="fit no longer computes the coefficients with the routine transform uses")
    tr = pop.methods["_transform_algorithm"]
    tf, call = _kernel_call(chk, tr, "_np_compute_pop_coefficients")
    X, P = call.args[1], call.args[2]
    xs = tf.paths(X, spine_only=True)
    okx = any(p.atom.kind == "param" and any(o.kind == "arg" and o.name == "self.pca.transform" for o in p.ops) for p in xs)
    chk.check(okx, "COEF.shared.data_space", tr, call, why="transform must project the data into PC space (self.pca.transform) before computing coefficients")
    pps = tf.paths(P, spine_only=True)
    okp = any(reads_container(p, "components") and any(o.kind == "arg" and o.name == "self.pca.transform_components" for o in p.ops) for p in pps)
    chk.check(okp, "COEF.shared.pattern_space", tr, call, why="the stored (physical) patterns must be mapped into PC space with pca.transform_components")
    fit = pop.methods["_fit_algorithm"]
    ff = FuncFacts.of(fit)
    val, node = container_write(fit, "components")
    oks = any(any(o.kind == "arg" and o.name == "self.pca.inverse_transform_components" for o in p.ops) and p.has_op("unpack", "0")
              for p in ff.paths(val, spine_only=True))
    chk.check(oks, "COEF.shared.store_physical", fit, node, why="patterns must be stored in physical space (pca.inverse_transform_components of the first kernel output)")
    inv = pop.methods["_inverse_transform_algorithm"]
    iff = FuncFacts.of(inv)
    rets = returns_of(inv)
    okr = bool(rets) and any(any(o.kind == "arg" and o.name == "self.pca.inverse_transform_data" for o in p.ops) for p in iff.paths(rets[-1].value, spine_only=True))
    chk.check(okr, "COEF.shared.inverse", inv, rets[-1] if rets else inv.node, why="reconstruction happens in PC space and must be mapped back with pca.inverse_transform_data")


def _real(chk, pop):
    fit = pop.methods["_fit_algorithm"]
    ff, call = _kernel_call(chk, fit, "_np_solve_pop_system")
    solve = pop.methods["_np_solve_pop_system"]
    sf = FuncFacts.of(solve)
    rets = returns_of(solve)
    chk.require(len(rets) == 1 and isinstance(rets[0].value, ast.Tuple), "POP kernel: single tuple return expected")
    elts = rets[0].value.elts

    def eig_value(p):
        return p.atom.kind == "call" and p.atom.name.endswith("linalg.eig") and p.ops and p.ops[0].kind == "unpack" and p.ops[0].name == "0"

    roles = {}
    for i, e in enumerate(elts):
        ps = [p for p in sf.paths(e, spine_only=True) if eig_value(p)]
        if not ps:
            continue
        p = ps[0]
        args = [o.name.split(".")[-1] for o in p.ops if o.kind == "arg"]
        if "log" in args and ("abs" in args or "absolute" in args):
            # -1 / log|lambda|
            div = [o for o in p.ops if o.kind == "binop" and o.name == "Div" and o.side == "R"]
            neg = bool(div) and norm(div[0].other) in ("-1", "-1.0")
            roles[i] = ("damping_times", neg, "damping time must be -1 / log|lambda|")
        elif "angle" in args:
            div = [o for o in p.ops if o.kind == "binop" and o.name == "Div" and o.side == "R"]
            twopi = bool(div) and norm(div[0].other).replace(" ", "") in ("2*np.pi", "np.pi*2", "2.0*np.pi")
            roles[i] = ("periods", twopi, "period must be 2*pi / arg(lambda)")
        elif not [o for o in p.ops if o.kind != "unpack"]:
            roles[i] = ("eigenvalues", True, "")
        elif "log" in args:
            roles[i] = ("damping_times", False, "damping time must use the modulus |lambda| inside the logarithm (real-valued result)")
    found = {r[0] for r in roles.values()}
    chk.check(found == {"eigenvalues", "damping_times", "periods"}, "REAL.outputs", solve, rets[0],
              why=f"the kernel must return the eigenvalues, -1/log|lambda| and 2*pi/arg(lambda); recognised: {sorted(found)}")
    for i, (key, ok, why) in roles.items():
        if why:
            chk.check(ok, f"REAL.times.{key}", solve, elts[i], why=why)
        val, node = container_write(fit, key)
        idx = {o.name for p in ff.paths(val, spine_only=True) if p.atom.kind == "call" and p.atom.node is call for o in p.ops if o.kind == "unpack"}
        chk.check(idx == {str(i)}, f"REAL.store.{key}", fit, node,
                  why=f"{key!r} must store kernel output #{i}; it stores output(s) {sorted(idx)}")


def _order(chk, pop):
    """FEEDBACK.order - the kernel forms the lag-1 products by position (rows 1: against rows :-1): the series must reach it
    in the order the caller gave; nothing in POP's own fit path may re-order or select rows along the sample dimension"""
    from .common import sample_order_kept
    fit = pop.methods["_fit_algorithm"]
    ff, call = _kernel_call(chk, fit, "_np_solve_pop_system")
    chk.require(len(call.args) >= 2, "POP._fit_algorithm: data argument of the POP kernel vanished")
    sample_order_kept(chk, "FEEDBACK.order", fit, ff, call.args[1], "the series reaches the lag-1 kernel in the caller's order",
                      "the lag-1 products are formed: row t is no longer followed by the caller's row t+1, the feedback matrix is that of another series")


def _feedback(chk, pop):
    solve = pop.methods["_np_solve_pop_system"]
    sf = FuncFacts.of(solve)
    eig = [c for c in sf.calls() if (dotted(c.func) or "").endswith("linalg.eig")]
    chk.require(len(eig) == 1, "POP kernel: eigen-solver call vanished")
    A = eig[0].args[0]
    e, at = A, sf.node_of(eig[0])
    from .common import inline_locals
    A_node = A
    e = inline_locals(sf, A)  # named intermediate products (C1 = ..., C0 = ...) substituted back
    ops = _matmul_operands(e)
    ok = False
    herm = True
    if len(ops) == 3:
        t0, c0, b0 = _operand_chain(ops[0])
        t1, c1, b1 = _operand_chain(ops[1])

        def sl(x):
            while not isinstance(x, ast.Subscript) and isinstance(x, (ast.Attribute, ast.Call)):
                x = x.value if isinstance(x, ast.Attribute) else x.func
            return norm(x.slice) if isinstance(x, ast.Subscript) else None

        lead, lag = sl(ops[0]), sl(ops[1])
        third = ops[2]
        inv = isinstance(third, ast.Call) and (dotted(third.func) or "").split(".")[-1] in ("inv", "pinv")
        gram_ok = False
        if inv and third.args:
            g = _matmul_operands(third.args[0])
            if len(g) == 2:
                tg, cg, bg = _operand_chain(g[0])
                gram_ok = tg and cg and sl(g[0]) == sl(g[1]) == lag
                herm = herm and cg
        ok = t0 and lead == "1:" and lag == ":-1" and inv and gram_ok and not t1
        herm = herm and c0
    chk.check(ok, "FEEDBACK.form", solve, A_node, construct="feedback matrix handed to the eigen-solver", why="the feedback matrix must be (X[1:]^H X[:-1]) (X[:-1]^H X[:-1])^-1: lag-1 covariance times inverse lag-0 covariance")
    chk.check(herm, "FEEDBACK.conj", solve, A_node, construct="feedback matrix: conjugate transposes", why="the covariances of complex PCs need conjugate transposes")
