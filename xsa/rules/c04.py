"""C04 - transform of the training data reproduces the scores (structural clauses).

SPACE.project   a projection of data on components along the feature dimension uses projection
                weights of the data's own basis: components that went through a whitener *pattern*
                map are patterns, not weights, and the number of forward stages applied to the data
                equals the basis the components are expressed in
SPACE.stored    the rotator stores its rotated vectors in the whitened PC space (as the base model does)
AGREE           every per-mode factor the rotator's fit applies to the score chain and stores is applied
                by its transform with the same operator (singular values, norms, sign, rotation)
ACC             a list accumulator initialised before a loop is appended to, not rebound, inside it
"""

from __future__ import annotations

import ast
import os

from ..pm import AnalysisError, FuncInfo, const_str, dotted, is_self_attr, norm, walk_no_nested
from ..prov import FuncFacts, Path
from .common import container_write, container_writes, dot_dims, dot_operands, is_dot_call, reads_container
from .fields import FWD, INV, stage_of

FIXTURES = os.path.join(os.path.dirname(os.path.dirname(os.path.abspath(__file__))), "fixtures")
N_STAGES = {"cross": 3}


def _stage_ops(p: Path):
    out = []
    for o in p.ops:
        if o.kind == "arg":
            st = stage_of(o.name)
            if st and (o.other == 0 or o.other in ("X", "data")):
                out.append(st)
    return out


def _forward_complete(chk):
    """what the model's projection / prediction algorithm receives in the public transform / predict has passed EVERY
    forward stage of its field, each once: preprocessor (single-set), preprocessor -> pca -> whitener (cross-set).  A
    skipped stage leaves the data in another basis than the stored components (transform(training data) != scores)."""
    pm = chk.pm
    specs = [
        ("xeofs.single.base_model_single_set.BaseModelSingleSet", ("transform",), ("_transform_algorithm",), ["preprocessor"]),
        ("xeofs.cross.base_model_cross_set.BaseModelCrossSet", ("transform", "predict"), ("_transform_algorithm", "_predict_algorithm"), ["preprocessor", "pca", "whitener"]),
    ]
    for cname, entries, algs, want in specs:
        cls = pm.cls(cname)
        for ename in entries:
            fn = cls.methods.get(ename)
            chk.require(fn is not None, f"{cname}.{ename} vanished")
            ff = FuncFacts.of(fn)
            calls = [c for c in ff.calls() if is_self_attr(c.func) and c.func.attr in algs]
            chk.require(len(calls) >= 1, f"{cname}.{ename}: call of the projection / prediction algorithm vanished")
            for c in calls:
                for a in list(c.args) + [k.value for k in c.keywords if k.arg in ("X", "Y", "data")]:
                    ps = [p for p in ff.paths(a, spine_only=True, follow=True) if p.atom.kind == "param" and p.atom.name in ("X", "Y", "data")]
                    if not ps:
                        continue
                    chains = [[st[0] for st in _stage_ops(p) if st[2] in FWD] for p in ps]
                    optional = isinstance(fn.defaults().get(ps[0].atom.name), ast.Constant) and fn.defaults()[ps[0].atom.name].value is None
                    chk.require(any(ch == want for ch in chains) or any(ch for ch in chains), f"{cname}.{ename}: no forward stage applied to {ps[0].atom.name}") if False else None
                    for p, got in zip(ps, chains):
                        if not got and optional and any(ch for ch in chains):
                            continue  # the argument was not given (None is handed through untouched)
                        chk.check(got == want, "SPACE.forward.complete", fn, c, construct=f"{cls.name}.{ename}: {p.atom.name} passes {' -> '.join(want)} before {c.func.attr}",
                                  why=f"the data handed to {c.func.attr} has passed the forward stages {got}, not {want}: it is projected in another basis / scaling than "
                                      "the one the components were fitted in")


def check(chk):
    pm = chk.pm
    _space(chk)
    _forward_complete(chk)
    # queries leave the stored decomposition alone (shared with C14): an accessor that rescales the stored arrays in place
    # changes what every later scores() / components() / transform() returns
    from . import c14 as _c14q
    from .c01 import _Relabel as _RLq
    _c14q._query_mutates(_RLq(chk, "HIST.query_mutates", "AGREE.query_mutates"))
    _agree(chk)
    # the rotators' transform applies to the projections the operator fit applied to the scores: the inverse conjugate
    # transpose of the rotation matrix obtained through the shared helper (rule shared with C11.PAIR.scores)
    from . import c11 as _c11
    for cname, spec in _c11.ROTATORS.items():
        tr = pm.cls(cname).methods.get(spec["transform"])
        chk.require(tr is not None, f"{cname}.{spec['transform']} vanished")
        _c11._pairing(_RLq(chk, "PAIR.scores", "AGREE.rotation"), tr)
        # ... and the stored sign convention, after the re-sort (shared with C11.SIGN.group.transform)
        _c11._sign_transform(_RLq(chk, "SIGN.group.transform", "AGREE.sign"), tr)
    # transform treats the two fields alike (cross-set models and their rotators)
    from .fields import field_symmetry
    tfns = [m for q in ("xeofs.cross.base_model_cross_set.BaseModelCrossSet", "xeofs.cross.cpcca.CPCCA", "xeofs.cross.cpcca_rotator.CPCCARotator")
            for m in pm.cls(q).methods.values() if m.name in ("transform", "_transform_algorithm")]
    nsym = field_symmetry(chk, "AGREE.fields.symmetric", tfns)
    chk.require(nsym >= 2, f"AGREE.fields.symmetric: only {nsym} two-field transform functions compared")
    _acc(chk)
    # transform(training data) carries the labels of the data it was given: the label path of transform reads what this very
    # call recorded and has no fall-back to the coordinates remembered at fit (shared with C05.UNSEEN.pure) - with a
    # fall-back, what an EARLIER transform of other data left behind labels the projection of the training data
    from . import c05 as _c05
    _c05._unseen_pure(_RLq(chk, "UNSEEN.pure", "AGREE.labels.pure"))
    chk.floor("SPACE.project", 6)
    chk.floor("AGREE", 6)
    chk.floor("ACC", 20)


def _space(chk):
    pm = chk.pm
    targets = [
        ("xeofs.cross.cpcca.CPCCA", "_transform_algorithm", False),
        ("xeofs.cross.cpcca_rotator.CPCCARotator", "transform", True),
        ("xeofs.single.eof.EOF", "_transform_algorithm", False),
        ("xeofs.single.sparse_pca.SparsePCA", "_transform_algorithm", False),
        ("xeofs.single.eof_rotator.EOFRotator", "_transform_algorithm", False),
    ]
    for cname, mname, public in targets:
        cls = pm.cls(cname)
        fn = cls.methods.get(mname)
        chk.require(fn is not None, f"{cname}.{mname} vanished")
        ff = FuncFacts.of(fn)
        data_params = [p for p in fn.params if p in ("X", "Y", "data")]
        n_stages = 3 if "cross" in cname else 1
        found = 0
        from .common import class_closure, closure_paths
        clo = class_closure(pm, cls, fn)
        for g, c in [(g, c) for g in clo for c in FuncFacts.of(g).calls()]:
            if not is_dot_call(c):
                continue
            opn = dot_operands(c)
            data_side = comp_side = None
            for o in opn:
                # (the projection may live in a private helper: its parameters are read through the call sites)
                ps = ff.paths(o, spine_only=True) if g is fn else closure_paths(pm, cls, fn, g, o, True, 0, clo)
                if any(p.atom.kind == "param" and p.atom.name in data_params for p in ps):
                    data_side = (o, ps)
                elif any((p.container_key() or ("", ""))[1].startswith("components") for p in ps):
                    comp_side = (o, ps)
            if data_side is None or comp_side is None:
                continue
            found += 1
            dps = [p for p in data_side[1] if p.atom.kind == "param" and p.atom.name in data_params]
            cps = [p for p in comp_side[1] if (p.container_key() or ("", ""))[1].startswith("components")]
            fwd = max(len([s for s in _stage_ops(p) if s[2] in FWD]) for p in dps)
            lower = raise_ = 0
            through_whitener = False
            for p in cps:
                for s in _stage_ops(p):
                    if s[2] == "inverse_transform_components":
                        lower += 1
                    if s[2] == "transform_components":
                        raise_ += 1
                    if s[0] == "whitener" and s[2].endswith("_components"):
                        through_whitener = True
            net = lower - raise_
            expect_fwd = (n_stages - net) if public else 0
            chk.check(not through_whitener, "SPACE.project.kind", g, c,
                      why="the components were mapped with a whitener *pattern* map (…_components) and are then used as projection weights; "
                          "patterns and weights coincide only for alpha = 1, so transform(training data) != scores for alpha < 1")
            chk.check(fwd == expect_fwd and (public or net == 0), "SPACE.project.basis", g, c,
                      why=f"data has passed {fwd} forward stage(s) but the components are expressed {net} stage(s) below the model space "
                          f"(expected {expect_fwd} forward stages): data and components live in different bases",
                      facts={"forward_stages_on_data": fwd, "component_net_lowering": net})
        chk.require(found >= 1, f"{cname}.{mname}: projection dot product not found (anchor vanished)")
    _stored(chk)


def _stored(chk):
    pm = chk.pm
    # the rotator stores its vectors in whitened PC space
    fit = pm.own_method("xeofs.cross.cpcca_rotator.CPCCARotator", "_fit_algorithm")
    ff = FuncFacts.of(fit)
    for i in (1, 2):
        val, node = container_write(fit, f"components{i}")
        seqs = []
        for p in ff.paths(val, spine_only=True):
            if not all(o.side == "L" for o in p.ops if o.kind == "binop") or p.atom.kind != "param":
                continue  # norm / sign factors and intermediate call results: only the vectors themselves matter
            s = [(st[0], st[1], st[2]) for st in _stage_ops(p)]
            if s:
                seqs.append(s)
        ok = bool(seqs) and all(s[-2:] == [("pca", i, "transform_components"), ("whitener", i, "transform_components")] for s in seqs)
        chk.check(ok, "SPACE.stored", fit, node, construct=f"components{i} stored after pca{i}.transform_components -> whitener{i}.transform_components",
                  why="the rotated vectors are not stored in the whitened PC space in which transform projects")
        # ... and they were rotated in physical space: each field's vectors are lowered through BOTH pattern inverses
        # (whitener, then pca) before the rotation; a path with only one of them rotates vectors of mixed spaces
        lowered = all(len(s) >= 4 and s[0][0] == "whitener" and s[0][2] == "inverse_transform_components" and s[1][0] == "pca" and s[1][2] == "inverse_transform_components"
                      and s[0][1] == s[1][1] for s in seqs)
        own = any(s == [("whitener", i, "inverse_transform_components"), ("pca", i, "inverse_transform_components"), ("pca", i, "transform_components"),
                        ("whitener", i, "transform_components")] for s in seqs)
        chk.check(bool(seqs) and lowered and own, "SPACE.stored.round", fit, node,
                  construct=f"components{i}: whitener.inverse -> pca.inverse -> rotation -> pca{i}.transform -> whitener{i}.transform",
                  why=f"the vectors of a field do not pass whitener.inverse_transform_components -> pca.inverse_transform_components before the rotation "
                      f"(stage sequences found: {seqs[:3]}): loadings of different spaces are rotated together")


# ----------------------------------------------------------------------------
TRIVIAL_AFTER_READ = {("method", "sel"), ("method", "isel"), ("method", "copy"), ("method", "rename"), ("method", "assign_coords"), ("arg", "np.sqrt")}


def _sig(ff: FuncFacts, e: ast.expr) -> frozenset:
    """source signature of a value.  A (possibly selected / square-rooted) read of a container entry is reduced to
    (object.container, key) so that ``model.data["norms"].sel(...)`` matches the value stored from ``model.data["norms"]``;
    any other value keeps its full def-use paths."""
    out = set()
    for p in ff.paths(e, spine_only=True):
        if p.atom.kind == "call" and (p.atom.name in ("np.sqrt",)):
            continue  # the argument of the wrapper is traced on its own path
        root = None
        ops = list(p.ops)
        if len(ops) >= 2 and ops[0].kind == "attr" and ops[0].name in ("data", "model_data") and ops[1].kind == "subscript":
            k = const_str(getattr(ops[1].node, "slice", None))
            if k is not None and all((o.kind, o.name) in TRIVIAL_AFTER_READ for o in ops[2:]):
                root = (p.atom.name + "." + ops[0].name, k)
        elif p.container_key() is not None and all((o.kind, o.name) in TRIVIAL_AFTER_READ for o in ops[1:]):
            root = p.container_key()
        out.add(root if root is not None else repr(p))
    return frozenset(out)


def _factor_keys_fit(ff: FuncFacts, fit: FuncInfo, score_key: str):
    """(operator, container, stored key) for multiplicative factors on the stored scores' def-use chain"""
    writes = container_writes(fit)
    val, node = container_write(fit, score_key)
    out = set()
    stored = {(recv, key): _sig(ff, v) for recv, key, v, n in writes}
    for p in ff.paths(val, spine_only=True):
        # only the chain that starts at the base model's scores
        ops = list(p.ops)
        if not (len(ops) >= 2 and ops[0].kind == "attr" and ops[0].name == "data" and ops[1].kind == "subscript"
                and (const_str(getattr(ops[1].node, "slice", None)) or "").startswith("scores")):
            continue
        for o in p.ops:
            if o.kind == "binop" and o.name in ("Mult", "Div") and o.side == "L":
                osig = _sig(ff, o.other)
                for (recv, key), sig in stored.items():
                    if sig and sig == osig:
                        out.add((o.name, recv.split(".")[-1], key))
    return out


def _factor_keys_transform(ff: FuncFacts, tr: FuncInfo, sinks):
    out = set()
    for e in sinks:
        for p in ff.paths(e, spine_only=True, follow=True):
            for o in p.ops:
                if o.kind == "binop" and o.name in ("Mult", "Div") and o.side == "L":
                    for q in ff.eval_in(o.frame, o.other, spine_only=True):
                        ck = q.container_key()
                        if ck is not None:
                            out.add((o.name, ck[0].split(".")[-1], ck[1]))
    return out


def _agree(chk):
    pm = chk.pm
    from . import c11
    from .c01 import _Relabel
    for cname, trname in (("xeofs.single.eof_rotator.EOFRotator", "_transform_algorithm"), ("xeofs.cross.cpcca_rotator.CPCCARotator", "transform")):
        c11._resort_in_transform(_Relabel(chk, "SORT.state.transform", "AGREE.resort"), pm.cls(cname).methods[trname])
    specs = [
        ("xeofs.single.eof_rotator.EOFRotator", "_transform_algorithm", ["scores"]),
        ("xeofs.cross.cpcca_rotator.CPCCARotator", "transform", ["scores1", "scores2"]),
    ]
    for cname, trname, score_keys in specs:
        cls = pm.cls(cname)
        fit, tr = cls.methods["_fit_algorithm"], cls.methods[trname]
        ff, tf = FuncFacts.of(fit), FuncFacts.of(tr)
        sinks = []
        for n in walk_no_nested(tr.node):
            if isinstance(n, ast.Return) and n.value is not None:
                sinks.append(n.value)
            if isinstance(n, ast.Call) and isinstance(n.func, ast.Attribute) and n.func.attr == "append" and n.args:
                sinks.append(n.args[0])
        from .fields import expr_indices
        for sk in score_keys:
            mine = sinks
            if sk[-1] in "12":
                mine = [e for e in sinks if expr_indices(tf, e) == {int(sk[-1])}]
                chk.require(bool(mine), f"{cname}.{trname}: no result of field {sk[-1]} found")
            got = _factor_keys_transform(tf, tr, mine)
            want = _factor_keys_fit(ff, fit, sk)
            chk.require(len(want) >= 2, f"{cname}._fit_algorithm: factors of the {sk} chain not recognised ({sorted(want)})")
            for op, recv, key in sorted(got - want):
                chk.violation("AGREE.factor.extra", tr, tr.node, construct=f"{cls.name}.{trname}: {op} by {recv}[{key!r}] (not applied by fit to {sk})",
                              why=f"transform applies {op} by {recv}[{key!r}] to the {sk} chain but fit does not apply it to the stored scores: "
                                  "transform(training data) differs from the stored scores by that factor")
            for op, recv, key in sorted(want):
                ok = (op, recv, key) in got
                other = [g for g in got if g[1:] == (recv, key)]
                chk.check(ok, "AGREE.factor", tr, tr.node, construct=f"{cls.name}.{trname}: {op} by {recv}[{key!r}] (as fit does for {sk})",
                          why=f"fit applies {op} by the value it stores as {recv}[{key!r}] to the {sk} chain, but transform "
                              + (f"applies {other[0][0]} instead" if other else "never applies it")
                              + ": transform(training data) differs from the stored scores")


# ----------------------------------------------------------------------------
def acc_sites(tree: ast.AST):
    """yield (funcdef, loop, name, rebinding stmt | None) for list accumulators initialised before a loop"""
    for f in ast.walk(tree):
        if not isinstance(f, (ast.FunctionDef, ast.AsyncFunctionDef)):
            continue
        body_lists: dict[str, ast.stmt] = {}

        def scan(stmts):
            for st in stmts:
                if isinstance(st, ast.Assign) and len(st.targets) == 1 and isinstance(st.targets[0], ast.Name) and isinstance(st.value, ast.List) and not st.value.elts:
                    body_lists[st.targets[0].id] = st
                elif isinstance(st, ast.AnnAssign) and isinstance(st.target, ast.Name) and isinstance(st.value, ast.List) and not st.value.elts:
                    body_lists[st.target.id] = st
                elif isinstance(st, (ast.For, ast.While)):
                    for name in list(body_lists):
                        rebound = None
                        appended = False
                        used = False
                        for n in walk_no_nested(st):
                            if isinstance(n, ast.Assign):
                                for t in n.targets:
                                    if isinstance(t, ast.Name) and t.id == name and n is not st:
                                        rebound = n
                            if isinstance(n, ast.Call) and isinstance(n.func, ast.Attribute) and n.func.attr in ("append", "extend", "insert") \
                                    and isinstance(n.func.value, ast.Name) and n.func.value.id == name:
                                appended = True
                            if isinstance(n, ast.AugAssign) and isinstance(n.target, ast.Name) and n.target.id == name:
                                appended = True
                            if isinstance(n, ast.Name) and n.id == name:
                                used = True
                        if used:
                            yield_list.append((f, st, name, rebound if (rebound is not None and not appended) else None))
                    scan(st.body)
                elif isinstance(st, (ast.If,)):
                    scan(st.body)
                    scan(st.orelse)
                elif isinstance(st, (ast.With, ast.Try)):
                    scan(st.body)

        yield_list: list = []
        scan(f.body)
        for item in yield_list:
            yield item


def _acc(chk):
    pm = chk.pm
    fx = os.path.join(FIXTURES, "c04_acc_bad.py")
    tree = ast.parse(open(fx).read())
    if not any(reb is not None for _, _, _, reb in acc_sites(tree)):
        raise AnalysisError("C04 ACC rule self-check failed on its positive fixture")
    chk.ok("ACC.fixture", "xsa/fixtures/c04_acc_bad.py", None, construct="positive fixture fires", nontrivial=False)
    for mod in pm.modules.values():
        for f, loop, name, reb in acc_sites(mod.tree):
            fn = next((x for x in pm.all_functions() if x.node is f), None)
            if fn is None:
                continue
            chk.check(reb is None, "ACC", fn, reb or loop, construct=f"accumulator {name} in {norm(loop)[:60]}",
                      why=f"the list {name!r} is initialised before the loop but rebound inside it instead of appended to: "
                          "only the last element survives (and the consumer receives a non-list)")
