"""C06 - fully missing features/samples ignored exactly; isolated NaNs refused (structural clauses).

GUARD.mask      under check_nans, Sanitizer.transform raises when the current valid-feature mask differs
                from the one stored at fit
GUARD.isolated  ... raises on isolated NaNs (per-sample valid-feature count neither 0 nor all)
GUARD.drop      ... drops by both the feature and the sample mask (drop=True)
GUARD.coords    the feature-coordinate identity check raises and dominates the mask computation
GUARD.fit       fit goes through transform (so fit data is checked as well)
REINSERT        inverse maps re-index to the full coordinates remembered at fit, and scores /
                components / inverse_transform of every model reach them
CROSS.joint     the cross-set fit consults the valid samples of both fields jointly
"""

from __future__ import annotations

import ast

from ..pm import AnalysisError, FuncInfo, const_str, dotted, is_self_attr, norm, walk_no_nested
from ..prov import FuncFacts
from ..resolve import Ctx, calls_in, reachable
from .common import call_kwargs, returns_of


def _expr_sources(ff, e):
    """(param names, selfattr names, method/self-call names on the paths)"""
    params, attrs, ops = set(), set(), set()
    for p in ff.paths(e, spine_only=False):
        if p.atom.kind == "param":
            params.add(p.atom.name)
        if p.atom.kind == "selfattr":
            attrs.add(p.atom.name)
        for o in p.ops:
            if o.kind in ("method", "arg", "marg"):
                ops.add(o.name.split(".")[-1])
    return params, attrs, ops


def check(chk):
    # the per-item sample deletions of a list input are reconciled by LABEL when the items are concatenated (shared with C02's concatenator rule)
    from . import c02 as _c02
    from .c01 import _Relabel as _RL
    _c02._concat_align(_RL(chk, "MIRROR.state.concat", "REINSERT.concat"))
    pm = chk.pm
    san = pm.cls("xeofs.preprocessing.sanitizer.Sanitizer")
    tr = san.methods.get("transform")
    chk.require(tr is not None, "Sanitizer.transform vanished")
    ff = FuncFacts.of(tr)
    data = [p for p in tr.params if p != "self"][0]
    raises = [n for n in walk_no_nested(tr.node) if isinstance(n, ast.Raise)]

    def under_check_nans(node):
        from .common import under_flag
        return under_flag(ff, node, "check_nans", True)

    # helpers: which helper computes what (derived from their bodies)
    def helper_kind(name):
        m = san.resolve(name)
        if m is None:
            return None
        t = " ".join(norm(r.value) for r in returns_of(m) if r.value is not None)
        if "notnull" in t and ".any(self.sample_name)" in t:
            return "valid_features"
        if "notnull" in t and ".any(self.feature_name)" in t:
            return "valid_samples"
        if "notnull" in t and ".sum(self.feature_name)" in t:
            return "features_per_sample"
        return None

    def kinds_of(e):
        ks = set()
        params, attrs, ops = _expr_sources(ff, e)
        for o in ops:
            k = helper_kind(o)
            if k:
                ks.add(k)
        t = norm(e)
        return ks, params, attrs, ops

    mask_raise = iso_raise = None
    for r in raises:
        own = [g for g in ff.guards(r) if g.kind in ("if", "case")][-1:]  # the condition that makes this raise fire
        # ignore an enclosing `if self.check_nans:` as "own" condition
        own = [g for g in own if not is_self_attr(g.test, "check_nans")] or [g for g in ff.guards(r) if g.kind == "early-exit"][-1:]
        for g in own:
            ks, params, attrs, ops = kinds_of(g.test)
            if "valid_features" in ks and "self.is_valid_feature" in attrs and ({"equals", "identical"} & ops or isinstance(g.test, ast.Compare)):
                fires_when_different = ("equals" in ops or "identical" in ops) and (
                    (isinstance(g.test, ast.UnaryOp) and isinstance(g.test.op, ast.Not) and g.polarity) or (not isinstance(g.test, ast.UnaryOp) and not g.polarity))
                if fires_when_different or isinstance(g.test, ast.Compare):
                    mask_raise = r
            if "features_per_sample" in ks and data in params:
                iso_raise = r
    chk.check(mask_raise is not None and under_check_nans(mask_raise), "GUARD.mask", tr, mask_raise or tr.node,
              construct="raise unless current valid-feature mask equals the fitted one (under check_nans)",
              why="transform data whose missing features differ from the training data is no longer refused")
    chk.check(iso_raise is not None and under_check_nans(iso_raise), "GUARD.isolated", tr, iso_raise or tr.node,
              construct="raise on isolated NaNs (per-sample valid-feature count) (under check_nans)",
              why="data with isolated NaNs is no longer refused: NaNs propagate silently into the decomposition")
    # the isolated predicate compares against 0 and the number of valid features
    if iso_raise is not None:
        ok = False
        for g in [g for g in ff.guards(iso_raise) if g.kind in ("if", "case")][-1:]:
            params, attrs, ops = _expr_sources(ff, g.test)
            if "isin" in ops:
                for c in ff.calls():
                    if isinstance(c.func, ast.Attribute) and c.func.attr == "isin" and c.args and isinstance(c.args[0], (ast.List, ast.Tuple)):
                        el = c.args[0].elts
                        zero = any(isinstance(x, ast.Constant) and x.value == 0 for x in el)
                        tot = any("valid_features" in kinds_of(x)[0] and "sum" in kinds_of(x)[3] for x in el)
                        ok = zero and tot and len(el) == 2
            elif {"Eq", "NotEq"} & {type(o).__name__ for n in ast.walk(g.test) if isinstance(n, ast.Compare) for o in n.ops}:
                ok = True
        chk.check(ok, "GUARD.isolated.predicate", tr, iso_raise, why="a sample is acceptable only if it has no valid feature at all or all features that are valid in the data")
    # drop
    wh = [c for c in ff.calls() if isinstance(c.func, ast.Attribute) and c.func.attr == "where"]
    okd = False
    node = tr.node
    for c in wh:
        ks, params, attrs, ops = kinds_of(c.args[0]) if c.args else (set(), set(), set(), set())
        drop = call_kwargs(c).get("drop")
        if {"valid_features", "valid_samples"} <= ks and isinstance(drop, ast.Constant) and drop.value is True and under_check_nans(c):
            rets = returns_of(tr)
            okd = any(any(o.node is c for p in ff.paths(r.value, spine_only=True) for o in p.ops) for r in rets)
            node = c
    chk.check(okd, "GUARD.drop", tr, node, construct="X.where(valid_features & valid_samples, drop=True) is returned",
              why="fully missing features/samples are no longer removed by both masks before the decomposition")
    # coords
    cc = [c for c in ff.calls() if is_self_attr(c.func, "_check_input_coords")]
    helper = san.resolve("_check_input_coords")
    okh = False
    if helper is not None:
        hf = FuncFacts.of(helper)
        for r in [n for n in walk_no_nested(helper.node) if isinstance(n, ast.Raise)]:
            for g in hf.guards(r):
                p2, a2, o2 = _expr_sources(hf, g.test)
                if "self.feature_coords" in a2 and ({"identical", "equals"} & o2):
                    okh = True
    chk.check(okh, "GUARD.coords.raises", helper or san.qualname, None, construct="_check_input_coords raises unless feature coordinates are identical to fit",
              why="data whose feature coordinates differ from the training data is no longer refused")
    if cc:
        cn = ff.cfg.node_for(cc[0])
        uses = [c for c in ff.calls() if is_self_attr(c.func) and helper_kind(c.func.attr)]
        chk.check(all(ff.cfg.dominates(cn, ff.cfg.node_for(u)) for u in uses) and bool(uses), "GUARD.coords.dominates", tr, cc[0],
                  why="masks are computed before the coordinate check")
    else:
        chk.violation("GUARD.coords.dominates", tr, tr.node, construct="self._check_input_coords(X)", why="transform no longer checks the feature coordinates")
    # fit goes through transform
    ft = san.resolve("fit_transform")
    okf = ft is not None and any(isinstance(c.func, ast.Attribute) and c.func.attr == "transform" for c in calls_in(ft)) and any(
        isinstance(c.func, ast.Attribute) and c.func.attr == "fit" for c in calls_in(ft))
    chk.check(okf, "GUARD.fit", ft or san.qualname, None, construct="Sanitizer.fit_transform = fit(...).transform(X)",
              why="fit data no longer passes the NaN checks of transform")
    _reinsert(chk, san)
    _cross(chk)
    chk.floor("REINSERT", 30)


def _reinsert(chk, san):
    pm = chk.pm
    from .common import class_closure, resolve_sources
    want = {
        "inverse_transform_data": ("self.feature_name", "self.feature_coords"),
        "inverse_transform_components": ("self.feature_name", "self.feature_coords"),
        "inverse_transform_scores": ("self.sample_name", "self.sample_coords"),
    }
    for mname, (dim, coords) in want.items():
        fn = san.methods.get(mname)
        chk.require(fn is not None, f"Sanitizer.{mname} vanished")
        ok = False
        node = fn.node
        # the reindex may live in a private helper: resolve its arguments back to this method's call
        for g in class_closure(pm, san, fn):
            for c in calls_in(g):
                if isinstance(c.func, ast.Attribute) and c.func.attr == "reindex" and c.args and isinstance(c.args[0], ast.Dict):
                    d = c.args[0]
                    k, v = d.keys[0], d.values[0]
                    node = c if g is fn else node
                    if g is fn:
                        ksrc = resolve_sources(pm, san, g, k)
                        vsrc = resolve_sources(pm, san, g, v)
                    else:
                        # bind the helper's parameters at the call made by this very method
                        ksrc, vsrc = set(), set()
                        from ..resolve import Ctx as _Ctx
                        cx = _Ctx(pm, fn, san)
                        for call in calls_in(fn):
                            if any(t.fn is g for t in cx.resolve_call(call)):
                                from .common import bind_args as _bind
                                b = _bind(g, call)
                                gf = FuncFacts.of(g)
                                for q in gf.paths(k, spine_only=True):
                                    if q.atom.kind == "param" and q.atom.name in b:
                                        ksrc |= resolve_sources(pm, san, fn, b[q.atom.name])
                                for q in gf.paths(v, spine_only=True):
                                    if q.atom.kind == "param" and q.atom.name in b:
                                        vsrc |= resolve_sources(pm, san, fn, b[q.atom.name])
                                node = call
                    if ksrc == {dim} and vsrc == {coords}:
                        ok = True
        chk.check(ok, "REINSERT.reindex", fn, node, construct=f"Sanitizer.{mname}: reindex {dim} to {coords}",
                  why="deleted labels are no longer re-inserted (as NaN) at the coordinates remembered at fit")
    # reachability from model accessors
    targets = {san.methods[m].qualname: m for m in want}
    pairs = {"scores": "inverse_transform_scores", "components": "inverse_transform_components", "inverse_transform": "inverse_transform_data"}
    for cls in pm.concrete_models():
        for ename, sink in pairs.items():
            entry = cls.resolve(ename)
            if entry is None or entry.is_abstract:
                continue
            # models that do not implement the accessor (raise NotImplementedError) are skipped
            body_raises = any(isinstance(n, ast.Raise) for n in entry.node.body)
            if body_raises:
                continue
            hit = False
            for ctx, call, t, path in reachable(pm, Ctx(pm, entry, cls)):
                if t.fn is not None and t.fn.qualname == san.methods[sink].qualname:
                    hit = True
                    break
            # inverse_transform of models whose algorithm is not implemented
            if not hit and ename == "inverse_transform":
                alg = cls.resolve("_inverse_transform_algorithm")
                if alg is not None and any(isinstance(n, ast.Raise) for n in alg.node.body):
                    continue
            chk.check(hit, "REINSERT.reach", entry, None, context=cls.name, construct=f"{cls.name}.{ename} reaches Sanitizer.{sink}",
                      why=f"{cls.name}.{ename} no longer maps its result back through the sanitizer: deleted labels are missing instead of NaN")


def _cross(chk):
    pm = chk.pm
    base = pm.cls("xeofs.cross.base_model_cross_set.BaseModelCrossSet")
    fit = base.methods.get("fit")
    chk.require(fit is not None, "BaseModelCrossSet.fit vanished")
    joint = False
    fns = [fit]
    for ctx, call, t, path in reachable(pm, Ctx(pm, fit, pm.cls("xeofs.cross.cpcca.CPCCA"))):
        if t.fn is not None and t.fn.cls is not None and (base in t.fn.cls.mro):
            fns.append(t.fn)
    for fn in {f.qualname: f for f in fns}.values():
        for n in walk_no_nested(fn.node):
            t = norm(n) if isinstance(n, (ast.Call, ast.Compare, ast.BinOp)) else ""
            if not t:
                continue
            both_masks = "is_valid_sample" in t and "1" in t and "2" in t
            coords_cmp = isinstance(n, ast.Call) and isinstance(n.func, ast.Attribute) and n.func.attr in ("equals", "identical") and "sample_name" in t
            aligned = isinstance(n, ast.Call) and (dotted(n.func) or "").endswith(("xr.align", "xarray.align"))
            if both_masks or coords_cmp or aligned:
                joint = True
    chk.check(joint, "CROSS.joint", fit, None, construct="BaseModelCrossSet.fit: joint handling of the valid samples of X and Y",
              why="each field drops its own fully-missing samples independently and only the sample COUNT is compared afterwards: "
                  "a NaN sample at position i in X and at position j in Y leaves equal counts, so rows of X and Y are paired with the wrong partner")
