"""C06 - fully missing features/samples ignored exactly; isolated NaNs refused (structural clauses).

GUARD.mask      under check_nans, Sanitizer.transform raises when the current valid-feature mask differs
                from the one stored at fit
GUARD.isolated  ... raises on isolated NaNs (per-sample valid-feature count neither 0 nor all)
GUARD.drop      ... drops by both the feature and the sample mask (drop=True)
GUARD.coords    the feature-coordinate identity check raises and dominates the mask computation
GUARD.fit       fit goes through transform (so fit data is checked as well)
REINSERT        inverse maps re-index to the full coordinates remembered at fit, and scores /
                components / inverse_transform of every model reach them
CROSS.joint     the cross-set fit consults the valid samples of both fields jointly
"""

from __future__ import annotations

import ast

from ..pm import AnalysisError, FuncInfo, const_str, dotted, is_self_attr, norm, walk_no_nested
from ..prov import FuncFacts
from ..resolve import Ctx, calls_in, reachable
from .common import call_kwargs, returns_of


def _expr_sources(ff, e):
    """(param names, selfattr names, method/self-call names on the paths)"""
    params, attrs, ops = set(), set(), set()
    for p in ff.paths(e, spine_only=False):
        if p.atom.kind == "param":
            params.add(p.atom.name)
        if p.atom.kind == "selfattr":
            attrs.add(p.atom.name)
        for o in p.ops:
            if o.kind in ("method", "arg", "marg"):
                ops.add(o.name.split(".")[-1])
    return params, attrs, ops


def _unmasked(chk):
    """GUARD.features.unmasked - transform data whose missing features differ from the training data is refused.  The
    comparison is made by the sanitizer stage; every stage the data passes BEFORE it must leave the data's own NaN
    pattern alone.  A stage that combines the data with a fitted statistic which is itself NaN at the features that were
    missing in training (a plain mean / std / var ... of the fit data over the samples, not filled afterwards) imposes the
    training mask on the new data: values present at such a feature are turned into NaN and the sanitizer finds
    'the same' missing features."""
    pm = chk.pm
    prep = pm.cls("xeofs.preprocessing.preprocessor.Preprocessor")
    tt = prep.resolve("transformer_types")
    chk.require(tt is not None, "Preprocessor.transformer_types vanished")
    table: list[tuple[str, str]] = []
    for n in walk_no_nested(tt.node):
        if isinstance(n, ast.Return) and isinstance(n.value, ast.Call) and isinstance(n.value.func, ast.Name) and n.value.func.id == "dict":
            table = [(kw.arg, norm(kw.value)) for kw in n.value.keywords if kw.arg]
        elif isinstance(n, ast.Return) and isinstance(n.value, ast.Dict):
            table = [(const_str(k), norm(v)) for k, v in zip(n.value.keys, n.value.values)]
    names = [t[0] for t in table]
    chk.require("sanitizer" in names, "transformer_types() no longer lists the sanitizer stage")
    REDUCE = {"mean", "std", "var", "sum", "median", "min", "max", "prod"}
    FILL = {"fillna", "where", "nan_to_num", "notnull", "isnull"}
    n_obl = 0
    for sname, cname in table[: names.index("sanitizer")]:
        obj = pm.resolve_name(tt.cls.module if tt.cls is not None else prep.module, cname)
        cls = obj[1] if obj is not None and obj[0] == "class" else None
        chk.require(cls is not None, f"stage class {cname} of the preprocessor table not found")
        tr = cls.resolve("transform")
        fit = cls.resolve("fit")
        if tr is None or fit is None:
            continue
        tf, ff = FuncFacts.of(tr), FuncFacts.of(fit)
        data = [p for p in tr.params if p != "self"][0]
        fdata = [p for p in fit.params if p != "self"][0]
        combos = []
        for b in [x for x in walk_no_nested(tr.node) if isinstance(x, ast.BinOp)]:
            for side, other in ((b.left, b.right), (b.right, b.left)):
                if not is_self_attr(other):
                    continue
                if not any(p.atom.kind == "param" and p.atom.name == data for p in tf.paths(side, spine_only=True)):
                    continue
                combos.append((b, other.attr))
        from ..opaque import opaque_sites
        dyn = opaque_sites(tr)
        if dyn:
            # the attributes combined with the data are computed names (getattr over a table): every statistic fit
            # derives from the data by a reduction may be among them
            for stt in ff.statements():
                tg = stt.targets[0] if isinstance(stt, ast.Assign) and len(stt.targets) == 1 else stt.target if isinstance(stt, ast.AnnAssign) and stt.value is not None else None
                if tg is not None and is_self_attr(tg) and any(o.kind == "method" and o.name in REDUCE for p in ff.paths(stt.value, spine_only=True)
                                                                if p.atom.kind == "param" and p.atom.name == fdata for o in p.ops):
                    if not any(a == tg.attr for _, a in combos):
                        combos.append((dyn[0][0], tg.attr))
        for b, attr in combos:
            if True:
                # how fit computes the statistic
                for st in ff.statements():
                    tgt = st.targets[0] if isinstance(st, ast.Assign) and len(st.targets) == 1 else st.target if isinstance(st, ast.AnnAssign) and st.value is not None else None
                    if tgt is None or not is_self_attr(tgt, attr):
                        continue
                    for p in ff.paths(st.value, spine_only=True):
                        if not (p.atom.kind == "param" and p.atom.name == fdata):
                            continue
                        red = [i for i, o in enumerate(p.ops) if o.kind == "method" and o.name in REDUCE]
                        if not red:
                            continue
                        n_obl += 1
                        filled = any(o.kind == "method" and o.name in FILL for o in p.ops[red[0] + 1:])
                        chk.check(filled, "GUARD.features.unmasked", tr, b, construct=f"{cls.name}.transform: `{norm(b)}` keeps the data's own missing features",
                                  why=f"{cls.name}.transform combines the data with self.{attr} = {norm(st.value)[:60]}, which is NaN at every feature that was missing throughout the "
                                      f"training data: values that new data carry at such a feature are masked BEFORE the sanitizer compares the missing features, so transform data "
                                      f"whose missing features differ from the training data is accepted")
    chk.require(n_obl >= 1, "GUARD.features.unmasked: no stage before the sanitizer combines the data with a fitted statistic (anchor vanished)")


def _items_share_samples(chk):
    """GUARD.isolated.items - a NaN that is neither an entirely missing feature nor an entirely missing sample is refused.
    For a list input each item is sanitised on its own: a sample that is entirely missing in ONE item only is dropped
    from that item, and ``xr.concat`` along the feature dimension (outer join on the sample labels) brings it back as a
    row of NaN in that item's block - an isolated NaN nobody looks at any more.  The concatenator must therefore refuse
    items whose sample labels differ (a raise guarded by a comparison of the items' sample indexes), or join exactly."""
    pm = chk.pm
    co = pm.cls("xeofs.preprocessing.concatenator.Concatenator")
    tr = co.methods.get("transform")
    chk.require(tr is not None, "Concatenator.transform vanished")
    from .common import class_closure, effective_guards, inline_locals
    cats = [(g, c) for g in class_closure(pm, co, tr) for c in calls_in(g) if (dotted(c.func) or "").split(".")[-1] in ("concat", "merge", "combine_by_coords", "align")]
    chk.require(len(cats) >= 1, "Concatenator.transform: the concatenation call vanished")
    exact = any(const_str(call_kwargs(c).get("join")) == "exact" for _, c in cats)
    guarded = False
    for g in class_closure(pm, co, tr):
        gf = FuncFacts.of(g)
        for r in [x for x in walk_no_nested(g.node) if isinstance(x, ast.Raise)]:
            for t, pol, _ in effective_guards(gf, r):
                tt = inline_locals(gf, t)
                names = {norm(x) for x in ast.walk(tt) if isinstance(x, ast.Attribute)}
                if any(n == "self.sample_name" for n in names) or any("sample_name" in norm(x) for x in ast.walk(tt) if isinstance(x, ast.Subscript)):
                    guarded = True
                else:
                    # the compared values may be locals bound to <item>.indexes[self.sample_name] / .coords[...]
                    for nm in [x for x in ast.walk(t) if isinstance(x, ast.Name)]:
                        for p in gf.paths(nm, spine_only=False):
                            if any(o.kind == "subscript" and "sample_name" in o.name for o in p.ops):
                                guarded = True
    chk.check(exact or guarded, "GUARD.isolated.items", tr, cats[0][1], construct="list items are refused unless they hold the same samples",
              why="the items of a list are concatenated with an outer join on their sample labels and nothing compares those labels first: a sample that is entirely missing in one "
                  "item only comes back as a row of NaN in that item's block and transform returns NaN scores instead of refusing the data")


def check(chk):
    _unmasked(chk)
    _items_share_samples(chk)
    # the per-item sample deletions of a list input are reconciled by LABEL when the items are concatenated (shared with C02's concatenator rule)
    from . import c02 as _c02
    from .c01 import _Relabel as _RL
    _c02._concat_align(_RL(chk, "MIRROR.state.concat", "REINSERT.concat"))
    pm = chk.pm
    # a model fitted on data with entirely missing samples is the model of the data without them: sample counts that enter
    # a formula are counts of the samples that were decomposed (the stored 2-D matrix), not of the sanitizer's bookkeeping
    # of all labels (rule body shared with C11.NORM.pseudo)
    from . import c11 as _c11
    _rot = pm.cls("xeofs.single.eof_rotator.EOFRotator")
    _c11._pseudo_norm(_RL(chk, "NORM.pseudo", "REINSERT.count"), _rot.methods["_fit_algorithm"], _rot.qualname, missing_is_violation=False)
    san = pm.cls("xeofs.preprocessing.sanitizer.Sanitizer")
    tr = san.methods.get("transform")
    chk.require(tr is not None, "Sanitizer.transform vanished")
    ff = FuncFacts.of(tr)
    data = [p for p in tr.params if p != "self"][0]
    from .common import class_closure, closure_paths, callers_in_class, under_flag, effective_guards
    clo = class_closure(pm, san, tr)

    def cpaths(g, e, spine=False):
        """provenance of an expression of `g` (transform or a helper it calls) in terms of transform"""
        return ff.paths(e, spine_only=spine, follow=True) if g is tr else closure_paths(pm, san, tr, g, e, spine, 0, clo)

    def sites_in_tr(g, node):
        """the node(s) of transform at which `node` (in g) is executed: itself, or the calls that lead to g"""
        if g is tr:
            return [node]
        out = []
        for caller, call in callers_in_class(pm, san, g):
            if any(caller is x for x in clo):
                out += sites_in_tr(caller, call)
        return out

    def under_check_nans(g, node):
        ss = sites_in_tr(g, node)
        inner = g is not tr and under_flag(FuncFacts.of(g), node, "check_nans", True)
        return inner or (bool(ss) and all(under_flag(ff, x, "check_nans", True) for x in ss))

    def dim_of(o) -> str:
        """which dimension a reduction runs along: 'sample' / 'feature' / ''"""
        args = list(o.node.args) + [k.value for k in o.node.keywords if k.arg in ("dim", "dims", None)]
        for a in args:
            for q in ff.eval_in(o.frame, a, spine_only=True) if o.frame is not None else ff.paths(a, spine_only=True, follow=True):
                nm = q.atom.name
                if q.atom.kind == "selfattr" and nm in ("self.sample_name", "self.feature_name"):
                    return nm.split(".")[1].split("_")[0]
        return ""

    def kinds_of_paths(ps):
        """classify data-derived values: valid_features = notnull().any(sample), valid_samples = notnull().any(feature),
        features_per_sample = notnull().sum(feature)"""
        ks, attrs, ops = set(), set(), set()
        for p in ps:
            if p.atom.kind == "selfattr":
                attrs.add(p.atom.name)
            names = [(o.kind, o.name) for o in p.ops]
            for o in p.ops:
                if o.kind in ("method", "arg", "marg", "via"):
                    ops.add(o.name.split(".")[-1])
            if p.atom.kind == "param" and p.atom.name == data and ("method", "notnull") in names:
                for o in p.ops:
                    if o.kind == "method" and o.name == "any":
                        d = dim_of(o)
                        ks.add("valid_features" if d == "sample" else "valid_samples" if d == "feature" else "")
                    if o.kind == "method" and o.name == "sum" and dim_of(o) == "feature":
                        ks.add("features_per_sample")
        ks.discard("")
        return ks, attrs, ops

    all_raises = [(g, r) for g in clo for r in walk_no_nested(g.node) if isinstance(r, ast.Raise)]
    mask_raise = iso_raise = None
    for g, r in all_raises:
        gf = FuncFacts.of(g)
        # the condition that makes this raise fire: its innermost guard that is not the check_nans switch
        egs = [(t, pol, kind, raw) for (t, pol, kind), raw in zip(effective_guards(gf, r), gf.guards(r)) if kind in ("if", "early-exit") and not is_self_attr(t, "check_nans")]
        for t, pol, kind, raw in egs[-1:]:
            ks, attrs, ops = kinds_of_paths(cpaths(g, raw.test))
            if "valid_features" in ks and "self.is_valid_feature" in attrs:
                if {"equals", "identical", "array_equal", "array_equiv"} & ops:
                    # raise when NOT equal
                    if not pol:
                        mask_raise = (g, r)
                elif isinstance(t, ast.Compare):
                    mask_raise = (g, r)
            if "features_per_sample" in ks and mask_raise != (g, r):
                iso_raise = (g, r, raw)
    chk.check(mask_raise is not None and under_check_nans(*mask_raise), "GUARD.mask", mask_raise[0] if mask_raise else tr, mask_raise[1] if mask_raise else tr.node,
              construct="raise unless current valid-feature mask equals the fitted one (under check_nans)",
              why="transform data whose missing features differ from the training data is no longer refused")
    chk.check(iso_raise is not None and under_check_nans(iso_raise[0], iso_raise[1]), "GUARD.isolated", iso_raise[0] if iso_raise else tr, iso_raise[1] if iso_raise else tr.node,
              construct="raise on isolated NaNs (per-sample valid-feature count) (under check_nans)",
              why="data with isolated NaNs is no longer refused: NaNs propagate silently into the decomposition")
    # the isolated predicate compares against 0 and the number of valid features
    if iso_raise is not None:
        g, r, raw = iso_raise
        gf = FuncFacts.of(g)
        ok = False
        ps = cpaths(g, raw.test)
        isin_calls = {o.node for p in ps for o in p.ops if o.kind in ("method", "marg") and o.name == "isin"}
        if isin_calls:
            for c in isin_calls:
                owner = next((h for h in clo if any(x is c for x in ast.walk(h.node))), g)
                a0 = c.args[0] if c.args else None
                from .common import inline_locals
                a0 = inline_locals(FuncFacts.of(owner), a0) if a0 is not None else None
                if isinstance(a0, (ast.List, ast.Tuple)):
                    el = a0.elts
                    zero = any(isinstance(x, ast.Constant) and x.value == 0 for x in el)
                    tot = False
                    for x in el:
                        if isinstance(x, ast.Constant):
                            continue
                        # the element lives in `owner` (possibly as part of an inlined copy): classify by the original names it reads
                        names = [n for n in ast.walk(x) if isinstance(n, ast.Name)]
                        kx = set()
                        for nm in names:
                            orig = next((y for y in ast.walk(owner.node) if isinstance(y, ast.Name) and y.id == nm.id and isinstance(y.ctx, ast.Load)), None)
                            if orig is not None:
                                kx |= kinds_of_paths(cpaths(owner, orig))[0]
                        if "valid_features" in kx and any(isinstance(n, ast.Attribute) and n.attr == "sum" for n in ast.walk(x)):
                            tot = True
                    ok = zero and tot and len(el) == 2
        elif any(isinstance(n, ast.Compare) and isinstance(n.ops[0], (ast.Eq, ast.NotEq)) for n in ast.walk(raw.test)):
            ok = True
        chk.check(ok, "GUARD.isolated.predicate", g, r, why="a sample is acceptable only if it has no valid feature at all or all features that are valid in the data")
    # drop
    okd = False
    node = tr.node
    for g in clo:
        gf = FuncFacts.of(g)
        for c in gf.calls():
            if not (isinstance(c.func, ast.Attribute) and c.func.attr == "where" and c.args):
                continue
            ks, attrs, ops = kinds_of_paths(cpaths(g, c.args[0]))
            drop = call_kwargs(c).get("drop")
            if {"valid_features", "valid_samples"} <= ks and isinstance(drop, ast.Constant) and drop.value is True and under_check_nans(g, c):
                rets = returns_of(tr)
                okd = any(any(o.node is c for p in ff.paths(r.value, spine_only=True, follow=True) for o in p.ops) for r in rets)
                node = c
    chk.check(okd, "GUARD.drop", tr, node, construct="X.where(valid_features & valid_samples, drop=True) is returned",
              why="fully missing features/samples are no longer removed by both masks before the decomposition")
    # coords: a raise (anywhere in the closure) unless the feature coordinates are identical to the fitted ones, executed
    # before the masks are computed
    coord_raise = None
    for g, r in all_raises:
        gf = FuncFacts.of(g)
        for (t, pol, kind), raw in zip(effective_guards(gf, r), gf.guards(r)):
            ks, attrs, ops = kinds_of_paths(cpaths(g, raw.test))
            if "self.feature_coords" in attrs and ({"identical", "equals"} & ops) and not pol:
                coord_raise = (g, r)
    chk.check(coord_raise is not None, "GUARD.coords.raises", coord_raise[0] if coord_raise else san.qualname, coord_raise[1] if coord_raise else None,
              construct="_check_input_coords raises unless feature coordinates are identical to fit",
              why="data whose feature coordinates differ from the training data is no longer refused")
    if coord_raise is not None:
        sites = sites_in_tr(*coord_raise)
        # the mask computations: reductions of notnull() in transform's closure
        uses = []
        for g in clo:
            for c in FuncFacts.of(g).calls():
                if isinstance(c.func, ast.Attribute) and c.func.attr == "notnull":
                    uses += sites_in_tr(g, c)
        okdom = bool(sites) and bool(uses) and all(any(ff.cfg.dominates(ff.cfg.node_for(s0), ff.cfg.node_for(u)) for s0 in sites) for u in uses)
        # the check must actually run on the transform path (a flag parameter of a shared helper must be true here)
        chk.check(okdom, "GUARD.coords.dominates", tr, sites[0] if sites else tr.node, why="masks are computed before the coordinate check")
    else:
        chk.violation("GUARD.coords.dominates", tr, tr.node, construct="self._check_input_coords(X)", why="transform no longer checks the feature coordinates")
    # fit goes through transform
    ft = san.resolve("fit_transform")
    okf = ft is not None and any(isinstance(c.func, ast.Attribute) and c.func.attr == "transform" for c in calls_in(ft)) and any(
        isinstance(c.func, ast.Attribute) and c.func.attr == "fit" for c in calls_in(ft))
    chk.check(okf, "GUARD.fit", ft or san.qualname, None, construct="Sanitizer.fit_transform = fit(...).transform(X)",
              why="fit data no longer passes the NaN checks of transform")
    _reinsert(chk, san)
    _cross(chk)
    chk.floor("REINSERT", 30)


def _reinsert(chk, san):
    pm = chk.pm
    from .common import class_closure, resolve_sources
    want = {
        "inverse_transform_data": ("self.feature_name", "self.feature_coords"),
        "inverse_transform_components": ("self.feature_name", "self.feature_coords"),
        "inverse_transform_scores": ("self.sample_name", "self.sample_coords"),
    }
    for mname, (dim, coords) in want.items():
        fn = san.methods.get(mname)
        chk.require(fn is not None, f"Sanitizer.{mname} vanished")
        ok = False
        node = fn.node
        # the reindex may live in a private helper: resolve its arguments back to this method's call
        for g in class_closure(pm, san, fn):
            for c in calls_in(g):
                if isinstance(c.func, ast.Attribute) and c.func.attr == "reindex" and c.args and isinstance(c.args[0], ast.Dict):
                    d = c.args[0]
                    k, v = d.keys[0], d.values[0]
                    node = c if g is fn else node
                    if g is fn:
                        ksrc = resolve_sources(pm, san, g, k)
                        vsrc = resolve_sources(pm, san, g, v)
                    else:
                        # bind the helper's parameters at the call made by this very method
                        ksrc, vsrc = set(), set()
                        from ..resolve import Ctx as _Ctx
                        cx = _Ctx(pm, fn, san)
                        for call in calls_in(fn):
                            if any(t.fn is g for t in cx.resolve_call(call)):
                                from .common import bind_args as _bind
                                b = _bind(g, call)
                                gf = FuncFacts.of(g)
                                for q in gf.paths(k, spine_only=True):
                                    if q.atom.kind == "param" and q.atom.name in b:
                                        ksrc |= resolve_sources(pm, san, fn, b[q.atom.name])
                                for q in gf.paths(v, spine_only=True):
                                    if q.atom.kind == "param" and q.atom.name in b:
                                        vsrc |= resolve_sources(pm, san, fn, b[q.atom.name])
                                node = call
                    if ksrc == {dim} and vsrc == {coords}:
                        ok = True
        chk.check(ok, "REINSERT.reindex", fn, node, construct=f"Sanitizer.{mname}: reindex {dim} to {coords}",
                  why="deleted labels are no longer re-inserted (as NaN) at the coordinates remembered at fit")
    # reachability from model accessors
    targets = {san.methods[m].qualname: m for m in want}
    pairs = {"scores": "inverse_transform_scores", "components": "inverse_transform_components", "inverse_transform": "inverse_transform_data"}
    for cls in pm.concrete_models():
        for ename, sink in pairs.items():
            entry = cls.resolve(ename)
            if entry is None or entry.is_abstract:
                continue
            # models that do not implement the accessor (raise NotImplementedError) are skipped
            body_raises = any(isinstance(n, ast.Raise) for n in entry.node.body)
            if body_raises:
                continue
            hit = False
            for ctx, call, t, path in reachable(pm, Ctx(pm, entry, cls)):
                if t.fn is not None and t.fn.qualname == san.methods[sink].qualname:
                    hit = True
                    break
            # inverse_transform of models whose algorithm is not implemented
            if not hit and ename == "inverse_transform":
                alg = cls.resolve("_inverse_transform_algorithm")
                if alg is not None and any(isinstance(n, ast.Raise) for n in alg.node.body):
                    continue
            chk.check(hit, "REINSERT.reach", entry, None, context=cls.name, construct=f"{cls.name}.{ename} reaches Sanitizer.{sink}",
                      why=f"{cls.name}.{ename} no longer maps its result back through the sanitizer: deleted labels are missing instead of NaN")


def _cross(chk):
    pm = chk.pm
    base = pm.cls("xeofs.cross.base_model_cross_set.BaseModelCrossSet")
    fit = base.methods.get("fit")
    chk.require(fit is not None, "BaseModelCrossSet.fit vanished")
    joint = False
    fns = [fit]
    for ctx, call, t, path in reachable(pm, Ctx(pm, fit, pm.cls("xeofs.cross.cpcca.CPCCA"))):
        if t.fn is not None and t.fn.cls is not None and (base in t.fn.cls.mro):
            fns.append(t.fn)
    for fn in {f.qualname: f for f in fns}.values():
        for n in walk_no_nested(fn.node):
            t = norm(n) if isinstance(n, (ast.Call, ast.Compare, ast.BinOp)) else ""
            if not t:
                continue
            both_masks = "is_valid_sample" in t and "1" in t and "2" in t
            coords_cmp = isinstance(n, ast.Call) and isinstance(n.func, ast.Attribute) and n.func.attr in ("equals", "identical") and "sample_name" in t
            aligned = isinstance(n, ast.Call) and (dotted(n.func) or "").endswith(("xr.align", "xarray.align"))
            if both_masks or coords_cmp or aligned:
                joint = True
    chk.check(joint, "CROSS.joint", fit, None, construct="BaseModelCrossSet.fit: joint handling of the valid samples of X and Y",
              why="each field drops its own fully-missing samples independently and only the sample COUNT is compared afterwards: "
                  "a NaN sample at position i in X and at position j in Y leaves equal counts, so rows of X and Y are paired with the wrong partner")
