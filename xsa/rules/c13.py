"""C13 - a model survives serialisation.

SERIAL.closure    keys of ``_params`` after the ``__init__`` chain are accepted by the class's
                  constructor and contain every required parameter (``cls(**params)`` on load)
SERIAL.getparams  sklearn-style transformers: every constructor parameter is stored under an
                  attribute of the same name
SERIAL.state      an attribute (re)assigned outside ``__init__`` and read on a post-fit path is
                  serialised (``get_serialization_attrs``) or is a constructor parameter
SERIAL.protocol   marker literals read by a deserialiser are written by a serialiser
SERIAL.codec      utils/io.py: no constant subscript on a string without an emptiness guard,
                  no ``literal_eval`` whose failure is unhandled
"""

from __future__ import annotations

import ast
import os

from ..pm import PM, AnalysisError, ClassInfo, FuncInfo, const_str, dotted, is_self_attr, norm, walk_no_nested, flatten_targets
from ..prov import FuncFacts
from ..resolve import Ctx, calls_in
from ..wire import InitFlow
from ..cfg import guards_of
from .common import inline_locals, returns_of

FIXTURES = os.path.join(os.path.dirname(os.path.dirname(os.path.abspath(__file__))), "fixtures")

NON_POSTFIT = {
    "fit", "fit_transform", "serialize", "deserialize", "save", "load", "get_params", "set_params",
    "get_serialization_attrs", "check_needed_module", "compute", "get_metadata_routing",
}
SERIAL_FUNCS = {
    "serialize", "_serialize", "_serialize_data", "deserialize", "_deserialize", "_deserialize_data_node",
    "_deserialize_attrs", "insert_placeholders", "_validate_loaded_data", "compute",
}


def check(chk):
    pm = chk.pm
    _closure(chk)
    _getparams(chk)
    _state(chk)
    _protocol(chk)
    _named(chk)
    _mi_levels(chk)
    _pure_rebuild(chk)
    _alias(chk)
    _codec(chk)
    _codec_injective(chk)
    _plain_attrs(chk)
    # per-element transformers are stored under "0", "1", ...: rebuilding walks them in list order
    from .common import index_key_order
    index_key_order(chk, "SERIAL.index_keys", ("transformers",))
    chk.floor("SERIAL.closure", 29)
    chk.floor("SERIAL.getparams", 9)
    chk.floor("SERIAL.state", 35)
    chk.floor("SERIAL.protocol", 8)
    chk.floor("SERIAL.alias", 3)


def _accepted(fl: InitFlow) -> tuple[set[str], set[str]]:
    """(accepted keyword names, required names) of the outermost constructor."""
    fr = fl.frames[0]
    acc = {p for p in fr.fn.params if p != "self"}
    req = {p for p in fr.fn.params if p != "self" and p not in fr.fn.defaults()}
    cur = fr
    while cur.fn.node.args.kwarg is not None:
        nxt = [f for f in fl.frames if f.parent is cur and f.kwargs_forwarded]
        if not nxt:
            break
        cur = nxt[0]
        acc |= {p for p in cur.fn.params if p != "self"}
        # required parameters of the forwarded-to constructor that the caller does not bind
        for p in cur.fn.params:
            if p != "self" and p not in cur.fn.defaults() and cur.bindings.get(p, ("",))[0] == "user":
                req.add(p)
    return acc, req


def _closure(chk):
    pm = chk.pm
    base = pm.cls("xeofs.base_model.BaseModel")
    for cls in pm.concrete_models():
        if base not in cls.mro:
            continue  # multi.CCA has no serialisation
        fl = InitFlow(pm, cls)
        chk.require(bool(fl.frames), f"{cls.name} has no __init__")
        keys = set(fl.params_dict_items())
        acc, req = _accepted(fl)
        extra = sorted(keys - acc)
        missing = sorted(req - keys)
        init = fl.frames[0].fn
        why = ""
        if extra:
            why += f"_params keys {extra} are not accepted by {cls.name}(...): cls(**params) raises on load. "
        if missing:
            why += f"required constructor parameters {missing} are not stored in _params. "
        chk.check(not extra and not missing, "SERIAL.closure", init, None, why=why.strip(),
                  construct=f"{cls.name}: _params keys vs constructor"
                  + (f" (not accepted: {extra}; required but missing: {missing})" if (extra or missing) else ""),
                  facts={"keys": sorted(keys)})


def _transformer_classes(pm) -> list[ClassInfo]:
    t = pm.cls("xeofs.preprocessing.transformer.Transformer")
    return [c for c in pm.classes.values() if t in c.mro and c is not t]


def _getparams(chk):
    pm = chk.pm
    for cls in _transformer_classes(pm):
        fl = InitFlow(pm, cls)
        init = fl.frames[0].fn
        params = [p for p in init.params if p != "self"]
        assigned = set()
        for fr in fl.frames:
            for n in walk_no_nested(fr.fn.node):
                if isinstance(n, (ast.Assign, ast.AnnAssign)):
                    ts = n.targets if isinstance(n, ast.Assign) else [n.target]
                    for t in ts:
                        for tt in flatten_targets(t):
                            if is_self_attr(tt):
                                assigned.add(tt.attr)
        missing = [p for p in params if p not in assigned]
        chk.check(not missing, "SERIAL.getparams", init, None,
                  why=f"constructor parameters {missing} are not stored as attributes of the same name; "
                      "sklearn's get_params() (used by _serialize) raises AttributeError",
                  construct=f"{cls.name}: constructor parameters stored as attributes", facts={"params": params})


def _serial_keys(cls: ClassInfo) -> set[str] | None:
    m = cls.resolve("get_serialization_attrs")
    if m is None or m.is_abstract:
        return None
    for n in walk_no_nested(m.node):
        if isinstance(n, ast.Return) and n.value is not None:
            v = n.value
            if isinstance(v, ast.Call) and isinstance(v.func, ast.Name) and v.func.id == "dict":
                return {k.arg for k in v.keywords if k.arg}
            if isinstance(v, ast.Dict):
                ks = {const_str(k) for k in v.keys}
                if None not in ks:
                    return ks  # type: ignore
    raise AnalysisError(f"{m.qualname} does not return a literal dict (serialised attribute set unknown)")


def _assigned_attrs(fn: FuncInfo) -> set[str]:
    out = set()
    for n in walk_no_nested(fn.node):
        ts = []
        if isinstance(n, ast.Assign):
            ts = n.targets
        elif isinstance(n, (ast.AnnAssign, ast.AugAssign)):
            ts = [n.target]
        for t in ts:
            for tt in flatten_targets(t):
                if is_self_attr(tt):
                    out.add(tt.attr)
    return out


MUTATORS = {"fit", "fit_transform", "add", "compute", "set_attrs", "append", "extend", "update"}


def _mutated_attrs(fn: FuncInfo) -> set[str]:
    """attributes whose object is (re)fitted or written in place: self.a.fit(...), self.a.add(...), self.a[k] = v"""
    out = set()
    for n in walk_no_nested(fn.node):
        if isinstance(n, ast.Call) and isinstance(n.func, ast.Attribute) and n.func.attr in MUTATORS and is_self_attr(n.func.value):
            out.add(n.func.value.attr)
        elif isinstance(n, ast.Assign):
            for t in n.targets:
                if isinstance(t, ast.Subscript) and is_self_attr(t.value):
                    out.add(t.value.attr)
    return out


def _read_attrs(fn: FuncInfo) -> dict[str, ast.AST]:
    out = {}
    for n in walk_no_nested(fn.node):
        if isinstance(n, ast.Attribute) and isinstance(n.ctx, ast.Load) and is_self_attr(n):
            out.setdefault(n.attr, n)
    return out


def _self_closure(pm, cls: ClassInfo, entry: FuncInfo) -> list[FuncInfo]:
    """methods of ``cls`` reachable from ``entry`` through self-calls (dispatch on cls)."""
    seen: dict[str, FuncInfo] = {}
    stack = [entry]
    while stack:
        fn = stack.pop()
        if fn.qualname in seen:
            continue
        seen[fn.qualname] = fn
        ctx = Ctx(pm, fn, cls)
        for call in calls_in(fn):
            for t in ctx.resolve_call(call) + ctx.func_refs(call):
                if t.fn is not None and t.recv == "self" and t.fn.cls is not None and t.fn.cls in cls.mro:
                    stack.append(t.fn)
    return list(seen.values())


def _state(chk):
    pm = chk.pm
    base = pm.cls("xeofs.base_model.BaseModel")
    classes = [c for c in pm.concrete_models() if base in c.mro] + _transformer_classes(pm)
    for cls in classes:
        keys = _serial_keys(cls)
        if keys is None:
            continue
        init = cls.resolve("__init__")
        ctor_params = set(InitFlow(pm, cls).frames[0].fn.params) if init else set()
        # F: attributes (re)assigned outside __init__
        F: dict[str, FuncInfo] = {}
        for c in cls.mro:
            for m in c.methods.values():
                if m.name == "__init__" or cls.resolve(m.name) is not m:
                    continue
                for a in _assigned_attrs(m) | _mutated_attrs(m):
                    F.setdefault(a, m)
        # R: attributes read on post-fit paths
        R: dict[str, tuple[FuncInfo, ast.AST]] = {}
        names = set()
        for c in cls.mro:
            names |= set(c.methods)
        for nm in sorted(names):
            if nm.startswith("_") or nm in NON_POSTFIT:
                continue
            m = cls.resolve(nm)
            if m is None:
                continue
            for fn in _self_closure(pm, cls, m):
                for a, node in _read_attrs(fn).items():
                    R.setdefault(a, (fn, node))
        bad = []
        for a in sorted(set(F) & set(R)):
            if a in keys or a in ctor_params:
                continue
            # attribute types that are serialised as part of another object are reported too:
            bad.append(a)
        for a in bad:
            fn, node = R[a]
            chk.violation("SERIAL.state", fn, node, construct=f"{cls.name}: self.{a}",
                          why=f"self.{a} is assigned in {F[a].qualname} (outside __init__), read after fit in {fn.qualname}, "
                              f"but is neither in get_serialization_attrs() nor a constructor parameter: a loaded model loses it",
                          context=cls.name)
        chk.ok("SERIAL.state", cls.qualname, None, construct=f"{cls.name}: fitted state read after fit is serialised",
               facts={"fitted_attrs": sorted(F), "serialised": sorted(keys)}, nontrivial=bool(F))


# Frozen grouping of the (de)serialisation protocols, one reason each: a marker read by a function of a
# group must be written by another function of the same group.
PROTOCOL_GROUPS = {
    # model tree: BaseModel.serialize writes, _deserialize_attrs/deserialize read
    "model": {"BaseModel.serialize", "BaseModel._deserialize_attrs", "BaseModel.deserialize"},
    # transformer trees: Transformer._serialize/_serialize_data write, _deserialize/_deserialize_data_node read;
    # Preprocessor.serialize/deserialize wrap them
    "transformer": {
        "Transformer._serialize", "Transformer._serialize_data", "Transformer._deserialize", "Transformer._deserialize_data_node",
        "Transformer.serialize", "Transformer.deserialize", "Preprocessor.serialize", "Preprocessor.deserialize",
    },
    # data nodes: DataContainer.serialize writes; DataContainer.deserialize, insert_placeholders, BaseModel.compute and
    # _validate_loaded_data read the per-node flags
    "container": {
        "DataContainer.serialize", "DataContainer.deserialize", "DataContainer.compute", "insert_placeholders", "BaseModel.compute",
        "BaseModel._validate_loaded_data", "CPCCA._validate_loaded_data",
    },
}


def _group_of(fn: FuncInfo) -> str | None:
    label = f"{fn.cls.name}.{fn.name}" if fn.cls is not None else fn.name
    for g, members in PROTOCOL_GROUPS.items():
        if label in members:
            return g
    return None


def _protocol(chk):
    pm = chk.pm
    funcs = [f for f in pm.all_functions() if f.name in SERIAL_FUNCS and f.parent is None]
    chk.require(len(funcs) >= 12, "serialisation functions vanished")

    def attrs_recv(e):  # x.attrs
        return isinstance(e, ast.Attribute) and e.attr == "attrs"

    writes: dict[str, dict[str, set[str]]] = {g: {} for g in PROTOCOL_GROUPS}
    reads: list[tuple[FuncInfo, ast.AST, str, str]] = []
    for fn in funcs:
        g = _group_of(fn)
        if g is None:
            raise AnalysisError(
                f"serialisation function {fn.qualname} is not classified in PROTOCOL_GROUPS; read it and extend the table"
            )
        w = writes[g]

        def wr(lit):
            if lit:
                w.setdefault(lit, set()).add(fn.qualname)

        for n in walk_no_nested(fn.node):
            if isinstance(n, ast.Assign):
                for t in n.targets:
                    if isinstance(t, ast.Subscript) and attrs_recv(t.value):
                        wr(const_str(t.slice))
                        wr(const_str(n.value))
                    if attrs_recv(t):
                        val = inline_locals(FuncFacts.of(fn), n.value)
                        if isinstance(val, ast.Dict):
                            for k, v in zip(val.keys, val.values):
                                wr(const_str(k))
                                wr(const_str(v))
                        elif isinstance(val, ast.Call) and isinstance(val.func, ast.Name) and val.func.id == "dict":
                            for kw in val.keywords:
                                wr(kw.arg)
                                wr(const_str(kw.value))
            if isinstance(n, ast.Call) and isinstance(n.func, ast.Attribute) and n.func.attr == "update" and attrs_recv(n.func.value):
                for a in n.args:
                    a = inline_locals(FuncFacts.of(fn), a)
                    if isinstance(a, ast.Dict):
                        for k, v in zip(a.keys, a.values):
                            wr(const_str(k))
                            wr(const_str(v))
                for kw in n.keywords:
                    wr(kw.arg)
                    wr(const_str(kw.value))
            if isinstance(n, ast.keyword) and n.arg == "attrs":
                v = inline_locals(FuncFacts.of(fn), n.value)
                if isinstance(v, ast.Dict):
                    for k in v.keys:
                        wr(const_str(k))
                elif isinstance(v, ast.Call) and isinstance(v.func, ast.Name) and v.func.id == "dict":
                    for kw in v.keywords:
                        wr(kw.arg)
            if isinstance(n, ast.Compare) and len(n.ops) == 1 and isinstance(n.ops[0], (ast.Eq, ast.NotEq)):
                for side in (n.left, n.comparators[0]):
                    sx = const_str(side)
                    if sx and (sx.startswith("_is_") or sx == "params"):
                        reads.append((fn, n, sx, g))
            if isinstance(n, ast.Subscript) and isinstance(n.ctx, ast.Load) and attrs_recv(n.value):
                sx = const_str(n.slice)
                if sx:
                    reads.append((fn, n, sx, g))
            if isinstance(n, ast.Call) and isinstance(n.func, ast.Attribute) and n.func.attr == "get" and attrs_recv(n.func.value) and n.args:
                sx = const_str(n.args[0])
                if sx:
                    reads.append((fn, n, sx, g))
    readers_of: dict[tuple[str, str], set[str]] = {}
    for fn, node, lit, g in reads:
        readers_of.setdefault((g, lit), set()).add(fn.qualname)
    for fn, node, lit, g in reads:
        # genuine writers: functions of the group that write the marker without also reading it
        ws = {q for q in writes[g].get(lit, set()) if q not in readers_of.get((g, lit), set())}
        chk.check(bool(ws), "SERIAL.protocol", fn, node,
                  why=f"deserialisation reads the marker {lit!r} which no serialiser of the '{g}' protocol writes",
                  facts={"marker": lit, "group": g, "written_by": sorted(ws)})


def _named(chk, rule="SERIAL.named"):
    """`Transformer._serialize_data` decides by `data.name in data.coords` whether a state array is a coordinate (stored as
    the coordinate itself) or a data variable.  An array COMPUTED from a coordinate (xr.apply_ufunc on `data.coords[dim]`,
    arithmetic on it) keeps the coordinate's name unless it is renamed: it would be written as that coordinate and come
    back from deserialisation labelled with its own values.  Every function that returns such an array names it."""
    pm = chk.pm
    ser = pm.cls("xeofs.preprocessing.transformer.Transformer").methods.get("_serialize_data")
    def _by_name(fn):
        return fn is not None and any(isinstance(n, ast.Compare) and len(n.ops) == 1 and isinstance(n.ops[0], (ast.In, ast.NotIn))
                                      and isinstance(n.left, ast.Attribute) and n.left.attr == "name"
                                      and isinstance(n.comparators[0], ast.Attribute) and n.comparators[0].attr == "coords" for n in walk_no_nested(fn.node))

    chk.require(_by_name(ser),
                "Transformer._serialize_data no longer tells coordinates from variables by `name in coords` (re-read the rule)")
    n = 0
    for fn in pm.all_functions():
        if not fn.module.name.startswith(("xeofs.utils.xarray_utils", "xeofs.preprocessing")):
            continue
        ff = FuncFacts.of(fn)
        for r in [x for x in walk_no_nested(fn.node) if isinstance(x, ast.Return) and x.value is not None]:
            ps = ff.paths(r.value, spine_only=True)
            derived = [p for p in ps if p.has_op("attr", "coords") and p.has_op("subscript") and any(o.kind in ("arg", "binop") for o in p.ops[[i for i, o in enumerate(p.ops) if o.kind == "attr" and o.name == "coords"][0]:])]
            if not derived:
                continue
            n += 1
            named = any(p.has_op("method", "rename") for p in derived)
            if isinstance(r.value, ast.Name):
                for st in walk_no_nested(fn.node):
                    if isinstance(st, ast.Assign) and isinstance(st.targets[0], ast.Attribute) and st.targets[0].attr == "name" \
                            and isinstance(st.targets[0].value, ast.Name) and st.targets[0].value.id == r.value.id and isinstance(st.value, ast.Constant) \
                            and ff.cfg.dominates(ff.cfg.node_for(st), ff.cfg.node_for(r)):
                        named = True
            for p in derived:
                if p.atom.kind == "call" and p.atom.name.endswith("DataArray") and isinstance(p.atom.node, ast.Call) and any(k.arg == "name" for k in p.atom.node.keywords):
                    named = True
            chk.check(named, rule, fn, r, construct=f"{fn.qualname}: array computed from a coordinate is given its own name",
                      why="the returned array is computed from a coordinate variable and keeps that coordinate's name: the serialiser (name in coords) stores it as "
                          "the coordinate, and the deserialised transformer carries the array's VALUES as its labels - scaling then aligns on nothing")
    chk.require(n >= 1, "no function returns an array computed from a coordinate (anchor of SERIAL.named vanished)")
    # arrays the USER hands in and the transformer keeps as state (weights) carry whatever name the user's computation left
    # on them - typically the name of the coordinate they were computed from (np.sqrt(np.cos(np.deg2rad(X.lat))) is called
    # 'lat').  Stored under that name they are serialised as that coordinate: the state array is renamed at intake.
    from .common import class_closure
    m = 0
    for cls in pm.classes.values():
        gsa = cls.methods.get("get_serialization_attrs")
        fit = cls.methods.get("fit")
        if gsa is None or fit is None or not cls.qualname.startswith("xeofs.preprocessing"):
            continue
        listed = {k.arg for r in returns_of(gsa) if isinstance(r.value, ast.Call) for k in r.value.keywords if k.arg} | \
            {const_str(k) for r in returns_of(gsa) if isinstance(r.value, ast.Dict) for k in r.value.keys if k is not None and const_str(k)}
        ff = FuncFacts.of(fit)
        data_param = [p for p in fit.params if p != "self"][:1]
        for st in ff.statements():
            tgt = st.targets[0] if isinstance(st, ast.Assign) and len(st.targets) == 1 else st.target if isinstance(st, ast.AnnAssign) and st.value is not None else None
            if tgt is None or not is_self_attr(tgt) or tgt.attr not in listed:
                continue
            ps = [p for p in ff.paths(st.value, spine_only=True, follow=True) if p.atom.kind == "param" and p.atom.name not in data_param
                  and p.atom.name not in ("sample_dims", "feature_dims", "self") and not any(o.kind in ("attr",) and o.name in ("coords", "dims", "sizes", "indexes") for o in p.ops)]
            ps = [p for p in ps if not any(o.kind == "arg" for o in p.ops)]
            if not ps:
                continue
            m += 1
            renamed = any(any(o.kind == "method" and o.name == "rename" for o in p.ops) for p in ps)
            chk.check(renamed, rule, fit, st, construct=f"{cls.name}: the user's `{ps[0].atom.name}` kept as self.{tgt.attr} is renamed at intake",
                      why=f"{cls.name}.fit keeps the user's `{ps[0].atom.name}` as the state array self.{tgt.attr} under the name it arrives with; weights computed from a coordinate are named "
                          "like that coordinate, the serialiser (name in coords) writes them as the coordinate, and after compute() / load the scaler multiplies by an array labelled with "
                          "its own values")
    chk.require(m >= 1, "SERIAL.named: no user-provided array kept as serialised state found (anchor vanished)")


def _mi_levels(chk, rule="SERIAL.multiindex.levels"):
    """a MultiIndex coordinate is stored flat and rebuilt on load from the level names recorded next to it: those names are
    the index's own level names (`to_index().names`), not whatever coordinates happen to lie along the dimension - a
    non-index coordinate recorded as a level becomes an extra dimension after unstacking"""
    pm = chk.pm
    ser = pm.cls("xeofs.preprocessing.transformer.Transformer").methods.get("_serialize_data")
    des = pm.cls("xeofs.preprocessing.transformer.Transformer").methods.get("_deserialize_data_node")
    chk.require(ser is not None, "Transformer._serialize_data vanished")
    ff = FuncFacts.of(ser)
    writes = [st for st in walk_no_nested(ser.node) if isinstance(st, ast.Assign) and isinstance(st.targets[0], ast.Subscript) and isinstance(st.targets[0].value, ast.Name)
              and "multiindex" in st.targets[0].value.id.lower()]
    if not writes:
        # the mapping may be built in one expression
        writes = [st for st in walk_no_nested(ser.node) if isinstance(st, ast.Assign) and isinstance(st.targets[0], ast.Name) and "multiindex" in st.targets[0].id.lower()
                  and not isinstance(st.value, ast.Dict) or False]
    chk.require(len(writes) >= 1, "Transformer._serialize_data: recording of MultiIndex level names vanished")
    for st in writes:
        ps = ff.paths(st.value, spine_only=False)
        from_index = any(p.has_op("attr", "names") and (p.has_op("method", "to_index") or p.has_op("attr", "indexes") or p.has_op("method", "get_index")) for p in ps)
        from_coords = any(p.has_op("attr", "coords") and not p.has_op("attr", "names") for p in ps)
        chk.check(from_index and not from_coords, rule, ser, st, construct="recorded MultiIndex levels = names of the index",
                  why="the level names recorded for a MultiIndex coordinate are not taken from the index itself (to_index().names): any other coordinate along that "
                      "dimension is rebuilt as an index level on load, and results unstack into an extra dimension")
    if des is not None:
        ok = any(isinstance(c.func, ast.Attribute) and c.func.attr == "set_index" for c in calls_in(des)) or any(
            isinstance(c.func, ast.Attribute) and c.func.attr == "set_index" for m in pm.cls("xeofs.preprocessing.transformer.Transformer").methods.values() for c in calls_in(m))
        chk.check(ok, rule + ".rebuild", des, des.node, construct="deserialisation rebuilds the MultiIndexes (set_index)", why="recorded MultiIndexes are not rebuilt on load")


def _pure_rebuild(chk):
    """rebuilding a model from its tree restores what was saved and nothing else: the post-compute hook (mode re-sorting,
    `sorted = True`) belongs to compute(), not to deserialisation - otherwise a model serialised before compute() comes
    back in another mode order than the model it was made from"""
    pm = chk.pm
    base = pm.cls("xeofs.base_model.BaseModel")
    hooks = ("_post_compute", "_sort_by_variance", "compute")
    n = 0
    for cls in [c for c in pm.classes.values() if base in c.mro]:
        for nm in ("deserialize", "_deserialize_attrs", "load"):
            m = cls.methods.get(nm)
            if m is None:
                continue
            n += 1
            bad = [c for c in calls_in(m) if isinstance(c.func, ast.Attribute) and c.func.attr in hooks and not (nm == "load" and c.func.attr == "compute")]
            chk.check(not bad, "SERIAL.pure", m, bad[0] if bad else m.node, construct=f"{cls.name}.{nm} only restores saved state",
                      why=f"{cls.name}.{nm} runs {bad[0].func.attr if bad else ''}(): a rebuilt model is finalised (re-sorted) although the saved one was not - "
                          "results of the two differ by a permutation of the modes")
    chk.require(n >= 2, "BaseModel deserialisation entry points vanished")


def _alias(chk):
    """a mutable object stored under several attributes/keys inside a loop must be created inside that loop"""
    pm = chk.pm
    n = 0
    for fn in pm.all_functions():
        if fn.name not in SERIAL_FUNCS or fn.parent is not None:
            continue
        ff = FuncFacts.of(fn)
        for loop in [x for x in walk_no_nested(fn.node) if isinstance(x, ast.For)]:
            inner = {id(x) for x in ast.walk(loop)}
            for c in [x for x in ast.walk(loop) if isinstance(x, ast.Call)]:
                val = None
                if isinstance(c.func, ast.Name) and c.func.id == "setattr" and len(c.args) == 3:
                    val = c.args[2]
                if val is None or not isinstance(val, ast.Name):
                    continue
                n += 1
                defs = ff.rd.reaching(val.id, ff.node_of(c))
                outside = [d for d in defs if d.kind == "assign" and isinstance(d.value, (ast.Dict, ast.List, ast.Set)) and id(d.stmt) not in inner]
                mutated = any(
                    isinstance(x, ast.Assign) and any(isinstance(t, ast.Subscript) and isinstance(t.value, ast.Name) and t.value.id == val.id for t in x.targets)
                    for x in ast.walk(loop)
                ) or any(
                    isinstance(x, ast.Call) and isinstance(x.func, ast.Attribute) and x.func.attr in ("append", "update", "extend", "setdefault")
                    and isinstance(x.func.value, ast.Name) and x.func.value.id == val.id for x in ast.walk(loop)
                )
                chk.check(not (outside and mutated), "SERIAL.alias", fn, c,
                          why=f"the container {val.id!r} is created once before the loop, filled inside it and stored under every key: the restored "
                              "attributes alias one object (e.g. coords_from_fit and coords_from_transform), so a later transform changes fitted state")
    chk.info["alias_sites"] = n


def _codec_sites(tree: ast.AST, fn_name_filter=None):
    """yield (funcdef, node, kind, ok, why) for codec obligations in a module tree."""
    for f in ast.walk(tree):
        if not isinstance(f, ast.FunctionDef):
            continue
        for n in walk_no_nested(f):
            if isinstance(n, ast.Subscript) and isinstance(n.ctx, ast.Load) and isinstance(n.value, ast.Name):
                idx = n.slice
                if isinstance(idx, ast.UnaryOp) and isinstance(idx.operand, ast.Constant):
                    is_const = isinstance(idx.operand.value, int)
                else:
                    is_const = isinstance(idx, ast.Constant) and isinstance(idx.value, int)
                if not is_const:
                    continue
                var = n.value.id
                gs = guards_of(f, n)
                is_str = any(_isinstance_str(g.test, var) and g.polarity for g in gs)
                if not is_str:
                    continue
                guarded = any(_nonempty_test(g.test, var, g.polarity) for g in gs)
                yield f, n, "subscript", guarded, (
                    f"{var}[{norm(idx)}] on a string that may be empty (no emptiness test dominates it): IndexError for ''"
                )
            if isinstance(n, ast.Call) and (dotted(n.func) or "").split(".")[-1] == "literal_eval":
                ok = _in_try_catching(f, n, {"ValueError", "SyntaxError"})
                yield f, n, "literal_eval", ok, (
                    "literal_eval is applied to a user-controlled attribute string without handling its failure "
                    "(the decode predicate does not imply decodability, e.g. '[m/s]')"
                )


def _isinstance_str(test, var):
    return (
        isinstance(test, ast.Call) and isinstance(test.func, ast.Name) and test.func.id == "isinstance"
        and len(test.args) == 2 and isinstance(test.args[0], ast.Name) and test.args[0].id == var
        and "str" in norm(test.args[1])
    )


def _nonempty_test(test, var, polarity):
    if isinstance(test, ast.Name) and test.id == var and polarity:
        return True
    if isinstance(test, ast.Compare):
        t = norm(test)
        if f"len({var})" in t and polarity:
            return True
        if t in (f"{var} != ''", f"'' != {var}") and polarity:
            return True
        if t in (f"{var} == ''", f"'' == {var}") and not polarity:
            return True
    if isinstance(test, ast.UnaryOp) and isinstance(test.op, ast.Not) and isinstance(test.operand, ast.Name) and test.operand.id == var and not polarity:
        return True
    return False


def _in_try_catching(f, node, needed: set[str]) -> bool:
    for t in ast.walk(f):
        if isinstance(t, ast.Try) and any(any(x is node for x in ast.walk(s)) for s in t.body):
            caught = set()
            for h in t.handlers:
                if h.type is None:
                    return True
                for x in ast.walk(h.type):
                    if isinstance(x, ast.Name):
                        caught.add(x.id)
            if "Exception" in caught or "BaseException" in caught or needed <= caught:
                return True
    return False


def _module_closure(mod, f):
    """f and the module-level functions of `mod` it calls, transitively."""
    seen, todo = [], [f]
    while todo:
        g = todo.pop()
        if g in seen:
            continue
        seen.append(g)
        for c in walk_no_nested(g.node):
            if isinstance(c, ast.Call) and isinstance(c.func, ast.Name) and c.func.id in mod.functions:
                todo.append(mod.functions[c.func.id])
    return seen


def _under_pred(g: FuncInfo, st: ast.AST, pname: str) -> bool:
    """st executes only when a call of the module function `pname` returned true (negations folded, conjunctions split)"""
    from .common import atomic_conditions
    for t, pol in atomic_conditions(FuncFacts.of(g), st):
        if pol and isinstance(t, ast.Call) and isinstance(t.func, ast.Name) and t.func.id == pname:
            return True
    return False


def _decoder_predicates(mod, dec):
    """module functions called in a condition that guards the decoder's write-back of a decoded attribute"""
    preds = []
    for g in _module_closure(mod, dec):
        for st in walk_no_nested(g.node):
            if not (isinstance(st, ast.Assign) and isinstance(st.targets[0], ast.Subscript) and isinstance(st.targets[0].value, ast.Attribute)
                    and st.targets[0].value.attr == "attrs"):
                continue
            for name in mod.functions:
                if _under_pred(g, st, name) and mod.functions[name] not in preds:
                    preds.append(mod.functions[name])
    return preds


def _codec_injective(chk):
    """SERIAL.codec.injective - the netCDF attribute codec must be a bijection on what users can store.  The reader decodes
    every string its predicate P accepts (by SHAPE: looks like a dict / list / bool / None literal).  The writer encodes
    dict / list / bool / None as such strings.  A user string of that shape ('[1, 2]', 'True', 'None') therefore comes back
    as another VALUE unless the writer escapes exactly the strings P accepts (it must consult P - the reader's own predicate -
    on the values it does not encode), or P keys on a marker constant that the writer puts in front of what it encodes."""
    mod = chk.pm.modules.get("xeofs.utils.io")
    chk.require(mod is not None, "xeofs/utils/io.py vanished")
    enc, dec = mod.functions.get("_sanitize_attrs_nc"), mod.functions.get("_desanitize_attrs_nc")
    chk.require(enc is not None and dec is not None, "utils/io.py: netCDF attribute encoder / decoder vanished")
    preds = _decoder_predicates(mod, dec)
    chk.require(bool(preds), "utils/io.py: the decoder's predicate (a module function guarding the decoded write-back) was not found")
    enc_fns = _module_closure(mod, enc)
    enc_consts = {n.value for g in enc_fns if g not in preds for n in ast.walk(g.node) if isinstance(n, ast.Constant) and isinstance(n.value, str)}
    for P in preds:
        # the writer's attribute write-backs, per level (node / variable); the escaped ones are those under a positive P(...) guard
        lv_all, lv_esc = set(), set()
        for g in enc_fns:
            if g is P:
                continue
            for st in walk_no_nested(g.node):
                if not (isinstance(st, ast.Assign) and isinstance(st.targets[0], ast.Subscript) and isinstance(st.targets[0].value, ast.Attribute)
                        and st.targets[0].value.attr == "attrs"):
                    continue
                lv = "variable" if isinstance(st.targets[0].value.value, ast.Subscript) else "node"
                lv_all.add(lv)
                if _under_pred(g, st, P.name):
                    lv_esc.add(lv)
        consults = bool(lv_esc) and lv_esc == lv_all
        # marker form: P accepts only strings starting with ONE constant of >= 4 characters that the writer also mentions
        starts = [c for c in ast.walk(P.node) if isinstance(c, ast.Call) and isinstance(c.func, ast.Attribute) and c.func.attr == "startswith"]
        markers = {const_str(c.args[0]) for c in starts if c.args and const_str(c.args[0])}
        marker = len(starts) == 1 and len(markers) == 1 and len(next(iter(markers))) >= 4 and next(iter(markers)) in enc_consts
        chk.check(consults or marker, "SERIAL.codec.injective", enc, enc.node,
                  construct=f"{enc.name} escapes the strings that {P.name} accepts",
                  why=f"{dec.name} decodes every string that {P.name} accepts by its shape, but {enc.name} writes user strings as they are: an attribute "
                      "string that looks like a literal ('[1, 2]', 'True', 'None') comes back as a list / bool / None after a netCDF round trip - the writer "
                      f"must escape the strings {P.name} accepts (or encode behind a marker the reader keys on)",
                  facts={"predicate": P.name, "encoder_closure": [g.name for g in enc_fns], "levels_written": sorted(lv_all), "levels_escaped": sorted(lv_esc)})


def _plain_attrs(chk):
    """SERIAL.plain - what a transformer lists in get_serialization_attrs() is written either as a data node (DataArray /
    Dataset / dict of them) or as a node attribute, and node attributes must survive json.dumps (zarr) and the netCDF
    attribute codec: str / number / bool / None / list / tuple / dict of those.  ``<obj>.dims`` (and ``.sizes``) of a value
    that may be a Dataset is a mapping proxy, not a tuple: stored raw it makes json.dumps raise for every model fitted on
    a Dataset.  The value must be converted (tuple(...) / list(...) / dict(...))."""
    pm = chk.pm
    dt_mod = pm.modules.get("xeofs.utils.data_types")
    chk.require(dt_mod is not None, "xeofs/utils/data_types.py vanished")
    # aliases that admit a Dataset
    ds_alias = {"Dataset", "DataSet"}
    changed = True
    while changed:
        changed = False
        for name, val in dt_mod.assigns.items():
            if name in ds_alias:
                continue
            names = {n.id for n in ast.walk(val) if isinstance(n, ast.Name)} | {n.attr for n in ast.walk(val) if isinstance(n, ast.Attribute)}
            if names & ds_alias and not any(isinstance(n, ast.Subscript) and isinstance(n.value, ast.Name) and n.value.id == "list" for n in ast.walk(val)):
                ds_alias.add(name)
                changed = True
    n = 0
    for cls in pm.classes.values():
        gsa = cls.methods.get("get_serialization_attrs")
        if gsa is None:
            continue
        listed = set()
        for r in returns_of(gsa):
            if isinstance(r.value, ast.Call) and isinstance(r.value.func, ast.Name) and r.value.func.id == "dict":
                listed |= {k.arg for k in r.value.keywords if k.arg}
            elif isinstance(r.value, ast.Dict):
                listed |= {const_str(k) for k in r.value.keys if k is not None and const_str(k)}
        for m in cls.methods.values():
            may_ds = set()
            a = m.node.args
            for arg in a.posonlyargs + a.args + a.kwonlyargs:
                ann = {x.id for x in ast.walk(arg.annotation) if isinstance(x, ast.Name)} if arg.annotation is not None else None
                if ann is None or ann & ds_alias:
                    may_ds.add(arg.arg)
            may_ds.discard("self")
            for st in walk_no_nested(m.node):
                tgt = st.targets[0] if isinstance(st, ast.Assign) and len(st.targets) == 1 else st.target if isinstance(st, ast.AnnAssign) and st.value is not None else None
                if tgt is None or not is_self_attr(tgt) or tgt.attr not in listed:
                    continue
                v = st.value
                n += 1
                raw = isinstance(v, ast.Attribute) and v.attr in ("dims", "sizes", "indexes", "xindexes", "data_vars", "variables") and isinstance(v.value, ast.Name) and v.value.id in may_ds
                chk.check(not raw, "SERIAL.plain", m, st, construct=f"{cls.name}: self.{tgt.attr} holds a plain value",
                          why=f"{cls.name}.{m.name} stores `{norm(v)}` as it is; for a Dataset this is a mapping proxy, which is written as a node attribute and makes the JSON "
                              "encoding of the attributes (zarr) raise for every model fitted on a Dataset - convert it (tuple(...))")
    chk.require(n >= 10, f"SERIAL.plain: only {n} assignments of serialised attributes found")


def _codec(chk):
    pm = chk.pm
    # positive fixture: the rule must fire on the frozen bad example on every run
    fx = os.path.join(FIXTURES, "c13_codec_bad.py")
    tree = ast.parse(open(fx).read())
    fired = {k for _, _, k, ok, _ in _codec_sites(tree) if not ok}
    if fired != {"subscript", "literal_eval"}:
        raise AnalysisError(f"C13 codec rule self-check failed on fixture (fired: {sorted(fired)})")
    mod = pm.modules.get("xeofs.utils.io")
    chk.require(mod is not None, "xeofs/utils/io.py vanished")
    n = 0
    for mname, m in pm.modules.items():
        for f, node, kind, ok, why in _codec_sites(m.tree):
            if kind == "subscript" and mname != "xeofs.utils.io":
                continue
            fn = next((x for x in pm.all_functions() if x.node is f), None)
            chk.check(ok, f"SERIAL.codec.{kind}", fn or mname, node, why=why)
            n += 1
    # the decoder must exist at all
    dec = [f for f in mod.functions.values() if any(
        isinstance(c, ast.Call) and (dotted(c.func) or "").split(".")[-1] == "literal_eval" for c in walk_no_nested(f.node))]
    chk.require(bool(dec), "utils/io.py: no literal_eval decoder found (anchor vanished)")
    chk.ok("SERIAL.codec.fixture", "xsa/fixtures/c13_codec_bad.py", None, construct="positive fixture fires", nontrivial=False)
    # the codec is APPLIED on both levels (node attributes and variable attributes) in both directions: every
    # encoder / decoder walks `<x>.attrs.items()` and writes the converted value back under the same key
    from .common import class_closure
    dec_preds = _decoder_predicates(mod, mod.functions["_desanitize_attrs_nc"]) if "_desanitize_attrs_nc" in mod.functions else []
    for fname, conv in (("_sanitize_attrs_nc", ("str", "_sanitize", "repr", "json.dumps")), ("_desanitize_attrs_nc", ("_desanitize", "literal_eval", "json.loads"))):
        f = mod.functions.get(fname)
        chk.require(f is not None, f"utils/io.py: {fname} vanished")
        fns = [f] + [g for g in mod.functions.values() if g is not f and any(isinstance(c, ast.Call) and isinstance(c.func, ast.Name) and c.func.id == g.name for c in walk_no_nested(f.node))]
        levels = set()
        for g in fns:
            gf = FuncFacts.of(g)
            for st in walk_no_nested(g.node):
                if not (isinstance(st, ast.Assign) and isinstance(st.targets[0], ast.Subscript) and isinstance(st.targets[0].value, ast.Attribute) and st.targets[0].value.attr == "attrs"):
                    continue
                v = st.value
                if not (isinstance(v, ast.Call) and (dotted(v.func) or "").split(".")[-1] in [c.split(".")[-1] for c in conv]):
                    continue
                # the escape of look-alike strings (a write under the reader's own predicate) is not the encoding of a value
                if fname == "_sanitize_attrs_nc" and any(_under_pred(g, st, P.name) for P in dec_preds):
                    continue
                # which attrs: of the node itself or of a variable of the node (node[v].attrs)
                recv = st.targets[0].value.value
                levels.add("variable" if isinstance(recv, ast.Subscript) else "node")
                # written back under the key that was read
                key = st.targets[0].slice
                kp = gf.paths(key, spine_only=True)
                ok_key = any(p.has_op("iter") or p.atom.kind in ("loopvar", "name", "param") for p in kp)
                chk.check(ok_key, "SERIAL.codec.applied.key", g, st, why="the converted attribute is not written back under the key it was read from")
        # a helper shared by both levels is called once per level
        if len(fns) > 1 and levels:
            calls = [c for c in walk_no_nested(f.node) if isinstance(c, ast.Call) and isinstance(c.func, ast.Name) and c.func.id in {g.name for g in fns[1:]}]
            argkinds = {"variable" if any(isinstance(x, ast.Subscript) for a in c.args for x in ast.walk(a)) else "node" for c in calls}
            levels = argkinds if len(argkinds) == 2 else levels
        chk.check(levels == {"node", "variable"}, "SERIAL.codec.applied", f, f.node, construct=f"{fname} converts node-level and variable-level attributes",
                  why=f"{fname} converts only the {sorted(levels)} attributes: the other level is written / read back unconverted, so a loaded model carries "
                      "'True' / '[...]' strings where the saved one had values")
