"""C05 - out-of-sample transform is a per-sample map labelled by the new data (structural clauses).

UNSEEN.path     from every transform/predict entry point of every concrete model no call path reaches
                a method that restores labels from sample coordinates remembered at fit
UNSEEN.pure     the ``*_unseen`` label-restoring methods never read fit-time sample coordinates
PRECEDE         a stage object's ``inverse_transform_scores_unseen`` (which reads bookkeeping written
                by ``transform``) is preceded by ``transform`` of the same object in the same call
PERSAMPLE       on transform paths no statistic of the new data along the sample dimension is fed
                back into that data arithmetically
"""

from __future__ import annotations

import ast

from ..pm import AnalysisError, ClassInfo, FuncInfo, const_str, dotted, is_self_attr, norm, walk_no_nested, flatten_targets
from ..prov import FuncFacts
from ..resolve import Ctx, Target, calls_in, reachable
from .common import bind_args, call_kwargs, static_truth

SCORE_RESTORERS = ("inverse_transform_scores", "inverse_transform_scores_unseen")
REDUCTIONS = {
    "mean", "std", "var", "sum", "cumsum", "cumprod", "prod", "max", "min", "median", "shift", "diff", "rolling",
    "quantile", "rank", "cumulative", "coarsen", "ffill", "bfill", "interpolate_na", "roll",
}


def transformer_classes(pm) -> list[ClassInfo]:
    t = pm.cls("xeofs.preprocessing.transformer.Transformer")
    return [c for c in pm.classes.values() if t in c.mro and c is not t]


def fit_sample_state(pm, cls: ClassInfo) -> set[str]:
    """attributes that ``fit`` fills from coordinates of the fit data (derived, not a table)"""
    out = set()
    fit = cls.resolve("fit")
    if fit is None or fit.cls is None or fit.is_abstract:
        return out
    ff = FuncFacts.of(fit)
    data = [p for p in fit.params if p != "self"][0]
    for n in walk_no_nested(fit.node):
        if isinstance(n, ast.Assign):
            for t in n.targets:
                tgt = None
                if is_self_attr(t):
                    tgt = t.attr
                elif isinstance(t, ast.Subscript) and is_self_attr(t.value):
                    tgt = t.value.attr
                if tgt is None:
                    continue
                for p in ff.paths(n.value, spine_only=True):
                    if p.atom.kind == "param" and p.atom.name == data and p.has_op("attr", "coords"):
                        # which dimension: sample-like unless provably the feature name
                        subs = [o for o in p.ops if o.kind == "subscript"]
                        feature_only = bool(subs) and all("feature" in o.name for o in subs[:1])
                        if not feature_only:
                            out.add(tgt)
    return out


def reads_in(pm, cls: ClassInfo, fn: FuncInfo, consts: dict[str, object], depth=0, seen=None) -> set[str]:
    """self attributes read by ``fn`` and the same-class helpers it calls; ``match`` on a parameter
    with a known constant argument only follows the matching case"""
    seen = seen if seen is not None else set()
    key = (fn.qualname, tuple(sorted(consts.items())))
    if key in seen or depth > 6:
        return set()
    seen.add(key)
    out: set[str] = set()
    ctx = Ctx(pm, fn, cls)

    def visit(stmts):
        for st in stmts:
            if isinstance(st, ast.Match) and isinstance(st.subject, ast.Name) and st.subject.id in consts:
                val = consts[st.subject.id]
                for case in st.cases:
                    pat = case.pattern
                    if isinstance(pat, ast.MatchValue) and isinstance(pat.value, ast.Constant):
                        if pat.value.value == val:
                            visit(case.body)
                            break
                    elif isinstance(pat, ast.MatchAs) and pat.pattern is None:
                        visit(case.body)
                        break
                continue
            for n in walk_no_nested(st) if not isinstance(st, (ast.If, ast.For, ast.While, ast.With, ast.Try, ast.Match)) else []:
                handle(n)
            if isinstance(st, ast.If) and static_truth(st.test, consts) is not None:
                # `if reference == "fit": ... elif reference == "transform": ...` with a known constant argument
                visit(st.body if static_truth(st.test, consts) else st.orelse)
            elif isinstance(st, (ast.If, ast.While)):
                for n in walk_no_nested(st.test):
                    handle(n)
                visit(st.body)
                visit(st.orelse)
            elif isinstance(st, ast.For):
                for n in walk_no_nested(st.iter):
                    handle(n)
                visit(st.body)
                visit(st.orelse)
            elif isinstance(st, ast.With):
                for it in st.items:
                    for n in walk_no_nested(it.context_expr):
                        handle(n)
                visit(st.body)
            elif isinstance(st, ast.Try):
                visit(st.body)
                for h in st.handlers:
                    visit(h.body)
                visit(st.orelse)
                visit(st.finalbody)
            elif isinstance(st, ast.Match):
                for n in walk_no_nested(st.subject):
                    handle(n)
                for case in st.cases:
                    visit(case.body)

    def handle(n):
        if isinstance(n, ast.Attribute) and isinstance(n.ctx, ast.Load) and is_self_attr(n):
            out.add(n.attr)
        if isinstance(n, ast.Call):
            for t in ctx.resolve_call(n):
                if t.fn is not None and t.recv == "self" and t.fn.cls is not None and t.fn.cls in cls.mro:
                    b = bind_args(t.fn, n)
                    c2 = {k: v.value for k, v in b.items() if isinstance(v, ast.Constant)}
                    out.update(reads_in(pm, cls, t.fn, c2, depth + 1, seen))

    visit(fn.node.body)
    return out


def fitted_label_sinks(pm) -> dict[str, tuple[ClassInfo, FuncInfo, set[str]]]:
    sinks = {}
    for cls in transformer_classes(pm):
        state = fit_sample_state(pm, cls)
        if not state:
            continue
        for mname in SCORE_RESTORERS:
            m = cls.resolve(mname)
            if m is None:
                continue
            r = reads_in(pm, cls, m, {}) & state
            if r:
                sinks[f"{cls.qualname}.{mname}"] = (cls, m, r)
    return sinks


def _unseen_dropped(chk):
    """UNSEEN.dropped - entirely missing samples of new data may be omitted from the scores.  The sanitizer removes them
    in ``transform``; every stage whose ``transform`` ran BEFORE the sanitizer and whose ``inverse_transform_scores_unseen``
    re-attaches a coordinate it recorded for ALL samples of the transformed data must pick the entries that are left
    (``recorded.isel / sel / reindex(... X's own coordinate ...)``) - unless the sanitizer's unseen inverse puts the removed
    samples back first.  Otherwise the coordinate is longer than the scores and the call raises instead of answering."""
    pm = chk.pm
    prep = pm.cls("xeofs.preprocessing.preprocessor.Preprocessor")
    tt = prep.resolve("transformer_types")
    chk.require(tt is not None, "Preprocessor.transformer_types vanished")
    table = []
    for n in walk_no_nested(tt.node):
        if isinstance(n, ast.Return) and isinstance(n.value, ast.Call) and isinstance(n.value.func, ast.Name) and n.value.func.id == "dict":
            table = [(kw.arg, norm(kw.value)) for kw in n.value.keywords if kw.arg]
        elif isinstance(n, ast.Return) and isinstance(n.value, ast.Dict):
            table = [(const_str(k), norm(v)) for k, v in zip(n.value.keys, n.value.values)]
    names = [t[0] for t in table]
    chk.require("sanitizer" in names, "transformer_types() no longer lists the sanitizer stage")
    san = pm.cls("xeofs.preprocessing.sanitizer.Sanitizer")
    su = san.resolve("inverse_transform_scores_unseen")
    restores = su is not None and any(isinstance(c.func, ast.Attribute) and c.func.attr in ("reindex", "reindex_like", "combine_first") for c in calls_in(su))
    from .common import class_closure
    n_obl = 0
    seen = set()
    for sname, cname in table[: names.index("sanitizer")]:
        obj = pm.resolve_name(tt.cls.module if tt.cls is not None else prep.module, cname)
        cls = obj[1] if obj is not None and obj[0] == "class" else None
        chk.require(cls is not None, f"stage class {cname} of the preprocessor table not found")
        if cls.qualname in seen:
            continue
        seen.add(cls.qualname)
        tr, inv = cls.resolve("transform"), cls.resolve("inverse_transform_scores_unseen")
        if tr is None or inv is None:
            continue
        # attributes (or mapping attributes) written by transform
        recorded = set()
        for g in class_closure(pm, cls, tr):
            for st in walk_no_nested(g.node):
                if isinstance(st, (ast.Assign, ast.AugAssign, ast.AnnAssign)):
                    for t in (st.targets if isinstance(st, ast.Assign) else [st.target]):
                        base = t.value if isinstance(t, ast.Subscript) else t
                        if is_self_attr(base):
                            recorded.add(base.attr)
                if isinstance(st, ast.Expr) and isinstance(st.value, ast.Call) and isinstance(st.value.func, ast.Attribute) and st.value.func.attr == "update" \
                        and is_self_attr(st.value.func.value):
                    recorded.add(st.value.func.value.attr)
        if not recorded:
            continue
        for g in class_closure(pm, cls, inv):
            gf = FuncFacts.of(g)
            data = [p for p in g.params if p not in ("self", "cls")]
            for st in walk_no_nested(g.node):
                val = None
                if isinstance(st, ast.Assign) and len(st.targets) == 1 and isinstance(st.targets[0], ast.Subscript) and isinstance(st.targets[0].value, ast.Attribute) \
                        and st.targets[0].value.attr == "coords":
                    val = st.value
                elif isinstance(st, (ast.Assign, ast.Return, ast.Expr)):
                    for c in ast.walk(st):
                        if isinstance(c, ast.Call) and isinstance(c.func, ast.Attribute) and c.func.attr == "assign_coords":
                            vs = [k.value for k in c.keywords] + [v for a in c.args if isinstance(a, ast.Dict) for v in a.values]
                            val = vs[0] if vs else None
                if val is None:
                    continue
                ps = [p for p in gf.paths(val, spine_only=True, follow=True) if p.atom.kind == "selfattr" and p.atom.name.split(".")[-1] in recorded]
                if not ps:
                    continue
                n_obl += 1
                picks = any(any(o.kind == "method" and o.name in ("isel", "sel", "reindex", "reindex_like", "loc", "where") for o in p.ops) for p in ps)
                chk.check(picks or restores, "UNSEEN.dropped", g, st, construct=f"{cls.name}: coordinate recorded by transform re-attached to what is left of the samples",
                          why=f"{g.qualname} re-attaches `{norm(val)[:50]}` - recorded by {cls.name}.transform for ALL samples of the new data - to scores from which the sanitizer "
                              "has removed the entirely missing samples (its unseen inverse does not put them back): the lengths differ and transform raises for new data with "
                              "a sample MultiIndex or several sample dimensions and an entirely missing sample")
    chk.require(n_obl >= 1, "UNSEEN.dropped: no stage before the sanitizer re-attaches a coordinate recorded by its transform (anchor vanished)")


def _unseen_pure(chk):
    """UNSEEN.pure - the label-restoring methods of the transform path read what THIS transform call recorded, never the
    sample coordinates remembered at fit (shared with C04: the projection of the training data is labelled by the same path,
    so a fall-back to fit-time state makes its labels depend on what was transformed before)"""
    pm = chk.pm
    for cls in transformer_classes(pm):
        m = cls.resolve("inverse_transform_scores_unseen")
        if m is None or m.is_abstract:
            continue
        state = fit_sample_state(pm, cls)
        r = reads_in(pm, cls, m, {}) & state
        chk.check(not r, "UNSEEN.pure", m, m.node, construct=f"{cls.name}.inverse_transform_scores_unseen reads no fit-time sample coordinates",
                  why=f"the unseen-data path reads {sorted(r)}, which fit filled from the training samples: new samples get training labels")


def check(chk):
    _unseen_dropped(chk)
    pm = chk.pm
    sinks = fitted_label_sinks(pm)
    chk.info["fitted_label_sinks"] = {k: sorted(v[2]) for k, v in sinks.items()}
    fitted = {k for k in sinks if k.endswith(".inverse_transform_scores")}
    chk.require(len(fitted) >= 2, f"fit-sample-bound label restorers not found (derived: {sorted(sinks)}); the rule would pass vacuously")
    _unseen_pure(chk)
    # UNSEEN.labelfree: the unseen path must not align by sample labels (new data may repeat labels)
    from .c14 import self_closure
    LABEL_ALIGN = {"reindex", "reindex_like", "sel", "loc", "combine_first", "interp", "interp_like", "align", "merge", "drop_sel"}
    for cls in transformer_classes(pm):
        m = cls.resolve("inverse_transform_scores_unseen")
        if m is None or m.is_abstract:
            continue
        bad = []
        for fn in self_closure(pm, cls, m):
            for c in calls_in(fn):
                f = c.func
                name = f.attr if isinstance(f, ast.Attribute) else (f.id if isinstance(f, ast.Name) else "")
                if name in LABEL_ALIGN:
                    bad.append((fn, c, name))
        for fn, c, name in bad:
            chk.violation("UNSEEN.labelfree", fn, c, context=cls.name,
                          why=f"the unseen-data label path of {cls.name} aligns by coordinate labels ({name}): new data may carry repeated or "
                              "arbitrary sample labels, so a sample's scores would depend on other samples with the same label (or raise)")
        if not bad:
            chk.ok("UNSEEN.labelfree", m, None, construct=f"{cls.name}.inverse_transform_scores_unseen: no label-based alignment")
    # UNSEEN.path
    n_entries = 0
    for cls in pm.concrete_models():
        for ename in ("transform", "predict"):
            entry = cls.resolve(ename)
            if entry is None or entry.is_abstract:
                continue
            n_entries += 1
            hit = None
            for ctx, call, t, path in reachable(pm, Ctx(pm, entry, cls)):
                if t.fn is None or t.bound is None:
                    continue
                key = f"{t.bound.qualname}.{t.fn.name}" if t.fn.cls is not None else ""
                # resolve on the bound class (a subclass may inherit the sink)
                for sk, (scls, sfn, attrs) in sinks.items():
                    if sk.endswith(".inverse_transform_scores") and t.fn is sfn and (t.bound is scls or scls in t.bound.mro):
                        hit = (ctx, call, t, path, attrs)
                        break
                if hit:
                    break
            if hit:
                ctx, call, t, path, attrs = hit
                first = path[0] if path else (ctx, call)
                chain = " -> ".join([f"{c.fn.qualname}" for c, _ in path] + [ctx.fn.qualname, t.fn.qualname])
                chk.violation("UNSEEN.path", first[0].fn, first[1], context=cls.name,
                              why=f"{cls.name}.{ename} restores sample labels from the coordinates remembered at fit ({sorted(attrs)}): "
                                  f"new samples come back labelled (and re-indexed) as training samples. Call path: {chain}")
            else:
                chk.ok("UNSEEN.path", entry, None, construct=f"{cls.name}.{ename}: no path to a fit-sample-bound label restorer", context=cls.name)
    chk.require(n_entries >= 25, "transform/predict entry points vanished")
    _precede(chk)
    _persample(chk)
    chk.floor("UNSEEN.pure", 6)
    chk.floor("PRECEDE", 4)
    chk.floor("PERSAMPLE", 20)


# ----------------------------------------------------------------------------
def _guard_key(ff, node):
    return {(norm(g.test), g.polarity) for g in ff.guards(node)}


def _enclosing_loops(ff, node):
    out = []
    p = ff.cfg.parents()
    cur = p.get(id(node))
    while cur is not None:
        if isinstance(cur, (ast.For, ast.While)):
            out.append(cur)
        cur = p.get(id(cur))
    return out


def _stable_flag(ff, text: str) -> bool:
    """the guard is a bare local name that is assigned exactly once in the function (a flag computed up front)"""
    if not text.isidentifier():
        return False
    n = 0
    for st in ff.statements():
        for t in (st.targets if isinstance(st, ast.Assign) else [st.target] if isinstance(st, (ast.AugAssign, ast.AnnAssign, ast.For)) else []):
            for e in flatten_targets(t):
                if isinstance(e, ast.Name) and e.id == text:
                    n += 1
    return n == 1 and text not in ff.fn.params


def _must_transform(pm, fn: FuncInfo, depth: int) -> set[str]:
    """receivers r such that every execution of fn calls r.transform / r.fit_transform (unguarded statements only;
    self-helpers followed two levels)"""
    out: set[str] = set()
    ff = FuncFacts.of(fn)
    ctx = None
    for c in calls_in(fn):
        if ff.guards(c):
            continue
        f = c.func
        if isinstance(f, ast.Attribute) and f.attr in ("transform", "fit_transform") and not is_self_attr(f):
            out.add(norm(f.value))
        elif is_self_attr(f) and depth < 2:
            ctx = ctx or Ctx(pm, fn)
            for t in ctx.resolve_call(c):
                if t.fn is not None and t.fn is not fn:
                    out |= _must_transform(pm, t.fn, depth + 1)
    return out


def _precede(chk):
    pm = chk.pm
    prep = pm.cls("xeofs.preprocessing.preprocessor.Preprocessor")
    n = 0
    for fn in pm.all_functions():
        if fn.cls is not None and prep in fn.cls.mro:
            continue  # the preprocessor's own implementation
        ff = None
        ctx = None
        for c in calls_in(fn):
            f = c.func
            if not (isinstance(f, ast.Attribute) and f.attr == "inverse_transform_scores_unseen"):
                continue
            ctx = ctx or Ctx(pm, fn)
            ts = [t for t in ctx.resolve_call(c) if t.fn is not None and t.bound is not None and prep in t.bound.mro]
            if not ts:
                continue
            ff = ff or FuncFacts.of(fn)
            recv = norm(f.value)
            n += 1
            cands = [
                x for x in calls_in(fn)
                if isinstance(x.func, ast.Attribute) and x.func.attr in ("transform", "fit_transform") and norm(x.func.value) == recv
            ]
            # a private helper that unconditionally transforms with the same stage object counts as that call
            for x in calls_in(fn):
                if is_self_attr(x.func) and x not in cands:
                    for t in ctx.resolve_call(x):
                        if t.fn is not None and recv in _must_transform(pm, t.fn, 0):
                            cands.append(x)
                            break
            ok = False
            un = ff.cfg.node_for(c)
            for x in cands:
                xn = ff.cfg.node_for(x)
                if xn is None or un is None:
                    continue
                if ff.cfg.dominates(xn, un) and xn != un:
                    ok = True
                elif _guard_key(ff, x) <= _guard_key(ff, c) and x.lineno < c.lineno and all(
                        " is not None" in t or " is None" in t or _stable_flag(ff, t) for t, _ in _guard_key(ff, x)):
                    ok = True  # correlated `if V is not None:` / `if v_is_given:` blocks
                else:
                    lx = [l for l in _enclosing_loops(ff, x) if not any(y is c for y in ast.walk(l))]
                    if lx:
                        ln = ff.cfg.node_of_stmt.get(id(lx[-1]))
                        if ln is not None and ff.cfg.dominates(ln, un) and x.lineno < c.lineno:
                            ok = True  # an earlier loop over the same collection transformed every element
            chk.check(ok, "PRECEDE", fn, c,
                      why=f"{recv}.inverse_transform_scores_unseen restores labels from bookkeeping that only {recv}.transform writes, "
                          f"but {recv}.transform is not called before it in {fn.name}: the labels come from an earlier, unrelated call")
    chk.info["unseen_restorer_calls"] = n


# ----------------------------------------------------------------------------
def _sampleish(ff, e) -> bool:
    if e is None:
        return False
    for p in ff.paths(e, spine_only=True):
        nm = p.atom.name
        if "sample" in nm:
            return True
        if p.atom.kind == "const" and "sample" in p.atom.name:
            return True
    return False


def _sample_count_op(p) -> str | None:
    """the path reads the NUMBER OF SAMPLES of the value it starts from (.size, .sizes[sample], .shape[0], len())"""
    ops = list(p.ops)
    for i, o in enumerate(ops):
        prev = ops[i - 1] if i else None
        nxt = ops[i + 1] if i + 1 < len(ops) else None
        if o.kind == "attr" and o.name == "size":
            if prev is not None and prev.kind == "subscript":
                if "sample" in prev.name:
                    return "size along the sample dimension"
                continue  # size of another (feature / mode) coordinate
            if prev is None or prev.kind != "attr":
                return "total size"
        if o.kind == "attr" and o.name == "sizes" and nxt is not None and nxt.kind == "subscript" and "sample" in nxt.name:
            return "sizes[sample]"
        if o.kind == "attr" and o.name == "shape" and nxt is not None and nxt.kind == "subscript" and nxt.name == "0":
            return "shape[0]"
        if o.kind == "arg" and o.name == "len" and not any(x.kind == "attr" and x.name in ("dims", "shape") for x in ops[:i]) \
                and not any(x.kind == "subscript" and "feature" in x.name for x in ops[:i]):
            return "len()"
    return None


def _persample(chk):
    pm = chk.pm
    # functions on transform paths
    fns: dict[str, FuncInfo] = {}
    for cls in pm.concrete_models():
        for ename in ("transform", "predict"):
            entry = cls.resolve(ename)
            if entry is None or entry.is_abstract:
                continue
            fns.setdefault(entry.qualname, entry)
            for ctx, call, t, path in reachable(pm, Ctx(pm, entry, cls)):
                if t.fn is not None:
                    fns.setdefault(t.fn.qualname, t.fn)
    chk.info["functions_on_transform_paths"] = len(fns)
    for fn in fns.values():
        ff = FuncFacts.of(fn)
        params = {p for p in fn.params if p not in ("self", "cls")}
        bad = []
        for b in [x for x in walk_no_nested(fn.node) if isinstance(x, (ast.BinOp, ast.AugAssign)) and isinstance(x.op, (ast.Sub, ast.Add, ast.Div, ast.Mult))]:
            left = b.left if isinstance(b, ast.BinOp) else b.target
            right = b.right if isinstance(b, ast.BinOp) else b.value
            for a, o in ((left, right), (right, left)):
                ap = {p.atom.name for p in ff.paths(a, spine_only=True) if p.atom.kind == "param" and p.atom.name in params}
                if not ap:
                    continue
                for p in ff.paths(o, spine_only=True):
                    if p.atom.kind == "param" and p.atom.name in ap:
                        for op in p.ops:
                            if op.kind == "method" and op.name in REDUCTIONS:
                                call = op.node
                                args = list(call.args) + [k.value for k in call.keywords if k.arg in ("dim", "dims", "axis", None)]
                                kw = call_kwargs(call)
                                along_sample = any(_sampleish(ff, x) for x in args) or any("sample" in (k.arg or "") for k in call.keywords)
                                ax = kw.get("axis")
                                if isinstance(ax, ast.Constant) and ax.value == 0:
                                    along_sample = True
                                if not call.args and not call.keywords:
                                    along_sample = True  # full reduction includes the sample axis
                                if along_sample:
                                    bad.append((b, op.name, p.atom.name))
                        cnt = _sample_count_op(p)
                        if cnt:
                            bad.append((b, cnt, p.atom.name))
        if bad:
            for b, red, par in bad[:3]:
                chk.violation("PERSAMPLE", fn, b,
                              why=f"on a transform path the data '{par}' is combined with its own {red + '()' if red in REDUCTIONS else 'sample count (' + red + ')'} along the sample dimension: "
                                  "a sample's scores then depend on the other samples of the new data (transform of a concatenation differs)")
        else:
            chk.ok("PERSAMPLE", fn, None, construct="<no statistic of the new data along samples fed back arithmetically>",
                   nontrivial=bool(params))
