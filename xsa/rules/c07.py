"""C07 - results do not depend on layout or naming.

Decided (structural, necessary): dimensions are addressed through the configured
``sample_name`` / ``feature_name``, never through the literals "sample" / "feature".

NAMES.literal   no string constant "sample"/"feature", keyword ``sample=``/``feature=``
                or attribute access ``.sample``/``.feature`` inside xeofs code, except
                (a) defaults of parameters (b) the table exemptions below (c) classes
                whose exported constructors cannot change the names (derived by
                constructor-flow: the attribute is provably the same literal).
NAMES.default   a callee whose dimension parameter has a literal default must be
                called with that parameter given (else the literal is used after all);
                exempt: placeholder objects replaced at fit, constructors of classes
                that never read their own name attributes.
NAMES.canonical Stacker._stack orders the matrix as (sample_name, feature_name).
"""

from __future__ import annotations

import ast

from ..pm import AnalysisError, ClassInfo, FuncInfo, const_str, dotted, is_self_attr, norm, walk_no_nested
from ..prov import FuncFacts
from ..resolve import Ctx
from ..wire import InitFlow
from .common import bind_args, docstring_nodes, has_star_kwargs, parent_map

LITS = {"sample", "feature"}
NAME_ATTRS = {"sample": "sample_name", "feature": "feature_name"}
DIM_PARAM_NAMES = {
    "sample_name", "feature_name", "dims", "dim", "dims_in", "dims_out", "sample_dim",
    "feature_dim", "sample_dims", "feature_dims",
}

# Frozen exemptions, one reason each.
EXEMPT_DICT_KEYS = {
    # Scaler.dims is a bookkeeping dict {"sample": sample_dims, "feature": feature_dims};
    # its keys are roles, not dimension names, and it is never used to index data.
    ("Scaler", "dims"),
}


def _lit_sites(mod):
    """yield (node, kind, literal) for every literal designator in a module."""
    doc = docstring_nodes(mod.tree)
    pmap = parent_map(mod.tree)
    default_ids: set[int] = set()
    for n in ast.walk(mod.tree):
        if isinstance(n, (ast.FunctionDef, ast.AsyncFunctionDef, ast.Lambda)):
            for d in list(n.args.defaults) + [k for k in n.args.kw_defaults if k is not None]:
                for s in ast.walk(d):
                    default_ids.add(id(s))
    for n in ast.walk(mod.tree):
        if isinstance(n, ast.Constant) and isinstance(n.value, str) and n.value in LITS:
            if id(n) in doc or id(n) in default_ids:
                continue
            yield n, "constant", n.value, pmap
        elif isinstance(n, ast.keyword) and n.arg in LITS:
            yield n, "keyword", n.arg, pmap
        elif isinstance(n, ast.Attribute) and n.attr in LITS and isinstance(n.ctx, ast.Load):
            yield n, "attribute", n.attr, pmap


def _enclosing(pmap, node, kinds):
    cur = pmap.get(id(node))
    while cur is not None and not isinstance(cur, kinds):
        cur = pmap.get(id(cur))
    return cur


def _message_only(node, pmap, fdef) -> bool:
    par = pmap.get(id(node))
    if not (isinstance(par, ast.Assign) and len(par.targets) == 1 and isinstance(par.targets[0], ast.Name) and par.value is node):
        return False
    v = par.targets[0].id
    # every definition of the local in this function is a string literal
    for n in ast.walk(fdef):
        if isinstance(n, ast.Name) and n.id == v and isinstance(n.ctx, ast.Store):
            st = pmap.get(id(n))
            if not (isinstance(st, ast.Assign) and isinstance(st.value, ast.Constant) and isinstance(st.value.value, str)):
                return False
    uses = [n for n in ast.walk(fdef) if isinstance(n, ast.Name) and n.id == v and isinstance(n.ctx, ast.Load)]
    if not uses:
        return False
    for u in uses:
        cur = pmap.get(id(u))
        ok = False
        while cur is not None and not isinstance(cur, ast.stmt):
            if isinstance(cur, (ast.JoinedStr, ast.FormattedValue)):
                ok = True
            if isinstance(cur, ast.Call) and isinstance(cur.func, ast.Attribute) and cur.func.attr == "format":
                ok = True
            if isinstance(cur, ast.BinOp) and isinstance(cur.op, ast.Mod) and isinstance(cur.left, (ast.Constant, ast.JoinedStr)):
                ok = True
            cur = pmap.get(id(cur))
        if not ok:
            return False
    return True


def _is_exempt_dict_key(node, pmap, cls_name):
    par = pmap.get(id(node))
    if isinstance(par, ast.Dict) and any(k is node for k in par.keys):
        st = pmap.get(id(par))
        if isinstance(st, ast.Assign):
            for t in st.targets:
                if is_self_attr(t) and (cls_name, t.attr) in EXEMPT_DICT_KEYS:
                    return True
    return False


def name_configurable(pm, cls: ClassInfo, cache: dict) -> dict[str, object]:
    """For a concrete class: attr -> True (user/model configurable) or the literal it is fixed to."""
    if cls.qualname in cache:
        return cache[cls.qualname]
    res: dict[str, object] = {}
    fl = InitFlow(pm, cls)
    for lit, attr in NAME_ATTRS.items():
        val: object = None
        srcs = fl.attr_sources(attr)
        for fr, v in srcs:
            for r in fl.trace(fr, v):
                if r.kind == "const" and not r.ops:
                    c = r.name.strip("'\"")
                    if val is None:
                        val = c
                    elif val != c:
                        val = True
                else:
                    val = True
        # assignments outside the init chain (rotator: self.sample_name = model.sample_name)
        for m, st, v in pm.attr_assignments(cls, attr):
            if m.name != "__init__":
                val = True
        if val is None:
            val = True  # unknown -> treat as configurable (strict)
        res[attr] = val
    cache[cls.qualname] = res
    return res


def _user_order(chk):
    """LAYOUT.dims.user_order - the order of the SAMPLE dimensions (the order in which they are numbered, stacked and, for
    lagged / cross-set models, walked) is the order the user wrote in `dim=`; it must not follow the order in which the
    data object happens to hold its dimensions, or transposing the data changes the row sequence.  `get_dims` returns
    (sample dims, feature dims): the first member derives from the `sample_dims` argument alone."""
    pm = chk.pm
    mod = pm.modules.get("xeofs.utils.xarray_utils")
    chk.require(mod is not None and "get_dims" in mod.functions, "xeofs/utils/xarray_utils.get_dims vanished")
    fn = mod.functions["get_dims"]
    ff = FuncFacts.of(fn)
    from .common import returns_of
    n = 0
    for r in returns_of(fn):
        if not (isinstance(r.value, ast.Tuple) and len(r.value.elts) == 2):
            continue
        n += 1
        ps = ff.paths(r.value.elts[0], spine_only=False, follow=True)
        from_user = any(p.atom.kind == "param" and p.atom.name == "sample_dims" for p in ps)
        from_data = [p for p in ps if p.atom.kind == "param" and p.atom.name not in ("sample_dims",)]
        chk.check(from_user and not from_data, "LAYOUT.dims.user_order", fn, r, construct="get_dims returns the sample dimensions in the order given by the user",
                  why=("the sample dimensions that get_dims reports depend on the data object (" + ", ".join(sorted({repr(p)[:70] for p in from_data})[:2]) +
                       "): their order follows the data's own dimension order, so transposing the data (or giving cross-set fields in different layouts) changes the order of "
                       "the stacked samples - lagged models see another series, cross-set fields are paired row by row wrongly") if from_data else "the returned sample dimensions do not derive from the sample_dims argument")
    chk.require(n >= 1, "get_dims: no (sample_dims, feature_dims) return found")


def check(chk):
    # list items are aligned by sample LABEL when concatenated, whatever order each item stores its samples in (shared with C02's concatenator rule)
    from . import c02 as _c02
    from .c01 import _Relabel as _RL
    _c02._concat_align(_RL(chk, "MIRROR.state.concat", "LAYOUT.concat"))
    # label-based products only mean what they say when both operands carry the labels of the SAME space: the rotated
    # loadings go back pca -> whitener (shared with C04); in the other order the products pair PC labels with feature labels
    # by coincidence of their values and the result depends on how the features happen to be ordered
    from . import c04 as _c04
    _c04._stored(_RL(chk, "SPACE.stored", "LAYOUT.stage_order"))
    # splitting the features over list elements changes nothing: the per-element bookkeeping keyed "0", "1", ... is
    # walked in list order (shared with C02 / C13)
    from .common import index_key_order
    index_key_order(chk, "LAYOUT.index_keys", ("coords_in", "transformers"))
    # transposing the dimensions of transform data changes nothing: the stacker stacks with the lists recorded at fit
    _c02._stack_transform_dims(_RL(chk, "MIRROR.state.stack", "LAYOUT.stack"))
    _c02._dataset_layout(_RL(chk, "MIRROR.state.stack", "LAYOUT.stack"), "MIRROR.state.stack.dataset_layout")
    _c02._renamer_by_role(_RL(chk, "MIRROR.state.renamer", "LAYOUT.renamer"), "MIRROR.state.renamer.by_role")
    pm = chk.pm
    _user_order(chk)
    concrete = pm.concrete_models() + pm.exported_classes("preprocessing")
    cfg_cache: dict = {}

    def users_of(cls: ClassInfo | None) -> list[ClassInfo]:
        if cls is None:
            return []
        return [d for d in concrete if cls in d.mro]

    n_sites = 0
    scanned = 0
    for mod in pm.modules.values():
        sites = list(_lit_sites(mod))
        scanned += 1
        per_func: dict[str, int] = {}
        for node, kind, lit, pmap in sites:
            fdef = _enclosing(pmap, node, (ast.FunctionDef, ast.AsyncFunctionDef))
            cdef = _enclosing(pmap, node, (ast.ClassDef,))
            cls = mod.classes.get(cdef.name) if cdef is not None else None
            fn: FuncInfo | None = None
            if fdef is not None:
                q = None
                for f in pm.functions.values():
                    if f.node is fdef:
                        fn = f
                        break
            where_fn = fn if fn is not None else f"{mod.name}"
            stmt = _enclosing(pmap, node, (ast.stmt,)) or node
            construct = norm(stmt)
            n_sites += 1
            if cls is not None and kind == "constant" and _is_exempt_dict_key(node, pmap, cls.name):
                chk.ok("NAMES.literal", where_fn, stmt, why="table exemption: bookkeeping dict keys", construct=construct,
                       facts={"literal": lit, "exempt": f"{cls.name}.dims keys"})
                continue
            # a literal bound to a local that is only ever interpolated into a message (f-string, format, exception /
            # warning text) names a ROLE in prose, it does not address a dimension
            if kind == "constant" and fdef is not None and _message_only(node, pmap, fdef):
                chk.ok("NAMES.literal", where_fn, stmt, why="the literal only reaches message text", construct=construct, facts={"literal": lit}, nontrivial=False)
                continue
            # derived exemption: names are not configurable for any exported user of the class
            us = users_of(cls)
            if cls is not None and us:
                fixed = []
                for d in us:
                    v = name_configurable(pm, d, cfg_cache)[NAME_ATTRS[lit]]
                    fixed.append(v)
                if all(v is not True and v == lit for v in fixed):
                    chk.ok(
                        "NAMES.literal", where_fn, stmt, construct=construct,
                        why=f"{NAME_ATTRS[lit]} is fixed to {lit!r} for every exported class using {cls.name}",
                        facts={"literal": lit, "users": [d.name for d in us]},
                    )
                    continue
            o = chk.violation(
                "NAMES.literal", where_fn, stmt, construct=construct,
                why=f"dimension addressed by the literal {lit!r} ({kind}) instead of the configured {NAME_ATTRS[lit]}",
                facts={"literal": lit, "kind": kind},
            )
            if fn is None:
                o.where = f"{mod.relpath}:{getattr(node, 'lineno', 0)}"
    # one obligation per function that handles dimension names: "no literal designator"
    for fn in pm.all_functions():
        uses_names = any(
            (isinstance(n, ast.Attribute) and n.attr in ("sample_name", "feature_name"))
            or (isinstance(n, ast.Name) and n.id in ("sample_name", "feature_name"))
            for n in walk_no_nested(fn.node)
        )
        if uses_names:
            chk.ok("NAMES.literal.scan", fn, None, construct="<function body scanned for literal dimension designators>")
    chk.info["literal_sites_examined"] = n_sites
    chk.info["modules_scanned"] = scanned

    from .c02 import positional_relabel
    positional_relabel(chk, "LAYOUT.positional")
    _check_defaults(chk, concrete, cfg_cache)
    _check_canonical(chk)
    chk.floor("NAMES.literal.scan", 60)
    chk.floor("NAMES.default", 20)


# ----------------------------------------------------------------------------
def _literal_default_params(fn: FuncInfo) -> dict[str, str]:
    out = {}
    for p, d in fn.defaults().items():
        lits = [n.value for n in ast.walk(d) if isinstance(n, ast.Constant) and isinstance(n.value, str) and n.value in LITS]
        if lits:
            out[p] = ",".join(lits)
    return out


def _class_reads_names(cls: ClassInfo) -> set[str]:
    out = set()
    for c in cls.mro:
        for m in c.methods.values():
            for n in walk_no_nested(m.node):
                if isinstance(n, ast.Attribute) and n.attr in ("sample_name", "feature_name") and isinstance(n.ctx, ast.Load):
                    if isinstance(n.value, ast.Name) and n.value.id == "self":
                        out.add(n.attr)
    return out


def _placeholder_attrs(pm, cls: ClassInfo) -> set[str]:
    """attributes assigned ``self.a = <param>.a`` outside __init__ (replaced at fit)."""
    out = set()
    for c in cls.mro:
        for m in c.methods.values():
            if m.name == "__init__":
                continue
            for n in walk_no_nested(m.node):
                if isinstance(n, ast.Assign) and len(n.targets) == 1 and is_self_attr(n.targets[0]):
                    v = n.value
                    # ... or a copy of it: deepcopy(<param>.a) / copy(<param>.a)
                    if isinstance(v, ast.Call) and (dotted(v.func) or "").split(".")[-1] in ("deepcopy", "copy") and len(v.args) == 1:
                        v = v.args[0]
                    if isinstance(v, ast.Attribute) and isinstance(v.value, ast.Name) and v.value.id in m.params and v.attr == n.targets[0].attr:
                        out.add(v.attr)
    return out


def _check_defaults(chk, concrete, cfg_cache):
    pm = chk.pm
    for fn in pm.all_functions():
        ctx = Ctx(pm, fn)
        for call in [n for n in walk_no_nested(fn.node) if isinstance(n, ast.Call)]:
            for t in ctx.resolve_call(call):
                if t.fn is None:
                    continue
                lp = _literal_default_params(t.fn)
                if not lp:
                    continue
                bound = bind_args(t.fn, call)
                missing = [p for p in lp if p not in bound]
                construct = norm(call)
                if not missing:
                    chk.ok("NAMES.default", fn, call, construct=construct, facts={"callee": t.fn.qualname, "params": sorted(lp)})
                    continue
                if has_star_kwargs(call):
                    chk.ok("NAMES.default", fn, call, construct=construct,
                           why="forwarded through **kwargs", facts={"callee": t.fn.qualname})
                    continue
                # exemptions -------------------------------------------------------
                if t.fn.name == "__init__" and t.bound is not None:
                    k = t.bound
                    is_super = isinstance(call.func, ast.Attribute) and call.func.attr == "__init__"
                    inst_cls = fn.cls if is_super else k
                    # (a) the instantiated class never reads the name attributes it lacks
                    reads = _class_reads_names(inst_cls) if inst_cls is not None else set()
                    need = {p for p in missing if p in ("sample_name", "feature_name")}
                    if is_super and inst_cls is not None:
                        # reads by subclasses of inst_cls count as well
                        for sub in pm.subclasses(inst_cls):
                            reads |= _class_reads_names(sub)
                    if not (need & reads) and need == set(missing):
                        chk.ok("NAMES.default", fn, call, construct=construct,
                               why=f"{inst_cls.name if inst_cls else '?'} never reads {sorted(need)}",
                               facts={"callee": t.fn.qualname})
                        continue
                    # (b) placeholder replaced at fit
                    st = FuncFacts.of(fn).cfg.enclosing_stmt(call)
                    if (
                        fn.name == "__init__" and fn.cls is not None and isinstance(st, ast.Assign)
                        and len(st.targets) == 1 and is_self_attr(st.targets[0])
                    ):
                        users = [d for d in concrete if fn.cls in d.mro] or [fn.cls]
                        if all(st.targets[0].attr in _placeholder_attrs(pm, d) for d in users):
                            chk.ok("NAMES.default", fn, call, construct=construct,
                                   why="placeholder object replaced by the base model's at fit",
                                   facts={"callee": t.fn.qualname})
                            continue
                # (c) caller's class has non-configurable names equal to the defaults
                if fn.cls is not None:
                    us = [d for d in concrete if fn.cls in d.mro]
                    if us:
                        okc = True
                        for d in us:
                            conf = name_configurable(pm, d, cfg_cache)
                            for p in missing:
                                for lit in lp[p].split(","):
                                    if conf[NAME_ATTRS[lit]] is True or conf[NAME_ATTRS[lit]] != lit:
                                        okc = False
                        if okc:
                            chk.ok("NAMES.default", fn, call, construct=construct,
                                   why="dimension names are fixed to the defaults for every exported user of the calling class",
                                   facts={"callee": t.fn.qualname, "users": [d.name for d in us]})
                            continue
                chk.violation(
                    "NAMES.default", fn, call, construct=construct,
                    why=f"callee {t.fn.qualname} falls back to its literal default for {missing} "
                        f"(defaults {[lp[m] for m in missing]}); pass the configured names explicitly",
                    facts={"callee": t.fn.qualname, "missing": missing},
                )


def _check_canonical(chk):
    pm = chk.pm
    fn = pm.own_method("Stacker", "_stack")
    ff = FuncFacts.of(fn)
    found = False
    for call in ff.calls():
        if isinstance(call.func, ast.Attribute) and call.func.attr == "transpose" and len(call.args) == 2:
            roots = []
            for a in call.args:
                ps = ff.paths(a, spine_only=True)
                roots.append({p.atom.name for p in ps if p.atom.kind == "selfattr"})
            found = True
            good = roots[0] == {"self.sample_name"} and roots[1] == {"self.feature_name"}
            chk.check(good, "NAMES.canonical", fn, call,
                      why="Stacker._stack must order the 2-D matrix as (sample_name, feature_name)",
                      facts={"arg_sources": [sorted(r) for r in roots]})
    if not found:
        raise AnalysisError("Stacker._stack: canonicalising transpose not found (anchor vanished)")
    # the stacked array must be returned from every branch through that canonicalisation
