"""C14 - answers depend only on the last fit (structural clauses).

HIST.grow     on the fit path of a persistent object no list/dict/set attribute is grown
              (append/extend/update/+=/non-literal item assignment) unless a fresh reset of that
              attribute dominates the growth in the same call
HIST.rbw      an attribute that a fit/compute path assigns is never read on the fit path before it
              has been definitely assigned in the same call (flags, rewritten hyper-parameters)
HIST.isolate  attributes written on transform paths are not read by fitted-data accessors
              (value-preserving rewrites exempt)
OWN.borrowed  arrays taken from another model's container, or the caller's input objects, never
              reach a mutating sink (DataContainer.add renames, set_attrs re-attributes; attribute /
              item / in-place assignment) without an intervening fresh object
OWN.refit     stage objects borrowed from another model are never re-fitted
OWN.default   mutable default arguments are never mutated
"""

from __future__ import annotations

import ast

from ..pm import AnalysisError, ClassInfo, FuncInfo, const_str, dotted, is_self_attr, norm, walk_no_nested, flatten_targets
from ..prov import FuncFacts, Path
from ..resolve import Ctx, calls_in, reachable
from ..cfg import always_exits
from .c05 import transformer_classes

GROW_METHODS = {"append", "extend", "insert", "add", "update", "setdefault", "appendleft"}
FRESH_CTORS = {"list", "dict", "set", "DataContainer", "tuple"}


# ----------------------------------------------------------------------------
def persistent_classes(pm) -> tuple[set[str], set[str]]:
    """(persistent, per_fit) qualified class names, derived from where instances are constructed"""
    in_init: set[str] = set()
    elsewhere: set[str] = set()
    for fn in pm.all_functions():
        ctx = None
        for c in calls_in(fn):
            r = pm.resolve_expr_static(fn.module, c.func)
            cls = None
            if r and r[0] == "class":
                cls = r[1]
                # GenericListTransformer(K, ...) constructs K lazily in fit -> K is per-fit
            elif is_self_attr(c.func, "transformer_class"):
                tv = None
                ctx = ctx or Ctx(pm, fn)
                for k in ctx._typevar_bound():
                    elsewhere.add(k.qualname)
                continue
            if cls is None:
                continue
            (in_init if fn.name == "__init__" else elsewhere).add(cls.qualname)
    models = {c.qualname for c in pm.concrete_models()}
    persistent = set(models)
    changed = True
    while changed:
        changed = False
        for fn in pm.all_functions():
            if fn.name != "__init__" or fn.cls is None:
                continue
            owner_persistent = any(fn.cls in pm.classes[q].mro for q in persistent if q in pm.classes)
            if not owner_persistent:
                continue
            for c in calls_in(fn):
                r = pm.resolve_expr_static(fn.module, c.func)
                if r and r[0] == "class" and r[1].qualname not in persistent:
                    persistent.add(r[1].qualname)
                    changed = True
    per_fit = {q for q in elsewhere if q not in persistent}
    return persistent, per_fit


def self_closure(pm, cls: ClassInfo, entry: FuncInfo) -> list[FuncInfo]:
    seen: dict[str, FuncInfo] = {}
    stack = [entry]
    while stack:
        fn = stack.pop()
        if fn.qualname in seen:
            continue
        seen[fn.qualname] = fn
        ctx = Ctx(pm, fn, cls)
        for call in calls_in(fn):
            for t in ctx.resolve_call(call) + ctx.func_refs(call):
                if t.fn is not None and t.recv == "self" and t.fn.cls is not None and t.fn.cls in cls.mro:
                    stack.append(t.fn)
    return list(seen.values())


def _is_fresh_value(e: ast.expr) -> bool:
    if isinstance(e, (ast.List, ast.Dict, ast.Set, ast.ListComp, ast.DictComp, ast.SetComp, ast.Tuple, ast.Constant)):
        return True
    if isinstance(e, ast.Call):
        return True  # a call result is a new object unless it returns its argument (not modelled for containers)
    return False


def check(chk):
    pm = chk.pm
    persistent, per_fit = persistent_classes(pm)
    chk.info["persistent_classes"] = sorted(q.split(".")[-1] for q in persistent)
    chk.info["per_fit_classes"] = sorted(q.split(".")[-1] for q in per_fit)
    chk.require("xeofs.preprocessing.list_processor.GenericListTransformer" in persistent, "persistent-class derivation lost GenericListTransformer")
    chk.require("xeofs.preprocessing.scaler.Scaler" in per_fit, "per-fit derivation lost Scaler")
    _grow(chk, persistent)
    _rbw(chk, persistent)
    _isolate(chk)
    _alias(chk)
    _cache(chk)
    _query_mutates(chk)
    _borrowed(chk)
    _serialize_mutates(chk)
    _borrowed_stages(chk)
    _refit_borrowed(chk)
    _defaults(chk)
    # the metadata dict is re-encoded in place by every fit: nothing that steers a computation is read from it
    from .common import attrs_reads
    attrs_reads(chk, "HIST.attrs.read")
    chk.floor("HIST.grow", 30)
    chk.floor("HIST.rbw", 30)
    chk.floor("OWN.borrowed", 25)


# ----------------------------------------------------------------------------
def _fit_entries(cls: ClassInfo) -> list[FuncInfo]:
    out = []
    for n in ("fit", "fit_transform"):
        m = cls.resolve(n)
        if m is not None and not m.is_abstract and any(not isinstance(s, (ast.Pass, ast.Expr)) for s in m.node.body):
            out.append(m)
    return out


def _grow(chk, persistent):
    pm = chk.pm
    for q in sorted(persistent):
        cls = pm.classes.get(q)
        if cls is None:
            continue
        seen_fn: dict[str, FuncInfo] = {}
        for e in _fit_entries(cls):
            for fn in self_closure(pm, cls, e):
                seen_fn[fn.qualname] = fn
        for fn in seen_fn.values():
            ff = FuncFacts.of(fn)
            sites = []
            for n in walk_no_nested(fn.node):
                if isinstance(n, ast.Call) and isinstance(n.func, ast.Attribute) and n.func.attr in GROW_METHODS and is_self_attr(n.func.value):
                    attr = n.func.value.attr
                    # DataContainer.add(value, "literal") is a slot overwrite, not growth
                    t = pm.attrtype(cls, attr)
                    if isinstance(t, ClassInfo) and t.name == "DataContainer" and n.func.attr == "add":
                        name = None
                        kw = {k.arg: k.value for k in n.keywords}
                        name = kw.get("name") or (n.args[1] if len(n.args) > 1 else None)
                        if const_str(name) is not None or _finite_key(ff, name):
                            continue
                    if n.func.attr == "update" and n.args and isinstance(n.args[0], ast.Dict) and all(const_str(k) is not None or is_self_attr(k) for k in n.args[0].keys):
                        continue  # fixed key set: overwrite of the same slots
                    sites.append((attr, n))
                elif isinstance(n, ast.AugAssign) and is_self_attr(n.target) and isinstance(n.op, (ast.Add, ast.BitOr)):
                    sites.append((n.target.attr, n))
                elif isinstance(n, ast.Assign):
                    for t in n.targets:
                        if isinstance(t, ast.Subscript) and is_self_attr(t.value) and const_str(t.slice) is None and not _finite_key(ff, t.slice):
                            # keyed rewrite while iterating over the existing keys is not growth
                            key_src = {p.atom.name for p in ff.paths(t.slice, spine_only=True)}
                            it_over_self = any(
                                p.has_op("iter") and p.atom.name.startswith(f"self.{t.value.attr}")
                                for p in ff.paths(t.slice, spine_only=True)
                            )
                            if not it_over_self:
                                sites.append((t.value.attr, n))
            if not sites:
                chk.ok("HIST.grow", fn, None, construct=f"{cls.name}: no growth of persistent attributes", context=cls.name, nontrivial=False)
            for attr, node in sites:
                gn = ff.cfg.node_for(node)
                resets = [
                    st for st in ff.statements()
                    if isinstance(st, (ast.Assign, ast.AnnAssign)) and any(is_self_attr(t, attr) for t in (st.targets if isinstance(st, ast.Assign) else [st.target]))
                    and st.value is not None and _is_fresh_value(st.value)
                ]
                ok = any(ff.cfg.dominates(ff.cfg.node_for(r), gn) and ff.cfg.node_for(r) != gn for r in resets)
                chk.check(ok, "HIST.grow", fn, node, context=cls.name,
                          why=f"self.{attr} of the persistent object {cls.name} grows on every fit and is never reset in the same call: "
                              "a second fit keeps (and uses) the entries of the first")


# ----------------------------------------------------------------------------
def _finite_key(ff: FuncFacts, e) -> bool:
    """the key expression only ever evaluates to literal constants (a local holding a literal, a loop variable over a
    literal display): writing under it overwrites a fixed set of slots"""
    if e is None:
        return False
    # `for key, value in {"a": x, "b": y}.items()` (the display possibly bound to a local first)
    if isinstance(e, ast.Name):
        from .common import inline_locals
        ds = ff.rd.reaching(e.id, ff.node_of(e))
        if ds and all(isinstance(d.stmt, ast.For) and tuple(d.index) in ((0,), ()) for d in ds):
            oks = []
            for d in ds:
                it = d.stmt.iter
                okd = False
                if isinstance(it, ast.Call) and isinstance(it.func, ast.Attribute) and it.func.attr in ("items", "keys") and not it.args and tuple(d.index) == ((0,) if it.func.attr == "items" else ()):
                    base = inline_locals(ff, it.func.value)
                    if isinstance(base, ast.Dict) and base.keys and all(k is not None and const_str(k) is not None for k in base.keys):
                        okd = True
                    if isinstance(base, ast.Call) and isinstance(base.func, ast.Name) and base.func.id == "dict" and not base.args and base.keywords and all(k.arg for k in base.keywords):
                        okd = True
                oks.append(okd)
            if oks and all(oks):
                return True
    ps = ff.paths(e, spine_only=True)
    return bool(ps) and all(p.atom.kind == "const" and p.atom.name not in ("[]", "()", "{}", "fstring") and all(o.kind in ("elt", "iter", "unpack") for o in p.ops) for p in ps)


class _RBW:
    """must-assigned / may-read-before-assigned analysis over a class's fit path"""

    def __init__(self, pm, cls: ClassInfo, F: set[str]):
        self.pm, self.cls, self.F = pm, cls, F
        self.exposed: dict[str, tuple[FuncInfo, ast.AST]] = {}
        self._active: set[str] = set()

    def run(self, fn: FuncInfo, state: frozenset) -> frozenset:
        if fn.qualname in self._active:
            return state
        self._active.add(fn.qualname)
        saved = getattr(self, "_returns", None)
        self._returns = []
        entry_ctx = frozenset(getattr(self, "_ctx", frozenset()))
        try:
            out = self.block(fn, fn.node.body, state)
            outs = list(self._returns) + ([(out, frozenset(getattr(self, "_last_ctx", frozenset())))] if out is not None else [])
        finally:
            self._active.discard(fn.qualname)
            self._returns = saved
            self._ctx = entry_ctx
        if not outs:
            return state  # the function always raises
        res = outs[0][0]
        for o, _ in outs[1:]:
            res = res & o
        # exits taken under opposite values of one stable flag (`if not self.flag: return ...`): what only the
        # exits under one value assign is remembered as assigned-under-that-value
        plain = lambda S: {x for x in S if not isinstance(x, tuple)}
        flags = {f for _, c in outs for f, _ in (c - entry_ctx)}
        for f in flags:
            pos = [o for o, c in outs if (f, True) in c]
            neg = [o for o, c in outs if (f, False) in c]
            if len(pos) + len(neg) != len(outs) or not pos or not neg:
                continue
            A = set.intersection(*[plain(o) for o in pos])
            B = set.intersection(*[plain(o) for o in neg])
            res = res | {(x, frozenset({(f, True)})) for x in A - B} | {(x, frozenset({(f, False)})) for x in B - A}
        return frozenset(res)

    # returns state after the block or None if the block cannot fall through
    @staticmethod
    def _flag_of(self_F, t):
        if is_self_attr(t) and t.attr not in self_F:
            return (t.attr, True)
        if isinstance(t, ast.UnaryOp) and isinstance(t.op, ast.Not) and is_self_attr(t.operand) and t.operand.attr not in self_F:
            return (t.operand.attr, False)
        return None

    def block(self, fn, stmts, state):
        saved = frozenset(getattr(self, "_ctx", frozenset()))
        try:
            for st in stmts:
                state = self.stmt(fn, st, state)
                if state is None:
                    return None
                if isinstance(st, ast.If) and not st.orelse and always_exits(st.body):
                    flag = self._flag_of(self.F, st.test)
                    if flag:
                        # early exit: the rest of the block runs under the negated flag
                        self._ctx = frozenset(getattr(self, "_ctx", frozenset())) | {(flag[0], not flag[1])}
            self._last_ctx = frozenset(getattr(self, "_ctx", frozenset()))
            return state
        finally:
            self._ctx = saved

    def reads(self, fn, node, state, skip_targets=()):
        ctx = Ctx(self.pm, fn, self.cls)
        # receivers of pure writes into a container (self.data.add(...)) do not read the object's state
        write_recv = {
            id(c.func.value) for c in walk_no_nested(node)
            if isinstance(c, ast.Call) and isinstance(c.func, ast.Attribute) and c.func.attr in ("add", "set_attrs") and is_self_attr(c.func.value)
        }
        for n in walk_no_nested(node):
            if isinstance(n, ast.Attribute) and isinstance(n.ctx, ast.Load) and is_self_attr(n) and n.attr in self.F and n.attr not in state \
                    and id(n) not in write_recv:
                # assigned under a stable hyper-parameter flag that also holds here (correlated `if self.flag:` blocks)
                G = set(getattr(self, "_ctx", ()))
                if any(isinstance(x, tuple) and x[0] == n.attr and x[1] <= G for x in state):
                    continue
                self.exposed.setdefault(n.attr, (fn, n))
        # calls to own methods, in evaluation order (approximated by source order)
        calls = [n for n in walk_no_nested(node) if isinstance(n, ast.Call)]
        calls.sort(key=lambda c: (c.end_lineno, c.end_col_offset))
        for c in calls:
            for t in ctx.resolve_call(c):
                if t.fn is not None and t.recv == "self" and t.fn.cls is not None and t.fn.cls in self.cls.mro:
                    state = self.run(t.fn, state)
        return state

    def assign_targets(self, targets):
        out = set()
        for t in targets:
            for tt in flatten_targets(t):
                if is_self_attr(tt):
                    out.add(tt.attr)
        return out

    def stmt(self, fn, st, state):
        if isinstance(st, ast.Assign):
            state = self.reads(fn, st.value, state)
            for t in st.targets:
                for tt in flatten_targets(t):
                    if not is_self_attr(tt):
                        state = self.reads(fn, tt, state)
            return state | self.assign_targets(st.targets)
        if isinstance(st, ast.AnnAssign):
            if st.value is not None:
                state = self.reads(fn, st.value, state)
                return state | self.assign_targets([st.target])
            return state
        if isinstance(st, ast.AugAssign):
            state = self.reads(fn, st.value, state)
            if is_self_attr(st.target) and st.target.attr in self.F and st.target.attr not in state:
                self.exposed.setdefault(st.target.attr, (fn, st))
            return state
        if isinstance(st, ast.If):
            state = self.reads(fn, st.test, state)
            flag = None
            t = st.test
            if is_self_attr(t) and t.attr not in self.F:
                flag = (t.attr, True)
            elif isinstance(t, ast.UnaryOp) and isinstance(t.op, ast.Not) and is_self_attr(t.operand) and t.operand.attr not in self.F:
                flag = (t.operand.attr, False)
            old_ctx = getattr(self, "_ctx", frozenset())
            if flag:
                self._ctx = old_ctx | {flag}
            a = self.block(fn, st.body, state)
            if flag:
                self._ctx = old_ctx | {(flag[0], not flag[1])}
            b = self.block(fn, st.orelse, state)
            self._ctx = old_ctx
            if a is None and b is None:
                return None
            if a is None:
                return b
            if b is None:
                return a
            out = a & b
            if flag:
                plain = lambda S: {x for x in S if not isinstance(x, tuple)}
                out = out | {(x, frozenset({flag})) for x in plain(a) - plain(b)} | {(x, frozenset({(flag[0], not flag[1])})) for x in plain(b) - plain(a)}
            return frozenset(out)
        if isinstance(st, (ast.For, ast.While)):
            state = self.reads(fn, st.iter if isinstance(st, ast.For) else st.test, state)
            self.block(fn, st.body, state)
            self.block(fn, st.orelse, state)
            return state
        if isinstance(st, ast.With):
            for it in st.items:
                state = self.reads(fn, it.context_expr, state)
            return self.block(fn, st.body, state)
        if isinstance(st, ast.Try):
            a = self.block(fn, st.body, state)
            for h in st.handlers:
                self.block(fn, h.body, state)
            out = state if a is None else (a & state) | state
            if st.finalbody:
                out = self.block(fn, st.finalbody, out)
            return out
        if isinstance(st, ast.Match):
            state = self.reads(fn, st.subject, state)
            outs = [self.block(fn, c.body, state) for c in st.cases]
            outs = [o for o in outs if o is not None]
            if not outs:
                return None
            res = outs[0]
            for o in outs[1:]:
                res = res & o
            has_default = any(isinstance(c.pattern, ast.MatchAs) and c.pattern.pattern is None for c in st.cases)
            return res if has_default else (res & state)
        if isinstance(st, ast.Return):
            if st.value is not None:
                state = self.reads(fn, st.value, state)
            self._returns.append((state, frozenset(getattr(self, "_ctx", frozenset()))))
            return None
        if isinstance(st, ast.Raise):
            return None
        if isinstance(st, (ast.FunctionDef, ast.ClassDef, ast.Import, ast.ImportFrom, ast.Pass, ast.Global, ast.Nonlocal)):
            return state
        if isinstance(st, ast.Expr):
            return self.reads(fn, st.value, state)
        return self.reads(fn, st, state)


def _rbw(chk, persistent):
    pm = chk.pm
    for q in sorted(persistent):
        cls = pm.classes.get(q)
        if cls is None or cls.name == "DataContainer":
            continue
        for entry in _fit_entries(cls)[:1]:
            closure = self_closure(pm, cls, entry)
            comp = cls.resolve("compute")
            if comp is not None:
                closure += self_closure(pm, cls, comp)
            F: set[str] = set()
            for fn in closure:
                if fn.name == "__init__":
                    continue
                for n in walk_no_nested(fn.node):
                    ts = []
                    if isinstance(n, ast.Assign):
                        ts = n.targets
                    elif isinstance(n, (ast.AnnAssign, ast.AugAssign)):
                        ts = [n.target]
                    for t in ts:
                        for tt in flatten_targets(t):
                            if is_self_attr(tt):
                                F.add(tt.attr)
            an = _RBW(pm, cls, F)
            an.run(entry, frozenset())
            if not an.exposed:
                chk.ok("HIST.rbw", entry, None, context=cls.name, construct=f"{cls.name}.{entry.name}: state rebuilt before it is read",
                       facts={"fit_assigned": sorted(F)}, nontrivial=bool(F))
            for attr, (fn, node) in sorted(an.exposed.items()):
                chk.violation("HIST.rbw", fn, node, context=cls.name, construct=f"{cls.name}: self.{attr} read before it is rebuilt ({norm(node)[:80]})",
                              why=f"self.{attr} is (re)assigned during fit/compute but is read on the fit path before the new fit has assigned it: "
                                  f"the value left by the previous fit leaks into this one")


# ----------------------------------------------------------------------------
def _isolate(chk):
    pm = chk.pm
    fitted_readers = ("inverse_transform_data", "inverse_transform_components", "inverse_transform_scores")
    for cls in transformer_classes(pm):
        tr = cls.resolve("transform")
        fit = cls.resolve("fit")
        if tr is None or tr.is_abstract:
            continue
        written: dict[str, tuple[FuncInfo, ast.AST]] = {}
        for fn in self_closure(pm, cls, tr):
            ff = FuncFacts.of(fn)
            for n in walk_no_nested(fn.node):
                if isinstance(n, ast.Assign):
                    for t in n.targets:
                        for tt in flatten_targets(t):
                            a = tt.attr if is_self_attr(tt) else (tt.value.attr if isinstance(tt, ast.Subscript) and is_self_attr(tt.value) else None)
                            if a is None:
                                continue
                            # value-preserving rewrite: the new value is the old one passed through compute()
                            ps = ff.paths(n.value, spine_only=True)
                            same = any(p.atom.kind == "selfattr" and p.atom.name == f"self.{a}" and not [o for o in p.ops if o.kind not in ("unpack",)] for p in ps)
                            if same and all(p.atom.kind in ("selfattr", "param", "call") for p in ps):
                                # tuple-preserving compute(self.a, ...) -> self.a
                                idx_ok = any(p.atom.name == f"self.{a}" for p in ps)
                                if idx_ok and isinstance(n.value, ast.Call):
                                    continue
                            written[a] = (fn, n)
                elif isinstance(n, ast.Call) and isinstance(n.func, ast.Attribute) and n.func.attr in GROW_METHODS and is_self_attr(n.func.value):
                    written[n.func.value.attr] = (fn, n)
        readers: dict[str, FuncInfo] = {}
        for r in fitted_readers:
            m = cls.resolve(r)
            if m is None or m.is_abstract:
                continue
            for fn in self_closure(pm, cls, m):
                from .c05 import reads_in
            for a in reads_in(pm, cls, m, {}):
                readers.setdefault(a, m)
        # attributes the fit itself assigns first are rebuilt per fit; the problem is transform-only state
        fit_assigned = set()
        if fit is not None:
            for fn in self_closure(pm, cls, fit):
                if fn is tr or fn in self_closure(pm, cls, tr):
                    continue
                for n in walk_no_nested(fn.node):
                    if isinstance(n, ast.Assign):
                        for t in n.targets:
                            for tt in flatten_targets(t):
                                if is_self_attr(tt):
                                    fit_assigned.add(tt.attr)
        bad = sorted(a for a in written if a in readers)
        for a in bad:
            fn, node = written[a]
            chk.violation("HIST.isolate", fn, node, context=cls.name,
                          why=f"self.{a} is written by transform() and read by {readers[a].name}(): transforming other data changes what the "
                              "fitted-data accessors (scores, components, inverse_transform) return afterwards")
        chk.ok("HIST.isolate", cls.qualname, None, construct=f"{cls.name}: transform-written state {sorted(written)} not read by fitted accessors",
               nontrivial=bool(written))


# ----------------------------------------------------------------------------
FRESH_OPS = {"method", "arg", "binop", "unary", "marg"}
PUBLIC_INPUT_PARAMS = {"X", "Y", "data", "weights", "weights_X", "weights_Y", "views", "scores"}


def _borrowed_path(p: Path, fn: FuncInfo) -> str | None:
    """description of the borrowed source if the path hands on the very object of another owner"""
    if any(o.kind in FRESH_OPS for o in p.ops):
        return None
    if p.atom.kind != "param":
        return None
    name = p.atom.name
    ann = None
    is_model = name == "model"
    is_input = (not fn.name.startswith("_")) and name in PUBLIC_INPUT_PARAMS and fn.cls is not None
    if is_model and any(o.kind == "subscript" for o in p.ops):
        key = [o.name for o in p.ops if o.kind == "subscript"]
        return f"model.data[{key[0]}]"
    if is_input and not p.ops:
        return f"caller's argument '{name}'"
    return None


def _borrowed_stages(chk):
    """OWN.borrowed.stage - a rotator / bootstrapper fitted on a model keeps answering from what it was fitted on.  The
    model's stage objects (preprocessor, pca, whitener ...) are created once in the model's constructor and RE-FITTED IN
    PLACE by every model.fit(); an object that stores a reference to them (``self.preprocessor = model.preprocessor``)
    changes its own transform / inverse_transform results when the model is fitted again.  The stage objects taken over
    from a model are copies (copy.deepcopy / copy.copy(...) / a serialise-deserialise round trip)."""
    pm = chk.pm
    n = 0
    COPIES = {"deepcopy", "copy", "deserialize", "clone"}
    for cls in pm.classes.values():
        for fn in cls.methods.values():
            if "model" not in fn.params:
                continue
            for st in walk_no_nested(fn.node):
                if not (isinstance(st, ast.Assign) and len(st.targets) == 1 and is_self_attr(st.targets[0])):
                    continue
                v = st.value
                if not (isinstance(v, ast.Attribute) and isinstance(v.value, ast.Name) and v.value.id == "model"):
                    inner = [x for x in ast.walk(v) if isinstance(x, ast.Attribute) and isinstance(x.value, ast.Name) and x.value.id == "model"]
                    wrapped = isinstance(v, ast.Call) and (dotted(v.func) or "").split(".")[-1] in COPIES and inner
                    if wrapped and any(_is_stage_attr(pm, x.attr) for x in inner):
                        n += 1
                        chk.ok("OWN.borrowed.stage", fn, st, construct=f"{cls.name}: self.{st.targets[0].attr} is a copy of model.{inner[0].attr}")
                    continue
                if not _is_stage_attr(pm, v.attr):
                    continue
                n += 1
                chk.check(False, "OWN.borrowed.stage", fn, st, construct=f"{cls.name}: self.{st.targets[0].attr} is a copy of model.{v.attr}",
                          why=f"{fn.qualname} stores a reference to model.{v.attr}, which model.fit() re-fits in place: after the base model is fitted on other data this object's "
                              "transform / inverse_transform answer with the new preprocessing although it was never fitted again (take a copy)")
    chk.require(n >= 3, f"OWN.borrowed.stage: only {n} stage objects taken over from a model found (anchor vanished)")


_STAGE_CACHE: dict = {}


def _is_stage_attr(pm, attr: str) -> bool:
    """is ``attr`` an attribute that some model class binds to a Transformer / Preprocessor object in its constructor and
    whose fit / fit_transform it calls (i.e. an object re-fitted in place)"""
    if attr in _STAGE_CACHE:
        return _STAGE_CACHE[attr]
    t = pm.cls("xeofs.preprocessing.transformer.Transformer")
    prep = pm.cls("xeofs.preprocessing.preprocessor.Preprocessor")
    res = False
    for cls in pm.classes.values():
        ty = pm.attrtype(cls, attr)
        tys = ty if isinstance(ty, (list, tuple, set)) else [ty]
        for y in tys:
            if hasattr(y, "mro") and (t in y.mro or y is prep or prep in y.mro):
                res = True
    _STAGE_CACHE[attr] = res
    return res


def _serialize_mutates(chk):
    """HIST.serialize_mutates - serialize() (also run by compute(), save() and every rotator fit with compute=True) only
    READS the live objects: a name / attribute written on an array it is handed (``data.name = key``) changes the label of
    the live state array - PCA.V becomes 'V' and every later components() of a cross-set model is called 'V', a user's
    weights array is renamed in the user's hands."""
    pm = chk.pm
    n = 0
    for fn in pm.all_functions():
        if fn.name not in ("_serialize_data", "_serialize", "serialize", "get_serialization_attrs"):
            continue
        ff = None
        params = {p for p in fn.params if p not in ("self", "cls")}
        for st in walk_no_nested(fn.node):
            if not isinstance(st, (ast.Assign, ast.AugAssign)):
                continue
            for t in (st.targets if isinstance(st, ast.Assign) else [st.target]):
                base = None
                if isinstance(t, ast.Attribute) and t.attr in ("name", "attrs", "values", "data", "encoding"):
                    base = t.value
                elif isinstance(t, ast.Subscript) and isinstance(t.value, ast.Attribute) and t.value.attr in ("attrs", "coords", "encoding"):
                    base = t.value.value
                if not isinstance(base, ast.Name):
                    continue
                ff = ff or FuncFacts.of(fn)
                defs = ff.rd.reaching(base.id, ff.node_of(st))
                live = any(d.kind == "param" for d in defs) or any(isinstance(d.stmt, ast.For) and any(
                    isinstance(x, ast.Call) and isinstance(x.func, ast.Attribute) and x.func.attr in ("items", "values") and (is_self_attr(x.func.value) or (isinstance(x.func.value, ast.Name) and x.func.value.id == "self"))
                    for x in ast.walk(d.stmt.iter)) for d in defs)
                if base.id in params or live:
                    # a loop variable over the object's own items / a parameter: the live object
                    fresh = any(d.kind == "assign" and d.value is not None and any(isinstance(x, ast.Call) and isinstance(x.func, ast.Attribute) and x.func.attr in ("copy", "rename", "to_dataset", "reset_index")
                                                                                      for x in ast.walk(d.value)) for d in defs)
                    n += 1
                    chk.check(fresh and not any(d.kind == "param" for d in defs), "HIST.serialize_mutates", fn, st, construct=f"{fn.qualname}: `{norm(t)}` is written on a copy",
                              why=f"{fn.qualname} writes `{norm(st)[:60]}` on the live object it serialises: serialize() / compute() / save() change the labels the model returns afterwards "
                                  "(and a user's array kept by reference is renamed in the user's hands)")
    chk.ok("HIST.serialize_mutates", "xeofs", None, construct=f"<writes on live objects in serialisation functions: {n}>", nontrivial=False)


def _borrowed(chk):
    pm = chk.pm
    n = 0
    for fn in pm.all_functions():
        ff = None
        if fn.cls is not None and fn.cls.name == "DataContainer":
            continue  # the container's own API: it takes ownership of what it is given (that is the sink)
        for c in calls_in(fn):
            f = c.func
            # DataContainer.add(...)
            if isinstance(f, ast.Attribute) and f.attr == "add" and dotted(f.value) in ("self.data", "self.model_data"):
                kw = {k.arg: k.value for k in c.keywords}
                data = kw.get("data") or (c.args[0] if c.args else None)
                if data is None:
                    continue
                ff = ff or FuncFacts.of(fn)
                n += 1
                src = None
                for p in ff.paths(data, spine_only=True):
                    src = src or _borrowed_path(p, fn)
                chk.check(src is None, "OWN.borrowed", fn, c,
                          why=f"{src} is stored in this object's container as the very same object; DataContainer.add() renames it and "
                              "set_attrs() overwrites its attrs, so the other owner's array changes (take a shallow copy)")
        # direct mutation of borrowed objects
        for st in walk_no_nested(fn.node):
            tgt = None
            if isinstance(st, ast.Assign):
                for t in st.targets:
                    if isinstance(t, ast.Attribute) and t.attr in ("name", "attrs", "values", "data") and not is_self_attr(t):
                        tgt = t.value
                    elif isinstance(t, ast.Subscript) and isinstance(t.value, ast.Attribute) and t.value.attr in ("attrs", "coords", "loc") and not is_self_attr(t.value):
                        tgt = t.value.value
                    elif isinstance(t, ast.Subscript) and isinstance(t.value, ast.Name):
                        tgt = t.value
            elif isinstance(st, ast.AugAssign) and isinstance(st.target, ast.Name):
                tgt = st.target
            elif isinstance(st, ast.Call) and isinstance(st.func, ast.Attribute) and st.func.attr == "update" and isinstance(st.func.value, ast.Attribute) \
                    and st.func.value.attr in ("attrs", "coords"):
                tgt = st.func.value.value
            if tgt is None:
                continue
            ff = ff or FuncFacts.of(fn)
            n += 1
            src = None
            for p in ff.paths(tgt, spine_only=True):
                src = src or _borrowed_path(p, fn)
            chk.check(src is None, "OWN.borrowed.mutate", fn, st,
                      why=f"{src} is modified in place: fitting must not change the user's objects or another model's results")
    chk.info["ownership_sinks_examined"] = n


def _cache(chk, rule="HIST.cache"):
    """a value derived from fitted state and memoised on the object (functools.cached_property / lru_cache / cache on a
    method, or a hand-written `if self._x is None: self._x = ...`) survives a refit unless fit invalidates it: the maps
    that read the memo then belong to the previous fit"""
    pm = chk.pm
    n = 0
    for cls in pm.classes.values():
        fitted = set()
        for nm in ("fit", "_fit_algorithm", "fit_transform"):
            m = cls.resolve(nm)
            if m is not None and m.cls is not None:
                for g in self_closure(pm, cls, m):
                    for st in walk_no_nested(g.node):
                        tg = st.targets if isinstance(st, ast.Assign) else [st.target] if isinstance(st, (ast.AnnAssign, ast.AugAssign)) else []
                        for t in tg:
                            for tt in flatten_targets(t):
                                if is_self_attr(tt):
                                    fitted.add(tt.attr)
        if not fitted:
            continue
        for m in cls.methods.values():
            decos = {(dotted(d.func) if isinstance(d, ast.Call) else dotted(d)) or "" for d in m.node.decorator_list}
            cached = any(d.split(".")[-1] in ("cached_property", "lru_cache", "cache") for d in decos)
            if not cached:
                continue
            n += 1
            reads = {x.attr for x in walk_no_nested(m.node) if isinstance(x, ast.Attribute) and is_self_attr(x) and isinstance(x.ctx, ast.Load)} & fitted
            # invalidated by fit?  (del self.<name> / self.__dict__.pop("<name>") / <method>.cache_clear())
            inval = False
            for nm in ("fit", "_fit_algorithm"):
                f2 = cls.resolve(nm)
                if f2 is None:
                    continue
                txt = " ".join(norm(g.node) for g in self_closure(pm, cls, f2))
                if f"del self.{m.name}" in txt or f"pop('{m.name}'" in txt or f"{m.name}.cache_clear" in txt:
                    inval = True
            chk.check(not reads or inval, rule, m, m.node, construct=f"{cls.name}.{m.name}: memoised value of fitted state {sorted(reads)}", context=cls.name,
                      why=f"{cls.name}.{m.name} memoises a value computed from {sorted(reads)}, which fit() re-assigns, and fit() does not invalidate the memo: after a refit "
                          "the methods that use it still work with the previous fit's value")
    chk.ok(rule, "xeofs", None, construct=f"<{n} memoised methods examined>", nontrivial=False)


def alias_sites(pm):
    """(function, statement, target attribute, source attribute): an attribute bound to the container that another
    attribute of the same object holds (directly or through a local), in any method - the containers are initialised in
    one method (usually __init__) and aliased in another"""
    mutable_of: dict[str, set[str]] = {}
    for cls in pm.classes.values():
        acc = set()
        for c in cls.mro:
            for m in c.methods.values():
                for st in walk_no_nested(m.node):
                    if isinstance(st, ast.Assign) and (isinstance(st.value, (ast.Dict, ast.List, ast.Set, ast.DictComp, ast.ListComp)) or (
                            isinstance(st.value, ast.Call) and isinstance(st.value.func, ast.Name) and st.value.func.id in ("dict", "list", "set"))):
                        acc |= {t.attr for t in st.targets if is_self_attr(t)}
        mutable_of[cls.qualname] = acc
    for fn in pm.all_functions():
        if fn.cls is None:
            continue
        mutable_attrs = mutable_of.get(fn.cls.qualname, set())
        if not mutable_attrs:
            continue
        ff = FuncFacts.of(fn)
        for st in walk_no_nested(fn.node):
            if not (isinstance(st, ast.Assign) and any(is_self_attr(t) for t in st.targets)):
                continue
            if isinstance(st.value, (ast.Call, ast.Dict, ast.List, ast.Set, ast.Constant, ast.BinOp, ast.DictComp, ast.ListComp)):
                continue  # a new object (copy(), dict(...), display)
            srcs = {p.atom.name.split(".", 1)[1] for p in ff.paths(st.value, spine_only=True) if p.atom.kind == "selfattr" and not p.ops}
            # self.b = self.a right after self.a = {} (provenance would see the display, the object is the same one)
            v, hops = st.value, 0
            while isinstance(v, ast.Name) and hops < 4:
                ds = ff.rd.reaching(v.id, ff.node_of(v) if hops == 0 else ds[0].node)
                if len(ds) != 1 or ds[0].kind != "assign" or ds[0].index or not isinstance(ds[0].value, ast.expr):
                    break
                v, hops = ds[0].value, hops + 1
            if is_self_attr(v):
                srcs.add(v.attr)
            for t in st.targets:
                if is_self_attr(t):
                    for a in sorted(srcs):
                        if a in mutable_attrs and a != t.attr:
                            yield fn, st, t.attr, a
                            break


def _alias(chk):
    """two attributes of one object must not be bound to the same mutable container (a = b = {}): writing
    the bookkeeping of one role (transform) would change the other (fit)"""
    pm = chk.pm
    n = 0
    for fn in pm.all_functions():
        if fn.cls is None:
            continue
        mutable_attrs = set()
        for st in walk_no_nested(fn.node):
            if isinstance(st, ast.Assign) and isinstance(st.value, (ast.Dict, ast.List, ast.Set, ast.DictComp, ast.ListComp)) or (
                    isinstance(st, ast.Assign) and isinstance(st.value, ast.Call) and isinstance(st.value.func, ast.Name) and st.value.func.id in ("dict", "list", "set")):
                selfs = [t for t in st.targets if is_self_attr(t)]
                n += 1
                if len(selfs) >= 2:
                    chk.violation("HIST.alias", fn, st,
                                  why=f"{[norm(t) for t in selfs]} are bound to one and the same mutable object: what transform records in one of them "
                                      "overwrites what fit remembered in the other")
                else:
                    for t in selfs:
                        mutable_attrs.add(t.attr)
    for fn, st, tattr, src in alias_sites(pm):
        chk.violation("HIST.alias", fn, st, why=f"self.{tattr} is bound to the very container that self.{src} holds: what is later recorded under one "
                                                f"name (transform) overwrites what the other remembered (fit)")
    chk.ok("HIST.alias", "xeofs", None, construct=f"<{n} mutable container initialisations examined>", nontrivial=False)


def _query_mutates(chk):
    """queries must not change the fitted results: outside the fit / compute paths no entry of a result container is
    modified in place (augmented assignment, item assignment, .values/.data assignment) or replaced"""
    pm = chk.pm
    base = pm.cls("xeofs.base_model.BaseModel")
    n = 0
    for cls in pm.concrete_models():
        fitpath: set[str] = set()
        for e in _fit_entries(cls):
            for fn in self_closure(pm, cls, e):
                fitpath.add(fn.qualname)
        for nm in ("compute", "_post_compute", "deserialize", "_deserialize_attrs", "load", "__init__"):
            m = cls.resolve(nm)
            if m is not None:
                for fn in self_closure(pm, cls, m):
                    fitpath.add(fn.qualname)
        names = set()
        for c in cls.mro:
            names |= set(c.methods)
        for nm in sorted(names):
            m = cls.resolve(nm)
            if m is None or m.qualname in fitpath or m.name.startswith("__"):
                continue
            ff = FuncFacts.of(m)
            bad = []
            for st in walk_no_nested(m.node):
                tgt = None
                if isinstance(st, ast.AugAssign):
                    tgt = st.target if not isinstance(st.target, ast.Subscript) else st.target.value
                elif isinstance(st, ast.Assign):
                    for t in st.targets:
                        if isinstance(t, ast.Subscript) and dotted(t.value) in ("self.data", "self.model_data"):
                            bad.append((st, f"{dotted(t.value)}[...] is replaced"))
                        elif isinstance(t, ast.Subscript):
                            tgt = t.value
                        elif isinstance(t, ast.Attribute) and t.attr in ("values", "data") and not is_self_attr(t):
                            tgt = t.value
                if tgt is None:
                    continue
                for p in ff.paths(tgt, spine_only=True):
                    ck = p.container_key()
                    if ck is not None and ck[0] in ("self.data", "self.model_data") and not any(o.kind in FRESH_OPS for o in p.ops[1:]):
                        bad.append((st, f"{ck[0]}[{ck[1]!r}] is modified in place"))
            n += 1
            for st, what in bad[:2]:
                chk.violation("HIST.query_mutates", m, st, context=cls.name,
                              why=f"{what} by the query {m.name}(): the next call of any accessor returns different results although the model was not refitted")
            if not bad:
                chk.ok("HIST.query_mutates", m, None, context=cls.name, construct=f"{cls.name}.{m.name}: does not modify stored results", nontrivial=False)
    chk.info["query_methods_examined"] = n


def _refit_borrowed(chk):
    pm = chk.pm
    for cls in pm.concrete_models():
        borrowed = set()
        for c in cls.mro:
            for m in c.methods.values():
                if m.name == "__init__":
                    continue
                for n in walk_no_nested(m.node):
                    if isinstance(n, ast.Assign) and len(n.targets) == 1 and is_self_attr(n.targets[0]):
                        v = n.value
                        if isinstance(v, ast.Attribute) and isinstance(v.value, ast.Name) and v.value.id == "model":
                            borrowed.add(n.targets[0].attr)
        fit = cls.resolve("fit")
        takes_model = fit is not None and "model" in fit.params
        if not borrowed and not takes_model:
            continue
        bad = []
        for fn in self_closure(pm, cls, fit):
            for c in calls_in(fn):
                f = c.func
                if isinstance(f, ast.Attribute) and f.attr in ("fit", "fit_transform") and is_self_attr(f.value) and f.value.attr in borrowed:
                    bad.append((fn, c, f.value.attr))
                # ... nor through the model handed in
                if takes_model and "model" in fn.params and isinstance(f, ast.Attribute) and f.attr in ("fit", "fit_transform") and isinstance(f.value, ast.Attribute) \
                        and isinstance(f.value.value, ast.Name) and f.value.value.id == "model":
                    bad.append((fn, c, "model." + f.value.attr))
                if takes_model and "model" in fn.params and isinstance(f, ast.Attribute) and f.attr in ("fit", "fit_transform") and isinstance(f.value, ast.Name) and f.value.id == "model":
                    bad.append((fn, c, "model"))
        for fn, c, a in bad:
            chk.violation("OWN.refit", fn, c, context=cls.name,
                          why=f"{a if a.startswith('model') else 'self.' + a} is the base model's own (stage) object; re-fitting it changes what the base model returns")
        chk.ok("OWN.refit", cls.qualname, None, construct=f"{cls.name}: borrowed stage objects {sorted(borrowed)} are not re-fitted", nontrivial=True)


def _defaults(chk):
    pm = chk.pm
    n = 0
    for fn in pm.all_functions():
        muts = {p for p, d in fn.defaults().items() if isinstance(d, (ast.Dict, ast.List, ast.Set))}
        if not muts:
            continue
        ff = FuncFacts.of(fn)
        bad = None
        for c in calls_in(fn):
            f = c.func
            if isinstance(f, ast.Attribute) and f.attr in GROW_METHODS | {"pop", "clear", "popitem", "remove"}:
                for p in ff.paths(f.value, spine_only=True):
                    if p.atom.kind == "param" and p.atom.name in muts and not any(o.kind in FRESH_OPS for o in p.ops):
                        bad = (c, p.atom.name)
        for st in walk_no_nested(fn.node):
            if isinstance(st, ast.Assign):
                for t in st.targets:
                    if isinstance(t, ast.Subscript):
                        for p in ff.paths(t.value, spine_only=True):
                            if p.atom.kind == "param" and p.atom.name in muts and not any(o.kind in FRESH_OPS for o in p.ops):
                                bad = (st, p.atom.name)
        n += 1
        chk.check(bad is None, "OWN.default", fn, bad[0] if bad else None, construct=f"{fn.qualname}: mutable defaults {sorted(muts)} not mutated" if bad is None else None,
                  why=f"the mutable default argument '{bad[1] if bad else ''}' is modified in place: the change is shared by every later call and every model")
    # attributes that alias a mutable default must not be mutated either (self.solver_kwargs.setdefault ...)
    for fn in pm.all_functions():
        for c in calls_in(fn):
            f = c.func
            if isinstance(f, ast.Attribute) and f.attr in ("setdefault", "update", "pop", "clear") and is_self_attr(f.value) and f.value.attr in ("solver_kwargs", "_iter_kwargs", "init_kwargs"):
                chk.violation("OWN.default.attr", fn, c,
                              why=f"self.{f.value.attr} aliases the caller's dict (possibly the shared default {{}}); mutating it leaks between models and calls")
