"""C16 - fractional whitening and PCA reduction are invertible changes of basis (structural clauses).

ADJOINT.maps      per stage class the four maps use matrices in the adjoint/inverse relations:
                  data-forward and pattern-forward the same matrix with opposite conjugation,
                  data-inverse and pattern-inverse likewise, forward and inverse an inverse pair
                  (Whitener: T / Tinv; PCA: V / V^H)
ADJOINT.dims      forward maps contract the feature dimension, inverse maps the mode/dummy dimension
ADJOINT.inverse   Tinv is computed from T (inv, pinv fallback) where T is computed
ADJOINT.power     the whitening exponent is (alpha - 1) / 2 (so that cov(XT) = C**alpha)
ADJOINT.rebuild   the fractional power rebuilds V diag(s**p) V^H; the Gram matrix is X^H X
GUARD.sanity      the 2-D/dimension check dominates every product in fit and transform
"""

from __future__ import annotations

import ast

from ..pm import AnalysisError, FuncInfo, const_str, dotted, is_self_attr, norm, walk_no_nested
from ..prov import FuncFacts
from .common import call_kwargs, conj_parity, dot_dims, dot_operands, is_dot_call, resolve_single, returns_of
from .c09 import _matmul_operands, _operand_chain

MAPS = {
    "transform": ("data", "fwd"),
    "inverse_transform_data": ("data", "inv"),
    "transform_components": ("pattern", "fwd"),
    "inverse_transform_components": ("pattern", "inv"),
}


def _map_facts(chk, cls, mname, _depth=0):
    pm = chk.pm
    fn = cls.methods.get(mname)
    chk.require(fn is not None, f"{cls.name}.{mname} vanished")
    ff = FuncFacts.of(fn)
    dots = [c for c in ff.calls() if is_dot_call(c)]
    if not dots and _depth == 0:
        # the map is delegated to a sibling map of the same object with the roles of the two axes exchanged
        # (patterns handed to the data map, modes standing in for samples): it then applies the sibling's matrix
        # TRANSPOSED, with the sibling's conjugation - flipped only if both the argument and the result are conjugated
        sib = [c for c in ff.calls() if isinstance(c.func, ast.Attribute) and is_self_attr(c.func.value) is False and isinstance(c.func.value, ast.Name) and c.func.value.id == "self"
               and c.func.attr in MAPS and c.func.attr != mname]
        if len(sib) == 1:
            sfn, _, smat, sdim = _map_facts(chk, cls, sib[0].func.attr, _depth=1)
            argc = 0
            if sib[0].args:
                argc = max((conj_parity(p) for p in ff.paths(sib[0].args[0], spine_only=True)), default=0)
            resc = 0
            for r in returns_of(fn):
                for p in ff.paths(r.value, spine_only=True):
                    if any((o.kind == "arg" and o.node is sib[0]) for o in p.ops) or (p.atom.kind == "call" and p.atom.node is sib[0]):
                        after = p.ops[[i for i, o in enumerate(p.ops) if o.node is sib[0]][-1] + 1:] if any(o.node is sib[0] for o in p.ops) else p.ops
                        resc = max(resc, sum(1 for o in after if o.kind == "method" and o.name in ("conj", "conjugate")) % 2)
            flip = 1 if (argc and resc) else 0
            return fn, sib[0], (smat[0], smat[1] ^ flip, 1 - smat[2]), "delegated"
    chk.require(len(dots) == 1, f"{cls.name}.{mname}: expected exactly one dot product, found {len(dots)}")
    c = dots[0]
    mat = None
    for opnd in dot_operands(c):
        for p in ff.paths(opnd, spine_only=True, follow=True):
            if p.atom.kind == "selfattr" and p.atom.name in ("self.T", "self.Tinv", "self.V"):
                nT = sum(1 for o in p.ops if (o.kind == "attr" and o.name == "T") or (o.kind == "method" and o.name == "transpose"))
                mat = (p.atom.name.split(".")[1], conj_parity(p), nT % 2)
    chk.require(mat is not None, f"{cls.name}.{mname}: the dot product does not use a fitted matrix attribute")
    d = dot_dims(c)
    dim_src = None
    if d is not None:
        ps = ff.paths(d, spine_only=True, follow=True)
        if any(p.atom.kind == "selfattr" and p.atom.name == "self.feature_name" for p in ps):
            dim_src = "feature"
        elif any(p.atom.kind == "const" for p in ps):
            dim_src = [p.atom.name.strip("'\"") for p in ps if p.atom.kind == "const"][0]
    # the contraction dimension is CARRIED by both operands: a fresh helper name (dummy_dim) must be given to both by a
    # rename, "mode" must be given to the data operand (whose native dimensions are sample x feature) by a rename
    def renamed_to(opnd, name: str) -> bool:
        for p in ff.paths(opnd, spine_only=True, follow=True):
            for o in p.ops:
                if o.kind == "method" and o.name == "rename" and o.node.args and isinstance(o.node.args[0], ast.Dict):
                    for v in o.node.args[0].values:
                        if any(q.atom.kind == "const" and q.atom.name.strip("'\"") == name for q in ff.eval_in(o.frame, v, spine_only=True)):
                            return True
        return False

    if dim_src not in (None, "feature"):
        opnds = dot_operands(c)
        for opnd in opnds:
            is_matrix = any(p.atom.kind == "selfattr" and p.atom.name in ("self.T", "self.Tinv", "self.V") for p in ff.paths(opnd, spine_only=True, follow=True))
            need = (dim_src != "mode") or not is_matrix
            if need:
                chk.check(renamed_to(opnd, dim_src), "ADJOINT.dims.carried", fn, opnd, construct=f"{cls.name}.{mname}: operand {norm(opnd)[:40]} carries the contraction dimension {dim_src!r}",
                          why=f"the product contracts over {dim_src!r} but this operand is never renamed to carry that dimension: xr.dot then sums nothing over it "
                              "and multiplies the shared dimensions element-wise - the map is not the matrix product it should be")
    return fn, c, mat, dim_src


def check(chk):
    pm = chk.pm
    # the maps use the matrices of THIS fit: no memo of a derived matrix survives a refit (shared with C14)
    from . import c14 as _c14
    from .c01 import _Relabel as _RL
    _c14._cache(_RL(chk, "HIST.cache", "ADJOINT.cache"))
    wh = pm.cls("xeofs.preprocessing.whitener.Whitener")
    pca = pm.cls("xeofs.preprocessing.pca.PCA")
    for cls in (wh, pca):
        facts = {}
        for m, role in MAPS.items():
            facts[role] = _map_facts(chk, cls, m)
        fd, idd, fp, ip = facts[("data", "fwd")], facts[("data", "inv")], facts[("pattern", "fwd")], facts[("pattern", "inv")]
        # same matrix, opposite conjugation between the data map and the pattern map of one direction
        for a, b, lab in ((fd, fp, "forward"), (idd, ip, "inverse")):
            same = a[2][0] == b[2][0]
            opp = a[2][1] != b[2][1] and a[2][2] != b[2][2]
            chk.check(same and opp, "ADJOINT.maps.adjoint", b[0], b[1],
                      construct=f"{cls.name} {lab}: data map uses {a[2]}, pattern map uses {b[2]}",
                      why=f"the {lab} pattern map must be the adjoint of the {lab} data map: same matrix, conjugate-transposed "
                          f"(data: {a[2][0]} conj={a[2][1]} T={a[2][2]}; pattern: {b[2][0]} conj={b[2][1]} T={b[2][2]})")
        if cls is wh:
            pair = {fd[2][0], idd[2][0]} == {"T", "Tinv"} and fd[2][0] == "T"
            chk.check(pair, "ADJOINT.maps.inverse_pair", idd[0], idd[1],
                      construct=f"Whitener: forward uses {fd[2][0]}, inverse uses {idd[2][0]}",
                      why="un-whitening must use the stored inverse Tinv of the whitening matrix T")
            chk.check(fd[2][1] == 0 and idd[2][1] == 0, "ADJOINT.maps.data_plain", fd[0], fd[1],
                      construct="Whitener data maps use the matrices unconjugated", why="data maps are X T and X Tinv (no conjugation)")
        else:
            pair = fd[2][0] == idd[2][0] == "V" and fd[2][1] != idd[2][1] and fd[2][2] != idd[2][2]
            chk.check(pair, "ADJOINT.maps.inverse_pair", idd[0], idd[1],
                      construct=f"PCA: forward uses V{fd[2][1:]}, inverse uses V{idd[2][1:]}",
                      why="the inverse of the isometric PCA map X V is X V^H (same matrix, conjugate-transposed)")
            chk.check(fd[2][1] == 0, "ADJOINT.maps.data_plain", fd[0], fd[1], construct="PCA.transform projects on V unconjugated",
                      why="PCA scores are X V")
        for role, (fn, c, mat, dim_src) in facts.items():
            want = "feature" if role[1] == "fwd" else ("mode" if role[0] == "data" else "dummy_dim")
            if dim_src == "delegated":
                continue  # the contraction is the sibling map's, judged there
            chk.check(dim_src == want, "ADJOINT.dims", fn, c,
                      construct=f"{cls.name}.{fn.name}: contraction over {dim_src}",
                      why=f"a {role[1]} {role[0]} map must contract over the {want} dimension, found {dim_src}")
    _kernel(chk, wh)
    _sanity(chk, wh, pca)
    chk.floor("ADJOINT.maps", 8)
    chk.floor("ADJOINT.dims", 8)
    chk.floor("GUARD.sanity", 4)


def _eval(ff: FuncFacts, e: ast.expr, at: int, env: dict, depth=0):
    if depth > 12:
        raise ValueError
    if isinstance(e, ast.Constant) and isinstance(e.value, (int, float)):
        return float(e.value)
    if is_self_attr(e) and e.attr in env:
        return env[e.attr]
    if isinstance(e, ast.Name):
        e2, at2 = resolve_single(ff, e, at)
        if e2 is e:
            raise ValueError
        return _eval(ff, e2, at2, env, depth + 1)
    if isinstance(e, ast.BinOp):
        a, b = _eval(ff, e.left, at, env, depth + 1), _eval(ff, e.right, at, env, depth + 1)
        if isinstance(e.op, ast.Add):
            return a + b
        if isinstance(e.op, ast.Sub):
            return a - b
        if isinstance(e.op, ast.Mult):
            return a * b
        if isinstance(e.op, ast.Div):
            return a / b
    if isinstance(e, ast.UnaryOp) and isinstance(e.op, ast.USub):
        return -_eval(ff, e.operand, at, env, depth + 1)
    raise ValueError


def kernel_labels(chk):
    """dimension labels given to the two matrices returned by the whitening kernel (output_core_dims of the apply_ufunc
    call in Whitener._compute_whitener_transform): [[...T...], [...Tinv...]] over {'feature', 'mode', '?'}"""
    from .common import call_kwargs as _ck, inline_locals as _il
    wh = chk.pm.cls("xeofs.preprocessing.whitener.Whitener")
    cw = wh.methods.get("_compute_whitener_transform")
    chk.require(cw is not None, "Whitener._compute_whitener_transform vanished")
    cwf = FuncFacts.of(cw)
    au = [x for x in cwf.calls() if (dotted(x.func) or "").endswith("apply_ufunc")]
    chk.require(len(au) == 1, "Whitener._compute_whitener_transform: apply_ufunc call vanished")
    oc = _ck(au[0]).get("output_core_dims")
    oc = _il(cwf, oc) if isinstance(oc, ast.Name) else oc
    lab = []
    if isinstance(oc, (ast.List, ast.Tuple)):
        for e in oc.elts:
            row = []
            for x in (e.elts if isinstance(e, (ast.List, ast.Tuple)) else []):
                xs = {p.atom.name for p in cwf.paths(x, spine_only=True)} if not isinstance(x, ast.Constant) else {repr(x.value)}
                if is_self_attr(x):
                    xs.add("self." + x.attr)
                row.append("feature" if "self.feature_name" in xs else "mode" if xs == {"'mode'"} else "?")
            lab.append(row)
    return lab, cw, au[0]


def _kernel(chk, wh):
    pm = chk.pm
    fn = wh.methods.get("_compute_whitener_transform_numpy")
    chk.require(fn is not None, "Whitener._compute_whitener_transform_numpy vanished")
    ff = FuncFacts.of(fn)
    fmp = [c for c in ff.calls() if (dotted(c.func) or "").endswith("_fractional_matrix_power")]
    chk.require(len(fmp) == 1, "Whitener kernel: _fractional_matrix_power call vanished")
    c = fmp[0]
    # exponent
    try:
        at = ff.node_of(c)
        vals = [_eval(ff, c.args[1], at, {"alpha": a}) for a in (0.0, 1.0, 2.0)]
        okp = vals == [-0.5, 0.0, 0.5]
    except (ValueError, IndexError, ZeroDivisionError):
        vals, okp = None, False
    chk.check(okp, "ADJOINT.power", fn, c, construct=f"whitening exponent {norm(c.args[1]) if len(c.args) > 1 else '?'}",
              why=f"the whitening matrix must be C**((alpha-1)/2) so that cov(XT) = C**alpha; exponent evaluates to {vals} at alpha=0,1,2")
    # Gram matrix: X^H X
    gram = c.args[0]
    g, gat = resolve_single(ff, gram, ff.node_of(c))
    mm = [x for x in ast.walk(g) if isinstance(x, ast.BinOp) and isinstance(x.op, ast.MatMult)]
    okg = False
    if mm:
        ops = _matmul_operands(mm[0])
        if len(ops) == 2:
            t0, c0, b0 = _operand_chain(ops[0])
            t1, c1, b1 = _operand_chain(ops[1])
            okg = t0 and c0 and not t1 and norm(b0) == norm(b1)
    chk.check(okg, "ADJOINT.rebuild.gram", fn, g, why="the covariance must be the Gram matrix X^H X of the data")
    # the kernel returns (T, inverse of that very T): provenance of the two returned values (helpers followed)
    rets = [r for r in returns_of(fn) if isinstance(r.value, ast.Tuple) and len(r.value.elts) == 2]
    chk.require(len(rets) >= 1, "Whitener kernel: no longer returns a pair (T, Tinv)")
    is_inv = lambda o: o.kind == "arg" and o.name.split(".")[-1] in ("inv", "pinv")
    for r in rets:
        p0 = [p for p in ff.paths(r.value.elts[0], spine_only=True, follow=True) if p.atom.kind == "call" and p.atom.node is c]
        p1 = [p for p in ff.paths(r.value.elts[1], spine_only=True, follow=True) if p.atom.kind == "call" and p.atom.node is c]
        inv_nodes = [o.node for p in p1 for o in p.ops if is_inv(o)]
        all1 = ff.paths(r.value.elts[1], spine_only=True, follow=True)
        # whatever is inverted is the result of _fractional_matrix_power (the call itself or a value that passed through it)
        via_T = all((p.atom.kind == "call" and p.atom.node is c) or any(o.kind == "arg" and o.node is c for o in p.ops[: [i for i, o in enumerate(p.ops) if is_inv(o)][0]])
                    for p in all1 if any(is_inv(o) for o in p.ops))
        chk.check(bool(p1) and all(any(is_inv(o) for o in p.ops) for p in p1) and via_T, "ADJOINT.inverse", fn, inv_nodes[0] if inv_nodes else r,
                  construct="second returned matrix = inv / pinv of the whitening matrix",
                  why="the stored inverse must be computed from the whitening matrix itself (np.linalg.inv / pinv of the result of _fractional_matrix_power)")
        chk.check(bool(p0) and not any(is_inv(o) for p in p0 for o in p.ops), "ADJOINT.inverse.order", fn, r,
                  construct="first returned matrix = the whitening matrix", why="the kernel must return (T, Tinv) in this order")
    fit = wh.methods["fit"]
    ffit = FuncFacts.of(fit)
    tgt = [st for st in ffit.statements() if isinstance(st, ast.Assign) and isinstance(st.targets[0], ast.Tuple)
           and [norm(t) for t in st.targets[0].elts] == ["self.T", "self.Tinv"] and "_compute_whitener_transform" in norm(st.value)]
    chk.check(len(tgt) == 1, "ADJOINT.inverse.store", fit, tgt[0] if tgt else fit.node,
              construct="self.T, self.Tinv = self._compute_whitener_transform(X)", why="fit must store (T, Tinv) in the order the kernel returns them")
    # labelling of the two matrices the kernel returns: T maps features to modes, Tinv modes to features; every map
    # contracts by NAME, so a matrix labelled the other way round is applied transposed (complex data: conj(Tinv) != Tinv)
    lab, cw, call = kernel_labels(chk)
    chk.check(lab == [["feature", "mode"], ["mode", "feature"]], "ADJOINT.inverse.labels", cw, call, construct="kernel outputs labelled T: (feature, mode), Tinv: (mode, feature)",
              why=f"the matrices returned by the kernel are labelled {lab}: all maps contract by dimension name, so a wrongly labelled matrix is applied transposed - "
                  "for complex data un-whitening then uses conj(Tinv)")
    # rebuild V diag(s**p) V^H
    fp = pm.func("xeofs.linalg._numpy._utils._fractional_matrix_power")
    f2 = FuncFacts.of(fp)
    okb = False
    node = fp.node
    for st in f2.statements():
        if isinstance(st, ast.Assign):
            mm = [x for x in ast.walk(st.value) if isinstance(x, ast.BinOp) and isinstance(x.op, ast.MatMult)]
            if mm:
                from .common import inline_locals as _il2
                ops = _matmul_operands(_il2(f2, st.value))
                if len(ops) == 3:
                    node = st
                    t0, c0, b0 = _operand_chain(ops[0])
                    t2, c2, b2 = _operand_chain(ops[2])
                    mid = norm(ops[1])
                    powed = any(isinstance(x, ast.BinOp) and isinstance(x.op, ast.Pow) and norm(x.right) == fp.params[1] for x in ast.walk(ops[1]))
                    okb = (not t0) and t2 and c2 and norm(b0) == norm(b2) and powed and "diag" in mid
    chk.check(okb, "ADJOINT.rebuild.power", fp, node, why="the fractional power must be rebuilt as V diag(s**power) V^H")


def _sanity(chk, wh, pca):
    for cls in (wh, pca):
        for mname in ("fit", "transform"):
            fn = cls.methods.get(mname)
            chk.require(fn is not None, f"{cls.name}.{mname} vanished")
            ff = FuncFacts.of(fn)
            guards = [c for c in ff.calls() if is_self_attr(c.func, "_sanity_check_input") and c.args and isinstance(c.args[0], ast.Name)
                      and c.args[0].id == [p for p in fn.params if p != "self"][0]]
            uses = [c for c in ff.calls() if is_dot_call(c) or (dotted(c.func) or "").endswith(("_compute_whitener_transform", "fit_transform"))]
            if not guards:
                chk.violation("GUARD.sanity", fn, fn.node, construct=f"{cls.name}.{mname}: _sanity_check_input(X)",
                              why="the input is no longer checked to be a 2-D (sample, feature) DataArray before it is multiplied")
                continue
            g = ff.cfg.node_for(guards[0])
            ok = all(ff.cfg.dominates(g, ff.cfg.node_for(u)) for u in uses)
            chk.check(ok, "GUARD.sanity", fn, guards[0], construct=f"{cls.name}.{mname}: _sanity_check_input(X) dominates {len(uses)} product(s)",
                      why="a product is reachable without passing the dimension check")
