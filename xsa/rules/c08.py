"""C08 - centring, standardisation and weights mean what the options say (structural clauses).

WIRE.option    center / standardize / use_coslat / check_nans / compute of every model constructor reach
               the Preprocessor keyword of the same meaning (for cross-set models element [i] reaches
               preprocessor i+1), and inside the Preprocessor the Scaler / Sanitizer keyword
WIRE.flag      in Scaler.fit and Scaler.transform each flag guards its own operation
               (with_center: mean, with_std: std, with_coslat: coslat weights; user weights unconditional)
WIRE.weights   user weights reach Scaler.weights_ of the right field: entry point -> Preprocessor ->
               iter_kwargs -> per-item fit(**kwargs) -> weights_
WIRE.stats     mean_/std_ are reductions of the fit data over the sample dimensions; the latitude weights
               are sqrt(cos(deg2rad(lat))) clipped to [0, 1] of the latitude feature dimension
"""

from __future__ import annotations

import ast

from ..pm import AnalysisError, FuncInfo, const_str, dotted, is_self_attr, norm, walk_no_nested
from ..prov import FuncFacts
from ..resolve import Ctx, calls_in
from ..wire import InitFlow
from .common import bind_args, call_kwargs
from .c03 import _scaler_steps

OPTION_MAP = {"with_center": "center", "with_std": "standardize", "with_coslat": "use_coslat", "check_nans": "check_nans", "compute": "compute"}
FLAG_OF = {"mean_": "with_center", "std_": "with_std", "coslat_weights_": "with_coslat", "weights_": None}


def check(chk):
    _options(chk)
    _preprocessor_inner(chk)
    _flags(chk)
    _weights(chk)
    _stats(chk)
    chk.floor("WIRE.option", 100)
    chk.floor("WIRE.flag", 8)
    chk.floor("WIRE.weights", 8)
    chk.floor("WIRE.stats", 4)


def _options(chk):
    pm = chk.pm
    prep = pm.cls("xeofs.preprocessing.preprocessor.Preprocessor")
    for cls in pm.concrete_models():
        fl = InitFlow(pm, cls)
        if not fl.frames:
            continue
        for attr in ("preprocessor", "preprocessor1", "preprocessor2"):
            for fr, val in fl.attr_sources(attr):
                if not (isinstance(val, ast.Call) and pm.resolve_expr_static(fr.fn.module, val.func) == ("class", prep)):
                    continue
                kw = call_kwargs(val)
                if not kw:
                    continue  # placeholder Preprocessor() of rotators, replaced at fit
                idx = {"preprocessor": None, "preprocessor1": "0", "preprocessor2": "1"}[attr]
                for pk, opt in OPTION_MAP.items():
                    if pk not in kw:
                        # the model does not offer the option: the Preprocessor default applies
                        offered = opt in fl.frames[0].fn.params
                        chk.check(not offered, "WIRE.option", fr.fn, val, context=cls.name,
                                  construct=f"{cls.name}.{attr}: {pk} <- {opt}",
                                  why=f"{cls.name} accepts '{opt}' but does not hand it to its Preprocessor ({pk}): the option has no effect")
                        continue
                    roots = fl.trace(fr, kw[pk])
                    ok = False
                    why = ""
                    users = [r for r in roots if r.kind == "user"]
                    consts = [r for r in roots if r.kind == "const"]
                    if users:
                        names = {r.name for r in users}
                        subs = {s for r in users for s in r.subscripts()}
                        ok = names == {opt} and (idx is None or subs <= {idx} and (subs == {idx} or not subs))
                        if idx is not None and subs and subs != {idx}:
                            ok = False
                        why = f"{pk} of {attr} is fed from {sorted(names)}{sorted(subs)} instead of '{opt}'" + (f"[{idx}]" if idx else "")
                    else:
                        ok = opt not in fl.frames[0].fn.params  # fixed internally only if the model does not offer the option
                        why = f"{cls.name} accepts '{opt}' but {pk} does not depend on it ({[repr(r) for r in roots][:3]})"
                    chk.check(ok, "WIRE.option", fr.fn, val, context=cls.name, construct=f"{cls.name}.{attr}: {pk} <- {opt}" + (f"[{idx}]" if idx else ""), why=why)


def _preprocessor_inner(chk):
    pm = chk.pm
    prep = pm.cls("xeofs.preprocessing.preprocessor.Preprocessor")
    fl = InitFlow(pm, prep)
    want = {"scaler": {"with_center": "with_center", "with_std": "with_std", "with_coslat": "with_coslat", "compute": "compute"},
            "sanitizer": {"check_nans": "check_nans", "sample_name": "sample_name", "feature_name": "feature_name"},
            "stacker": {"sample_name": "sample_name", "feature_name": "feature_name"},
            "concatenator": {"sample_name": "sample_name", "feature_name": "feature_name"}}
    for attr, m in want.items():
        srcs = fl.attr_sources(attr)
        chk.require(len(srcs) == 1, f"Preprocessor.{attr} construction vanished")
        fr, val = srcs[0]
        ff = FuncFacts.of(fr.fn)
        given: dict[str, set] = {}
        for k in val.keywords:
            if k.arg:
                given[k.arg] = {r.name for r in fl.trace(fr, k.value) if r.kind == "user"}
            else:
                for p in ff.paths(k.value, spine_only=False):
                    for o in p.ops:
                        if o.kind == "dictval":
                            r = fl._root_of_path(fr, p, True, 0)
                            given.setdefault(o.name, set()).update(x.name for x in r if x.kind == "user")
        for key, param in m.items():
            chk.check(given.get(key) == {param}, "WIRE.option.inner", fr.fn, val, construct=f"Preprocessor.{attr}: {key} <- {param}",
                      why=f"the {attr} stage receives {key} from {sorted(given.get(key, []))} instead of the Preprocessor's '{param}'")


def _flags(chk):
    pm = chk.pm
    sc = pm.cls("xeofs.preprocessing.scaler.Scaler")
    for mname in ("transform", "inverse_transform_data"):
        steps = _scaler_steps(chk, sc.methods[mname])
        attrs = [a for _, a, _, _ in steps]
        dup = sorted({a for a in attrs if attrs.count(a) > 1})
        chk.check(not dup, "WIRE.flag.once", sc.methods[mname], sc.methods[mname].node, construct=f"Scaler.{mname}: each fitted factor acts once",
                  why=f"{dup} act more than once: weighting is no longer equivalent to fitting the pre-multiplied data")
        for op, attr, flags, node in steps:
            want = FLAG_OF.get(attr, "?")
            names = {f for f, pol in flags if pol}
            ok = (want is None and not flags) or (want is not None and names == {want})
            chk.check(ok, "WIRE.flag", sc.methods[mname], node, construct=f"Scaler.{mname}: self.{attr} applied under {sorted(names) or 'no flag'}",
                      why=f"self.{attr} must be applied " + ("unconditionally" if want is None else f"exactly when {want} is set") + f", found {sorted(flags)}")
    fit = sc.methods["fit"]
    ff = FuncFacts.of(fit)
    seen = set()
    for st in ff.statements():
        if isinstance(st, (ast.Assign, ast.AnnAssign)):
            t = st.targets[0] if isinstance(st, ast.Assign) else st.target
            if is_self_attr(t) and t.attr in FLAG_OF:
                if isinstance(t, ast.Tuple):
                    continue
                flags = set()
                for g in ff.guards(st):
                    k = const_str(g.test.slice) if isinstance(g.test, ast.Subscript) else None
                    if k and g.polarity:
                        flags.add(k)
                want = FLAG_OF[t.attr]
                seen.add(t.attr)
                ok = (want is None and not flags) or (want is not None and flags == {want})
                chk.check(ok, "WIRE.flag.fit", fit, st, construct=f"Scaler.fit: self.{t.attr} computed under {sorted(flags) or 'no flag'}",
                          why=f"self.{t.attr} must be computed " + ("always" if want is None else f"exactly when {want} is set"))
    chk.require(seen >= {"mean_", "std_", "coslat_weights_", "weights_"}, f"Scaler.fit no longer assigns all scaling parameters ({sorted(seen)})")


def _weights(chk):
    pm = chk.pm
    prep = pm.cls("xeofs.preprocessing.preprocessor.Preprocessor")
    # 1. entry points -> Preprocessor.fit_transform(weights=...)
    for q, pairs in (("xeofs.single.base_model_single_set.BaseModelSingleSet", [("preprocessor", "weights")]),
                     ("xeofs.cross.base_model_cross_set.BaseModelCrossSet", [("preprocessor1", "weights_X"), ("preprocessor2", "weights_Y")])):
        fit = pm.own_method(q, "fit")
        ff = FuncFacts.of(fit)
        ctx = Ctx(pm, fit)
        for attr, wparam in pairs:
            hit = None
            for c in calls_in(fit):
                if isinstance(c.func, ast.Attribute) and c.func.attr in ("fit_transform", "fit") and is_self_attr(c.func.value, attr):
                    for t in ctx.resolve_call(c):
                        if t.fn is not None:
                            b = bind_args(t.fn, c)
                            hit = (c, b.get("weights"))
            chk.require(hit is not None, f"{q}.fit: {attr}.fit_transform call vanished")
            c, w = hit
            ok = w is not None and {p.atom.name for p in ff.paths(w, spine_only=True) if p.atom.kind == "param"} == {wparam}
            chk.check(ok, "WIRE.weights.entry", fit, c, construct=f"{attr}.fit_transform(weights <- {wparam})",
                      why=f"the weights handed to {attr} do not come from the argument '{wparam}'")
    # 2. Preprocessor: fit / fit_transform forward weights; _fit_algorithm -> iter_kwargs["weights"]
    for mname in ("fit", "fit_transform"):
        m = prep.methods[mname]
        ff = FuncFacts.of(m)
        cs = [c for c in calls_in(m) if is_self_attr(c.func, "_fit_algorithm")]
        ok = False
        if cs:
            b = bind_args(prep.methods["_fit_algorithm"], cs[0])
            w = b.get("weights")
            ok = w is not None and {p.atom.name for p in ff.paths(w, spine_only=True) if p.atom.kind == "param"} == {"weights"}
        chk.check(ok, "WIRE.weights.forward", m, cs[0] if cs else m.node, construct=f"Preprocessor.{mname} forwards weights", why="weights are dropped on the way to the scaler")
    fa = prep.methods["_fit_algorithm"]
    ff = FuncFacts.of(fa)
    sc_calls = [c for c in calls_in(fa) if isinstance(c.func, ast.Attribute) and c.func.attr in ("fit_transform", "fit") and is_self_attr(c.func.value, "scaler")]
    chk.require(len(sc_calls) == 1, "Preprocessor._fit_algorithm: scaler fit call vanished")
    ik = call_kwargs(sc_calls[0]).get("iter_kwargs")
    ok = False
    if ik is not None:
        for p in ff.paths(ik, spine_only=False):
            if p.atom.kind == "param" and p.atom.name == "weights" and any(o.kind == "dictval" and o.name == "weights" for o in p.ops) \
                    and any(o.kind == "arg" and o.name.endswith("process_parameter") for o in p.ops):
                ok = True
    chk.check(ok, "WIRE.weights.iter_kwargs", fa, sc_calls[0], construct="scaler.fit_transform(iter_kwargs={'weights': process_parameter(weights)})",
              why="the per-item weights list is not handed to the scaler under the key 'weights'")
    # ... as the user gave them: the weights meet the data by LABEL (xarray arithmetic in the scaler); giving them other
    # coordinates, an index or raw values on the way pairs every weight with the wrong feature whenever the weights are
    # stored in another order than the data
    RELABEL = {"assign_coords", "reindex", "reindex_like", "reset_index", "set_index", "drop_vars", "reset_coords", "isel", "sel", "swap_dims", "rename",
               "transpose", "sortby", "values", "data", "to_numpy", "interp", "interp_like", "broadcast_like"}
    if ik is not None:
        touched = []
        for p in ff.paths(ik, spine_only=False):
            if p.atom.kind == "param" and p.atom.name == "weights":
                for o in p.ops:
                    if (o.kind == "method" and o.name in RELABEL) or (o.kind == "attr" and o.name in ("values", "data")):
                        touched.append(o)
        chk.check(not touched, "WIRE.weights.untouched", fa, touched[0].node if touched else sc_calls[0], construct="the user's weights reach the scaler with their own labels",
                  why=f"the weights pass through .{touched[0].name if touched else ''}() before they are applied: they are re-labelled / re-ordered by position, "
                      "so weights stored in another order than the data (same labels) act on the wrong features")
    # other stages must not receive the weights
    for c in calls_in(fa):
        if isinstance(c.func, ast.Attribute) and c.func.attr in ("fit_transform", "fit") and is_self_attr(c.func.value) and c.func.value.attr != "scaler":
            for a in list(c.args) + [k.value for k in c.keywords]:
                if any(p.atom.kind == "param" and p.atom.name == "weights" and not any(o.kind == "arg" and o.name.startswith("self.") for o in p.ops)
                       for p in ff.paths(a, spine_only=True)):
                    chk.violation("WIRE.weights.once", fa, c, why=f"weights are also handed to the {c.func.value.attr} stage: they would act twice")
    # 3. GenericListTransformer: item i gets element i
    glt = pm.cls("xeofs.preprocessing.list_processor.GenericListTransformer")
    gf = glt.methods["fit"]
    ff = FuncFacts.of(gf)
    pc = [c for c in calls_in(gf) if isinstance(c.func, ast.Attribute) and c.func.attr == "fit" and not is_self_attr(c.func)]
    ok = False
    if pc:
        stars = [k.value for k in pc[0].keywords if k.arg is None]
        for s in stars:
            for p in ff.paths(s, spine_only=False):
                src = p.atom.name in ("iter_kwargs", "self._iter_kwargs")
                # indexed with the position of the data item: the index variable and the item are the two targets of
                # one `for i, x in enumerate(<data list>)`
                indexed = False
                for o in p.ops:
                    if o.kind == "subscript" and isinstance(getattr(o.node, "slice", None), ast.Name) and pc[0].args and isinstance(pc[0].args[0], ast.Name):
                        di = ff.rd.reaching(o.node.slice.id, ff.node_of(o.node))
                        dx = ff.rd.reaching(pc[0].args[0].id, ff.node_of(pc[0]))
                        if len(di) == 1 and len(dx) == 1 and isinstance(di[0].stmt, ast.For) and di[0].stmt is dx[0].stmt and tuple(di[0].index) == (0,) \
                                and tuple(dx[0].index) == (1,) and isinstance(di[0].stmt.iter, ast.Call) and norm(di[0].stmt.iter.func) == "enumerate":
                            indexed = True
                if src and indexed:
                    ok = True
    chk.check(ok, "WIRE.weights.per_item", gf, pc[0] if pc else gf.node, construct="proc.fit(x, ..., **{k: v[i]})",
              why="the i-th data item is not fitted with the i-th element of each per-item keyword (weights would be shared or lost)")
    gft = glt.methods["fit_transform"]
    okf = any(isinstance(c.func, ast.Attribute) and c.func.attr == "fit" and any(isinstance(a, ast.Name) and a.id == "iter_kwargs" for a in list(c.args) + [k.value for k in c.keywords]) for c in calls_in(gft))
    chk.check(okf, "WIRE.weights.forward", gft, gft.node, construct="GenericListTransformer.fit_transform forwards iter_kwargs", why="iter_kwargs (weights) are dropped by fit_transform")
    # 4. Scaler.fit: weights_ <- weights
    sc = pm.cls("xeofs.preprocessing.scaler.Scaler")
    fit = sc.methods["fit"]
    ff = FuncFacts.of(fit)
    ok = False
    node = fit.node
    for st in ff.statements():
        if isinstance(st, (ast.Assign, ast.AnnAssign)):
            t = st.targets[0] if isinstance(st, ast.Assign) else st.target
            if is_self_attr(t, "weights_"):
                node = st
                ok = any(p.atom.kind == "param" and p.atom.name == "weights" for p in ff.paths(st.value, spine_only=True))
    pw = sc.methods.get("_process_weights")
    okp = False
    if pw is not None:
        pf = FuncFacts.of(pw)
        rets = [r for r in walk_no_nested(pw.node) if isinstance(r, ast.Return)]
        okp = any(any(p.atom.kind == "param" and p.atom.name == "weights" and not [o for o in p.ops if o.kind in ("binop", "method", "arg")]
                      for p in pf.paths(r.value, spine_only=True)) for r in rets)
    chk.check(ok and okp, "WIRE.weights.store", fit, node, construct="Scaler.fit: self.weights_ <- weights (ones if None)",
              why="the user's weights do not become the stored scaling factor weights_ unchanged")
    # fit_transform of Scaler passes weights
    sft = sc.methods["fit_transform"]
    okw = any(isinstance(c.func, ast.Attribute) and c.func.attr == "fit" and any(isinstance(a, ast.Name) and a.id == "weights" for a in list(c.args) + [k.value for k in c.keywords]) for c in calls_in(sft))
    chk.check(okw, "WIRE.weights.forward", sft, sft.node, construct="Scaler.fit_transform forwards weights", why="weights are dropped by Scaler.fit_transform")


def _stats(chk):
    # multiplying the whole input by a constant changes no fraction and no component: nothing computed from the data is
    # compared with an absolute machine epsilon
    from .common import absolute_cutoffs
    absolute_cutoffs(chk, "SCALE.cutoff.relative", "the same data in smaller units (x 1e-8) falls below it, whitening drops directions and fractions / correlations change with the unit")
    pm = chk.pm
    sc = pm.cls("xeofs.preprocessing.scaler.Scaler")
    fit = sc.methods["fit"]
    ff = FuncFacts.of(fit)
    data = [p for p in fit.params if p != "self"][0]
    for attr, red in (("mean_", "mean"), ("std_", "std")):
        for st in ff.statements():
            if isinstance(st, (ast.Assign, ast.AnnAssign)):
                t = st.targets[0] if isinstance(st, ast.Assign) else st.target
                if is_self_attr(t, attr) and not isinstance(st.value, ast.Tuple) and "compute" not in norm(st.value)[:20]:
                    ok = False
                    for p in ff.paths(st.value, spine_only=True):
                        if p.atom.kind == "param" and p.atom.name == data:
                            for o in p.ops:
                                if o.kind == "method" and o.name == red:
                                    a0 = o.node.args[0] if o.node.args else call_kwargs(o.node).get("dim")
                                    if a0 is not None:
                                        srcs = {q.atom.name for q in ff.paths(a0, spine_only=True)}
                                        ok = srcs <= {"self.sample_dims", "sample_dims"} and bool(srcs)
                    chk.check(ok, "WIRE.stats", fit, st, construct=f"Scaler.fit: self.{attr} = X.{red}(sample dims)",
                              why=f"{attr} must be the {red} of the fit data over the sample dimensions")
                    # each feature's statistic is a function of that feature alone: a bound / fill value applied to it is a
                    # constant, not something computed from the data (a floor relative to the largest std couples the
                    # features: rescaling one feature changes how another one is standardised)
                    for p in ff.paths(st.value, spine_only=True):
                        if not (p.atom.kind == "param" and p.atom.name == data):
                            continue
                        for o in p.ops:
                            if o.kind == "method" and o.name in ("clip", "where", "fillna", "maximum", "minimum"):
                                args = list(o.node.args) + [k.value for k in o.node.keywords]
                                dep = [a for a in args if any(q.atom.kind == "param" and q.atom.name == data for q in ff.paths(a, spine_only=False))
                                       and not (o.name == "where" and a is (o.node.args[0] if o.node.args else None))]
                                chk.check(not dep, "WIRE.stats.bound", fit, o.node, construct=f"Scaler.fit: bound / fill of self.{attr} is a constant",
                                          why=f"self.{attr} is bounded by `{norm(dep[0])[:70] if dep else ''}`, which is computed from the data: the statistic of one feature "
                                              "depends on the other features, so per-feature rescaling is no longer a no-op under standardisation")
    sd = [st for st in ff.statements() if isinstance(st, ast.Assign) and is_self_attr(st.targets[0], "sample_dims")]
    chk.check(bool(sd) and norm(sd[0].value) == "sample_dims", "WIRE.stats", fit, sd[0] if sd else fit.node, construct="Scaler.fit: self.sample_dims <- sample_dims",
              why="the scaler's sample dimensions are not the ones given to fit")
    # latitude weights
    f = pm.func("xeofs.utils.xarray_utils._np_sqrt_cos_lat_weights")
    f2 = FuncFacts.of(f)
    rets = [r for r in walk_no_nested(f.node) if isinstance(r, ast.Return)]
    ok = False
    for r in rets:
        for p in f2.paths(r.value, spine_only=True):
            if p.atom.kind == "param":
                seq = [o.name.split(".")[-1] for o in p.ops if o.kind in ("arg", "method")]
                ok = seq == ["deg2rad", "cos", "clip", "sqrt"]
    chk.check(ok, "WIRE.stats.coslat", f, rets[0] if rets else f.node, construct="sqrt(cos(deg2rad(lat)).clip(0, 1))",
              why="use_coslat must weight by sqrt(cos(latitude in degrees)) (clipped at the poles)")
    cw = pm.func("xeofs.utils.xarray_utils.compute_sqrt_cos_lat_weights")
    cf = FuncFacts.of(cw)
    # between the kernel and the stored scaling factor the weights are only labelled, never recomputed: a cast to the
    # data's dtype (integer data: 0 / 1), a rounding, a fill ... makes use_coslat differ from weights = sqrt(cos(lat))
    LABEL_ONLY = {"rename", "assign_coords", "copy", "compute", "persist", "drop_vars", "transpose", "reset_coords", "expand_dims", "squeeze", "chunk", "assign_attrs"}
    n_carried = 0
    for r in [r for r in walk_no_nested(cw.node) if isinstance(r, ast.Return) and r.value is not None]:
        for p in cf.paths(r.value, spine_only=True, follow=True):
            idx = [i for i, o in enumerate(p.ops) if o.kind in ("arg", "via") and o.name.split(".")[-1] in ("sqrt_cos_lat_weights", "_np_sqrt_cos_lat_weights")]
            if not idx:
                continue
            n_carried += 1
            after = [o for o in p.ops[idx[-1] + 1:] if o.kind in ("method", "arg", "binop", "unary") and not (o.kind == "method" and o.name in LABEL_ONLY)
                     and not (o.kind in ("arg", "via") and o.name.split(".")[-1] in ("apply_ufunc", "sqrt_cos_lat_weights", "compute_sqrt_cos_lat_weights"))]
            chk.check(not after, "WIRE.stats.coslat.carried", cw, after[0].node if after else r, construct="coslat weights reach the scaler as computed",
                      why=f"the latitude weights pass through {[f'{o.kind}:{o.name}' for o in after]} after sqrt(cos(lat)) has been computed: they are no longer sqrt(cos(latitude)) "
                          "for every input (e.g. cast to an integer data type)")
    chk.require(n_carried >= 1, "compute_sqrt_cos_lat_weights: the weights returned do not come from sqrt_cos_lat_weights (anchor vanished)")
    for st in ff.statements():
        tgt = st.targets[0] if isinstance(st, ast.Assign) and len(st.targets) == 1 else st.target if isinstance(st, ast.AnnAssign) and st.value is not None else None
        if tgt is not None and is_self_attr(tgt, "coslat_weights_"):
            for p in ff.paths(st.value, spine_only=True):
                idx = [i for i, o in enumerate(p.ops) if o.kind in ("arg", "via") and o.name.split(".")[-1] == "compute_sqrt_cos_lat_weights"]
                if not idx and not (p.atom.kind == "call" and p.atom.name.split(".")[-1] == "compute_sqrt_cos_lat_weights"):
                    continue
                rest = p.ops[idx[-1] + 1:] if idx else p.ops
                after = [o for o in rest if o.kind in ("method", "arg", "binop", "unary") and not (o.kind == "method" and o.name in LABEL_ONLY)]
                chk.check(not after, "WIRE.stats.coslat.carried", fit, after[0].node if after else st, construct="Scaler.fit stores the coslat weights as computed",
                          why=f"the latitude weights pass through {[f'{o.kind}:{o.name}' for o in after]} before they are stored")
    okl = any((dotted(c.func) or "").endswith("extract_latitude_dimension") and c.args and norm(c.args[0]) == "feature_dims" for c in calls_in(cw))
    chk.check(okl, "WIRE.stats.coslat", cw, cw.node, construct="latitude dimension looked up among the feature dimensions",
              why="the latitude coordinate must be one of the feature dimensions")
