"""C03 - full-mode inverse_transform restores the data; 'normalized' switches (structural clauses).

MIRROR.affine   Scaler.inverse_transform_data undoes exactly what Scaler.transform did: same fitted
                factors with inverted operators under the same flags, each applied once, the mean
                removed before any factor is applied and restored after all are undone
MIRROR.stages   per field, data passes preprocessor -> pca -> whitener forward and the exact reverse
                back; values never pass through stage objects of the other field; public results
                leave through the preprocessor's inverse
MIRROR.scores_identity  pca/whitener score maps are identities (only the preprocessor relabels samples)
MIRROR.norms    the 'normalized' switches divide in score-producing directions and multiply in the
                opposite ones, by the per-mode norms of the same field
"""

from __future__ import annotations

import ast

from ..pm import AnalysisError, FuncInfo, const_str, dotted, is_self_attr, norm, walk_no_nested
from ..prov import FuncFacts
from .common import reads_container, returns_of
from .fields import check_field_indices, check_stage_chain

INVERT = {"Sub": "Add", "Add": "Sub", "Mult": "Div", "Div": "Mult"}


def _modesel(chk):
    """arbitrary score arrays: every per-mode container entry combined with the given scores is first selected by
    the modes of those scores (``.sel(mode=<scores>.mode)``); relying on xarray's alignment breaks for scalar modes"""
    pm = chk.pm
    n = 0
    for fn in pm.all_functions():
        if fn.cls is None or fn.name not in ("inverse_transform", "_inverse_transform_algorithm"):
            continue
        if any(isinstance(s, ast.Raise) for s in fn.node.body):
            continue
        ff = FuncFacts.of(fn)
        params = [p for p in fn.params if p not in ("self", "normalized")]
        sites = []
        for b in walk_no_nested(fn.node):
            opnds = None
            if isinstance(b, ast.BinOp) and isinstance(b.op, (ast.Mult, ast.Div)):
                opnds = [b.left, b.right]
            elif isinstance(b, ast.Call) and isinstance(b.func, ast.Attribute) and b.func.attr == "dot":
                from .common import dot_operands
                opnds = dot_operands(b)
            if not opnds:
                continue
            srcs = [ff.paths(o, spine_only=True) for o in opnds]
            has_scores = [any(p.atom.kind == "param" and p.atom.name in params for p in ps) for ps in srcs]
            for i, ps in enumerate(srcs):
                cps = [p for p in ps if p.container_key() is not None and p.atom.name == "self.data"]
                if not cps or has_scores[i] or not any(has_scores):
                    continue
                sites.append((b, cps))
        for b, cps in sites:
            n += 1
            ok = True
            for p in cps:
                sels = [o for o in p.ops if o.kind == "method" and o.name == "sel"]
                good = False
                for o in sels:
                    m = {k.arg: k.value for k in o.node.keywords}.get("mode")
                    if m is None and o.node.args and isinstance(o.node.args[0], ast.Dict):
                        for k, v in zip(o.node.args[0].keys, o.node.args[0].values):
                            if const_str(k) == "mode":
                                m = v
                    if m is not None:
                        for q in ff.paths(m, spine_only=True):
                            if q.atom.kind == "param" and q.atom.name in params and (
                                    q.has_op("attr", "mode") or any(y.kind == "subscript" and "mode" in y.name for y in q.ops)):
                                good = True
                ok = ok and good
            chk.check(ok, "MIRROR.modesel", fn, b,
                      why="a per-mode entry of the model is combined with user-given scores without selecting it by the scores' own modes "
                          "(.sel(mode=scores.mode)): for a scalar or partial mode selection xarray broadcasts the entry over all modes")
    chk.info["modesel_sites"] = n


def _stage_inverse(chk):
    """Whitener / PCA: the inverse data (pattern) map undoes the forward data (pattern) map.
    Whitener: forward X T, inverse X Tinv - the two stored matrices, with the SAME conjugation (T Tinv = I and
    conj(T) conj(Tinv) = I, but T conj(Tinv) != I for complex data).  PCA: forward X V, inverse X V^H - the same
    isometric matrix with OPPOSITE conjugation."""
    from .c16 import MAPS, _map_facts
    pm = chk.pm
    for q, kind in (("xeofs.preprocessing.whitener.Whitener", "inverse-pair"), ("xeofs.preprocessing.pca.PCA", "isometry")):
        cls = pm.cls(q)
        facts = {role: _map_facts(chk, cls, m) for m, role in MAPS.items()}
        for what in ("data", "pattern"):
            f, i = facts[(what, "fwd")], facts[(what, "inv")]
            (fm, fc, _), (im, ic, _) = f[2], i[2]
            if kind == "inverse-pair":
                ok = {fm, im} == {"T", "Tinv"} and fc == ic
                why = (f"the {what} maps of the whitener must use T and Tinv with the same conjugation so that their product is the identity "
                       f"(forward: {fm} conj={fc}; inverse: {im} conj={ic}): un-whitening complex data no longer restores it")
            else:
                ok = fm == im == "V" and fc != ic
                why = (f"the {what} maps of the PCA stage must be V and V^H (forward: {fm} conj={fc}; inverse: {im} conj={ic}): "
                       "expanding complex PC scores no longer restores the data")
            chk.check(ok, "MIRROR.stage_inverse", i[0], i[1], construct=f"{cls.name}.{i[0].name} undoes {cls.name}.{f[0].name}", why=why,
                      facts={"forward": list(f[2]), "inverse": list(i[2])})


def _real_last(chk):
    """MIRROR.real.last - taking the real part is not linear over the complex numbers: it commutes with the real-linear
    preprocessing inverse (scaling, un-stacking) but not with un-whitening (Tinv is complex Hermitian for Hilbert / complex
    data) nor with the PCA expansion (V is complex).  In the cross-set family the reconstruction produced by
    ``_inverse_transform_algorithm`` still has to pass whitenerN / pcaN ``inverse_transform_data``; nothing on the way
    there - in the algorithm of any concrete class or in ``inverse_transform`` itself - may project on the real part
    (or take a modulus / imaginary part)."""
    pm = chk.pm
    base = pm.cls("xeofs.cross.base_model_cross_set.BaseModelCrossSet")
    inv = base.methods.get("inverse_transform")
    chk.require(inv is not None, "BaseModelCrossSet.inverse_transform vanished")
    COMPLEX_STAGES = ("whitener1", "whitener2", "pca1", "pca2")

    def stage_calls(fn):
        return [c for c in walk_no_nested(fn.node) if isinstance(c, ast.Call) and isinstance(c.func, ast.Attribute) and c.func.attr == "inverse_transform_data"
                and is_self_attr(c.func.value) and c.func.value.attr in COMPLEX_STAGES]

    def projections(fn):
        out = []
        for n in ast.walk(fn.node):
            if isinstance(n, ast.Attribute) and n.attr in ("real", "imag") and isinstance(n.ctx, ast.Load):
                out.append(n)
            elif isinstance(n, ast.Call) and (dotted(n.func) or "").split(".")[-1] in ("real", "imag", "abs", "absolute", "angle") and \
                    ((dotted(n.func) or "").startswith(("np.", "numpy.", "xr.")) or (isinstance(n.func, ast.Name) and n.func.id == "abs")):
                out.append(n)
        return out

    sc = stage_calls(inv)
    chk.require(len(sc) >= 1, "BaseModelCrossSet.inverse_transform: un-whitening / PCA expansion calls vanished")
    ff = FuncFacts.of(inv)
    early = [p for p in projections(inv) if p.lineno < min(c.lineno for c in sc)]
    chk.check(not early, "MIRROR.real.last", inv, early[0] if early else inv.node, construct="inverse_transform: no real / modulus projection before the stage inverses",
              why="inverse_transform projects the reconstruction on its real part (or modulus) before un-whitening / PCA expansion: Re(X) Tinv != Re(X Tinv) for complex Tinv")
    seen = set()
    n = 0
    for cls in pm.concrete_models():
        if not cls.is_subclass_of(base):
            continue
        f = cls.resolve("_inverse_transform_algorithm")
        if f is None or f.qualname in seen:
            continue
        seen.add(f.qualname)
        n += 1
        pr = projections(f)
        chk.check(not pr, "MIRROR.real.last", f, pr[0] if pr else f.node, construct=f"{f.qualname.split('.')[-2]}._inverse_transform_algorithm: reconstruction handed on complex",
                  why=f"{f.qualname} takes `{norm(pr[0]) if pr else ''}` of the reconstruction, which BaseModelCrossSet.inverse_transform then un-whitens and expands from PC space: "
                      "the real part is taken before complex-linear maps are undone, so Hilbert / complex models with alpha < 1 no longer restore the fitted data")
    chk.require(n >= 1, "no cross-set _inverse_transform_algorithm found")


def _augment_keeps_mean(chk):
    """MIRROR.affine.augment - the only place where the mean of the data is removed is the Scaler (under `with_center`),
    which also adds it back.  The Hilbert augmentation may remove the mean that padding introduces into the IMAGINARY
    part, but an offset of the whole complex signal includes the mean of the real part - of the data themselves - which
    nothing adds back: with center=False the reconstruction lacks the temporal mean of every feature."""
    pm = chk.pm
    mod = pm.modules.get("xeofs.utils.hilbert_transform")
    chk.require(mod is not None, "xeofs/utils/hilbert_transform.py vanished")
    n = 0
    for fn in mod.functions.values():
        ff = FuncFacts.of(fn)
        for b in [x for x in walk_no_nested(fn.node) if isinstance(x, ast.BinOp) and isinstance(x.op, ast.Sub)]:
            rp = ff.paths(b.right, spine_only=True)
            red = [p for p in rp if any(o.kind in ("method", "arg") and o.name.split(".")[-1] in ("mean", "nanmean", "average") for o in p.ops)]
            if not red:
                continue
            lsrc = {(p.atom.kind, p.atom.name) for p in ff.paths(b.left, spine_only=True)}
            same = any((p.atom.kind, p.atom.name) in lsrc for p in red)
            if not same:
                continue
            # is the result handed on as the signal (returned)?
            returned = any(any(o.node is b for o in p.ops) or (p.atom.node is b if hasattr(p.atom, "node") else False) for r in returns_of(fn) for p in ff.paths(r.value, spine_only=True))
            if not returned:
                continue
            n += 1
            imag_only = all(any(o.kind == "attr" and o.name == "imag" for o in p.ops[: [i for i, o in enumerate(p.ops) if o.name.split(".")[-1] in ("mean", "nanmean", "average")][0]]) for p in red)
            chk.check(imag_only, "MIRROR.affine.augment", fn, b, construct=f"{fn.name}: only the mean of the imaginary part is removed",
                      why=f"`{norm(b)[:60]}` removes the mean of the whole complex signal, real part included: the Hilbert models then decompose centred data whatever `center` says and, "
                          "with center=False, inverse_transform returns the data without their mean")
    chk.ok("MIRROR.affine.augment", "xeofs.utils.hilbert_transform", None, construct=f"<offsets of the augmented signal examined: {n}>", nontrivial=False)


def _whitener_labels(chk):
    """MIRROR.whitener.labels - un-whitening multiplies by the stored inverse matrix contracted by dimension NAME: the
    inverse must be labelled (mode, feature) and the forward matrix (feature, mode), else the transpose is applied
    (identical for real data, the element-wise conjugate for complex data: the reconstruction is wrong)"""
    from .c16 import kernel_labels
    lab, cw, call = kernel_labels(chk)
    chk.check(lab == [["feature", "mode"], ["mode", "feature"]], "MIRROR.whitener.labels", cw, call, construct="whitening kernel outputs labelled T: (feature, mode), Tinv: (mode, feature)",
              why=f"the whitening matrices are labelled {lab}: inverse_transform_data contracts by name and so applies the transpose of the stored inverse - "
                  "complex data are not restored")


def check(chk):
    _modesel(chk)
    _whitener_labels(chk)
    _real_last(chk)
    _augment_keeps_mean(chk)
    from .common import absolute_cutoffs
    absolute_cutoffs(chk, "MIRROR.cutoff.relative", "for data of small magnitude the whitening matrix and its inverse lose directions (or become zero), so un-whitening no longer restores the data in physical units")
    # inverse_transform(scores()) works for every container kind: the unstack variants agree on when the stacked sample
    # name is renamed back (shared with C02)
    from . import c02 as _c02u
    from .c01 import _Relabel as _RLu
    _c02u._unstack_guarded(_RLu(chk, "MIRROR.state.stack", "MIRROR.unstack"), "MIRROR.state.stack.guarded")
    # transform(inverse_transform(s)) returns s: the reconstruction carries the coordinates in the fitted order
    _c02u._unstack_order(_RLu(chk, "MIRROR.state.stack", "MIRROR.unstack"), "MIRROR.state.stack.order")
    _c02u._dataset_unstack_scope(_RLu(chk, "MIRROR.state.dataset", "MIRROR.unstack.dataset"), "MIRROR.state.dataset.unstack_scope")
    _affine(chk)
    _stages(chk)
    _scores_identity(chk)
    _norms(chk)
    _stage_inverse(chk)
    # queries leave the stored decomposition alone (shared with C14): an accessor that rescales the stored arrays in place
    # changes what every later scores() / components() / transform() returns
    from . import c14 as _c14q
    from .c01 import _Relabel as _RLq
    _c14q._query_mutates(_RLq(chk, "HIST.query_mutates", "MIRROR.query_mutates"))
    # the fitted scaling arrays survive a serialisation round trip (compute() and load() rebuild the model from the
    # serialised tree): shared with C13's naming rule
    from . import c13 as _c13
    _c13._named(chk, rule="MIRROR.state.named")
    chk.floor("MIRROR.stage_inverse", 4)
    chk.floor("MIRROR.affine", 6)
    chk.floor("MIRROR.stages", 40)
    chk.floor("MIRROR.norms", 8)
    chk.floor("MIRROR.modesel", 5)


def _scaler_steps(chk, fn: FuncInfo):
    ff = FuncFacts.of(fn)
    data_param = [p for p in fn.params if p != "self"][0]
    rets = returns_of(fn)
    chk.require(len(rets) >= 1, f"{fn.qualname}: no return")
    steps: dict[int, tuple] = {}
    order: list[int] = []
    for r in rets:
        for p in ff.paths(r.value, spine_only=True):
            if not (p.atom.kind == "param" and p.atom.name == data_param):
                continue
            for o in p.ops:
                if o.kind == "binop" and o.side == "L" and o.name in INVERT:
                    if id(o.node) in steps:
                        continue
                    other = o.other
                    srcs = {q.atom.name for q in ff.paths(other, spine_only=True) if q.atom.kind == "selfattr" and not q.ops}
                    if is_self_attr(other):
                        attr = other.attr
                    elif len(srcs) == 1:
                        attr = next(iter(srcs)).split(".", 1)[1]
                    else:
                        attr = norm(other)
                    flags = []
                    for g in ff.guards(o.node):
                        k = None
                        t = g.test
                        if isinstance(t, ast.Subscript):
                            k = const_str(t.slice)
                        elif is_self_attr(t):
                            k = t.attr
                        flags.append((k or norm(t), g.polarity))
                    steps[id(o.node)] = (o.name, attr, tuple(flags), o.node)
                    order.append(id(o.node))
    order.sort(key=lambda i: (steps[i][3].lineno, steps[i][3].col_offset))
    return [steps[i] for i in order]


def _affine(chk):
    pm = chk.pm
    sc = pm.cls("xeofs.preprocessing.scaler.Scaler")
    fwd_fn, inv_fn = sc.methods.get("transform"), sc.methods.get("inverse_transform_data")
    chk.require(fwd_fn is not None and inv_fn is not None, "Scaler.transform / inverse_transform_data vanished")
    fwd, inv = _scaler_steps(chk, fwd_fn), _scaler_steps(chk, inv_fn)
    chk.require(len(fwd) >= 2, "Scaler.transform: scaling steps not found")
    facts = {"forward": [(o, a, f) for o, a, f, _ in fwd], "inverse": [(o, a, f) for o, a, f, _ in inv]}
    # each fitted factor exactly once in each direction
    for name, steps, fn in (("transform", fwd, fwd_fn), ("inverse_transform_data", inv, inv_fn)):
        attrs = [a for _, a, _, _ in steps]
        dup = sorted({a for a in attrs if attrs.count(a) > 1})
        chk.check(not dup, "MIRROR.affine.once", fn, fn.node, construct=f"Scaler.{name}: each fitted factor applied once",
                  why=f"{dup} applied more than once", facts=facts)
    # pairing
    inv_by_attr = {a: (o, f, n) for o, a, f, n in inv}
    for o, a, f, n in fwd:
        got = inv_by_attr.get(a)
        ok = got is not None and got[0] == INVERT[o] and got[1] == f
        why = ""
        if got is None:
            why = f"transform applies {o} self.{a} but inverse_transform_data never undoes it"
        elif got[0] != INVERT[o]:
            why = f"transform applies {o} self.{a}; the inverse applies {got[0]} instead of {INVERT[o]}"
        elif got[1] != f:
            why = f"self.{a} is applied under {f} but undone under {got[1]}"
        chk.check(ok, "MIRROR.affine.pair", inv_fn, got[2] if got else inv_fn.node, construct=f"self.{a}: {o} <-> {INVERT[o]}", why=why, facts=facts)
    extra = [a for _, a, _, _ in inv if a not in {x for _, x, _, _ in fwd}]
    chk.check(not extra, "MIRROR.affine.extra", inv_fn, inv_fn.node, construct="inverse applies only what transform applied",
              why=f"inverse_transform_data applies {extra}, which transform never applied")
    # order: additive first going forward, last going back
    fa = [i for i, s in enumerate(fwd) if s[0] in ("Sub", "Add")]
    fm = [i for i, s in enumerate(fwd) if s[0] in ("Mult", "Div")]
    ia = [i for i, s in enumerate(inv) if s[0] in ("Sub", "Add")]
    im = [i for i, s in enumerate(inv) if s[0] in ("Mult", "Div")]
    ok_f = not fa or not fm or max(fa) < min(fm)
    ok_i = not ia or not im or min(ia) > max(im)
    chk.check(ok_f, "MIRROR.affine.order", fwd_fn, fwd[fa[0]][3] if fa else fwd_fn.node, construct="transform: centre before scaling",
              why="the mean is removed after a factor was applied: the stored mean is in unscaled units", facts=facts)
    chk.check(ok_i, "MIRROR.affine.order", inv_fn, inv[ia[0]][3] if ia else inv_fn.node, construct="inverse: un-scale before adding the mean",
              why="the mean is added back before all factors are undone: the reconstruction is shifted by a scaled mean", facts=facts)


def _sinks(fn: FuncInfo):
    """(expr, node, role) for values a public method hands back"""
    out = []
    for n in walk_no_nested(fn.node):
        if isinstance(n, ast.Return) and n.value is not None:
            vals = n.value.elts if isinstance(n.value, ast.Tuple) else [n.value]
            for v in vals:
                if isinstance(v, ast.Tuple):
                    for e in v.elts:
                        out.append((e, n, "result"))
                else:
                    out.append((v, n, "result"))
        if isinstance(n, ast.Call) and isinstance(n.func, ast.Attribute) and n.func.attr == "append" and isinstance(n.func.value, ast.Name) \
                and n.func.value.id in ("results", "data_list") and n.args:
            out.append((n.args[0], n, "result"))
    return out


def _stages(chk):
    pm = chk.pm
    total = 0
    classes = [
        "xeofs.single.base_model_single_set.BaseModelSingleSet", "xeofs.single.eof.EOF", "xeofs.single.eof.ComplexEOF", "xeofs.single.pop.POP",
        "xeofs.single.opa.OPA", "xeofs.cross.base_model_cross_set.BaseModelCrossSet", "xeofs.cross.cpcca.CPCCA", "xeofs.cross.cpcca.ComplexCPCCA",
        "xeofs.cross.cpcca_rotator.CPCCARotator",
    ]
    for cname in classes:
        cls = pm.cls(cname)
        for m in cls.methods.values():
            if m.name.startswith("__"):
                continue
            sinks = _sinks(m) if not m.name.startswith("_") else []
            ff = FuncFacts.of(m)
            # every stage call's data argument is a 'data' role expression
            exprs = list(sinks)
            for c in ff.calls():
                from .fields import stage_of
                st = stage_of(dotted(c.func) or "")
                if st and c.args:
                    exprs.append((c, c, "data"))
            # fit stores nothing through the chain backwards; forward-only check applies
            total += check_stage_chain(chk, "MIRROR.stages", m, exprs)
            # public results of the base classes must leave through the preprocessor's inverse
            if cname.endswith(("BaseModelSingleSet", "BaseModelCrossSet")) and m.name in PUBLIC_RESULTS:
                from .fields import stage_segments, STAGES
                for e, node, role in sinks:
                    ends = False
                    allp = ff.paths(e, spine_only=True)
                    if all(p.atom.kind == "const" for p in allp):
                        continue  # an accumulator list; its appended elements are sinks of their own
                    for p in allp:
                        segs = stage_segments(ff, p)
                        if segs and segs[-1] and segs[-1][-1][3] == "inv" and STAGES[segs[-1][-1][0]] == 0:
                            ends = True
                    chk.check(ends, "MIRROR.stages.exit", m, node, construct=f"{cls.name}.{m.name}: result passes the preprocessor's inverse",
                              why="a public result is returned in the internal 2-D representation: it is not mapped back through the preprocessor")
        fns = [m for m in cls.methods.values() if not m.name.startswith("__")]
        if "cross" in cname:
            check_field_indices(chk, "MIRROR.stages.index", fns)
            # the inverse maps and the accessors treat the two fields alike
            from .fields import field_symmetry
            field_symmetry(chk, "MIRROR.fields.symmetric", [m for m in fns if m.name in ("inverse_transform", "_inverse_transform_algorithm", "components", "scores",
                                                                                          "components_amplitude", "components_phase", "scores_amplitude", "scores_phase")])
    chk.info["stage_chains_examined"] = total


def _scores_identity(chk):
    pm = chk.pm
    for cname in ("xeofs.preprocessing.pca.PCA", "xeofs.preprocessing.whitener.Whitener"):
        cls = pm.cls(cname)
        for mname in ("inverse_transform_scores", "inverse_transform_scores_unseen"):
            fn = cls.methods.get(mname)
            chk.require(fn is not None, f"{cname}.{mname} vanished")
            ff = FuncFacts.of(fn)
            p0 = [p for p in fn.params if p != "self"][0]
            ok = all(
                all(p.atom.kind == "param" and p.atom.name == p0 and not p.ops for p in ff.paths(r.value, spine_only=True))
                for r in returns_of(fn) if r.value is not None
            ) and bool(returns_of(fn))
            chk.check(ok, "MIRROR.scores_identity", fn, fn.node, construct=f"{cls.name}.{mname} returns its argument",
                      why="scores live in mode space: the PCA/whitening stages must leave them untouched (models rely on it when they skip these calls)")


PUBLIC_RESULTS = {"transform", "inverse_transform", "components", "scores", "predict"}
SCORE_FUNCS = {"transform", "_transform_algorithm", "scores", "_get_scores", "scores_amplitude"}
COMP_FUNCS = {"components", "_get_components", "components_amplitude"}
INV_FUNCS = {"inverse_transform"}


def _norms(chk):
    pm = chk.pm
    n = 0
    for fn in pm.all_functions():
        if fn.cls is None or fn.name not in SCORE_FUNCS | COMP_FUNCS | INV_FUNCS:
            continue
        if "normalized" not in fn.params:
            continue
        ff = FuncFacts.of(fn)
        for b in [x for x in walk_no_nested(fn.node) if isinstance(x, ast.BinOp) and isinstance(x.op, (ast.Mult, ast.Div))]:
            keys = set()
            for p in ff.paths(b.right, spine_only=True):
                ck = p.container_key()
                if ck and ck[1] in ("norms", "norm1", "norm2"):
                    keys.add(ck[1])
            if not keys:
                continue
            gs = [g for g in ff.guards(b) if isinstance(g.test, ast.Name) and g.test.id == "normalized"
                  or (isinstance(g.test, ast.UnaryOp) and isinstance(g.test.operand, ast.Name) and g.test.operand.id == "normalized")]
            n += 1
            if not gs:
                chk.violation("MIRROR.norms", fn, b, why="a per-mode norm factor is applied regardless of the 'normalized' switch")
                continue
            g = gs[0]
            pol = g.polarity if isinstance(g.test, ast.Name) else (not g.polarity)
            op = "Div" if isinstance(b.op, ast.Div) else "Mult"
            if fn.name in SCORE_FUNCS:
                ok = (op == "Div") == pol
                want = "scores are divided by the norms when normalized (multiplied when a normalised value is un-normalised)"
            elif fn.name in COMP_FUNCS:
                ok = op == "Mult" and not pol
                want = "components are multiplied by the norms when normalized=False"
            else:
                ok = op == "Mult" and pol
                want = "normalised scores handed to inverse_transform are multiplied by the norms"
            chk.check(ok, "MIRROR.norms", fn, b, why=f"{want}; found {op} under normalized={pol}", facts={"op": op, "normalized": pol, "norm": sorted(keys)})
    chk.info["norm_switch_sites"] = n
    # presence: a `normalized` switch that neither applies a norm under it nor hands it on has no effect, and the two
    # settings no longer differ by the per-mode norms
    for fn in pm.all_functions():
        if fn.cls is None or "normalized" not in fn.params or fn.is_abstract:
            continue
        if all(isinstance(x, (ast.Raise, ast.Expr, ast.Pass)) for x in fn.node.body):
            continue  # abstract by convention (raise NotImplementedError) or docstring only
        ff = FuncFacts.of(fn)
        uses = [x for x in walk_no_nested(fn.node) if isinstance(x, ast.Name) and x.id == "normalized" and isinstance(x.ctx, ast.Load)]
        forwarded = False
        par = ff.cfg.parents()
        for u in uses:
            p = par.get(id(u))
            if isinstance(p, ast.keyword) or isinstance(p, ast.Call):
                forwarded = True
        applies = False
        applied_keys: set[str] = set()
        for b in [x for x in walk_no_nested(fn.node) if isinstance(x, (ast.BinOp, ast.AugAssign)) and isinstance(x.op, (ast.Mult, ast.Div))]:
            other = b.right if isinstance(b, ast.BinOp) else b.value
            ks = {(p.container_key() or ("", ""))[1] for p in ff.paths(other, spine_only=True, follow=True)} & {"norms", "norm1", "norm2"}
            if ks:
                from .common import atomic_conditions
                if any(isinstance(t, ast.Name) and t.id == "normalized" for t, _ in atomic_conditions(ff, b)):
                    applies = True
                    applied_keys |= ks
        # a function that serves both fields applies the switch to both
        both = {"norm1", "norm2"}
        reads = {const_str(n.slice) for n in walk_no_nested(fn.node) if isinstance(n, ast.Subscript) and const_str(n.slice)}
        serves_both = any(k.endswith("1") for k in reads) and any(k.endswith("2") for k in reads)
        if applied_keys & both and serves_both:
            chk.check(both <= applied_keys, "MIRROR.norms.switch.fields", fn, fn.node, construct=f"{fn.qualname}: the normalized switch acts on both fields",
                      why=f"the 'normalized' switch is applied to {sorted(applied_keys & both)} only: for the other field both settings return the same numbers")
        # a helper that receives `normalized`-dependent values (norm=None if normalized else ...) counts as forwarding
        chk.check(forwarded or applies, "MIRROR.norms.switch", fn, fn.node, construct=f"{fn.qualname}: the normalized switch is applied or handed on",
                  why="the 'normalized' parameter neither guards a multiplication / division by the per-mode norms nor is passed on: "
                      "both settings return the same numbers")
