"""C20 - bootstrap members are sign-aligned, reproducible EOF analyses of resamples (structural clauses).

NAMES     the bootstrapper addresses dimensions through the model's names; member models inherit them
RNG       the generator is seeded from the seed parameter; it draws n_samples indices out of n_samples
          with replacement; the resample selects along the sample dimension of the model's preprocessed
          data; each member is fitted on the resample and projects the ORIGINAL data
SIGN      the alignment sign (sign of the correlation of member and model scores along samples)
          multiplies both the member's components and its scores; members are labelled 1..n_bootstraps
MEMBER    the member model centres the resample and applies no scaling of its own (effective constructor arguments)
OWN       the model's arrays are stored as copies (as C14)
"""

from __future__ import annotations

import ast

from ..pm import AnalysisError, const_str, dotted, is_self_attr, norm, walk_no_nested
from ..prov import FuncFacts
from ..resolve import Ctx, calls_in
from .common import bind_args, call_kwargs, container_write, docstring_nodes
from .c07 import _lit_sites, LITS
from .c14 import _borrowed_path


def _is_model_entry(p, key):
    """path reads model.data[key]"""
    ops = list(p.ops)
    return p.atom.kind == "param" and p.atom.name == "model" and len(ops) >= 2 and ops[0].kind == "attr" and ops[0].name == "data" \
        and ops[1].kind == "subscript" and const_str(getattr(ops[1].node, "slice", None)) == key


def check(chk):
    pm = chk.pm
    mod = pm.modules.get("xeofs.validation.bootstrapper")
    chk.require(mod is not None, "xeofs/validation/bootstrapper.py vanished")
    cls = pm.cls("xeofs.validation.bootstrapper.EOFBootstrapper")
    fit = cls.methods.get("fit")
    chk.require(fit is not None, "EOFBootstrapper.fit vanished")
    ff = FuncFacts.of(fit)
    ctx = Ctx(pm, fit, cls)

    # NAMES ---------------------------------------------------------------------
    sites = list(_lit_sites(mod))
    for node, kind, lit, pmap in sites:
        chk.violation("NAMES.literal", fit, node, construct=norm(node)[:80] + f" ({kind} {lit!r})",
                      why=f"the bootstrapper addresses a dimension by the literal {lit!r}: models with other sample_name/feature_name fail")
    chk.ok("NAMES.literal", fit, None, construct=f"<bootstrapper module scanned: {len(sites)} literal designators>")

    def from_model_attr(e, attr):
        return any(p.atom.kind == "param" and p.atom.name == "model" and p.ops and p.ops[0].kind == "attr" and p.ops[0].name == attr and len(p.ops) == 1
                   for p in ff.paths(e, spine_only=True))

    ctors = [c for c in calls_in(fit) if any(t.fn is not None and t.fn.name == "__init__" and t.bound is not None and t.bound.name == "EOF" for t in ctx.resolve_call(c))]
    chk.require(len(ctors) == 1, "EOFBootstrapper.fit: member EOF construction vanished")
    kw = call_kwargs(ctors[0])
    for name in ("sample_name", "feature_name"):
        chk.check(name in kw and from_model_attr(kw[name], name), "NAMES.member", fit, ctors[0], construct=f"member EOF({name}=model.{name})",
                  why=f"member models are built with the default {name}: their internals no longer line up with the model's data")
    # MEMBER.config: a member is an EOF analysis of the resample of the model's PREPROCESSED samples: the member model
    # centres the resample (a resample of centred data has its own non-zero mean; explained variance and total variance
    # are only comparable on the centred matrix) and applies no further scaling.  The effective value of each switch is
    # the argument of the constructor call, else the constructor's default.
    efn = next(t.fn for t in ctx.resolve_call(ctors[0]) if t.fn is not None and t.fn.name == "__init__")
    bound = bind_args(efn, ctors[0])
    a = efn.node.args
    pos = a.posonlyargs + a.args
    defaults = {x.arg: d for x, d in zip(pos[len(pos) - len(a.defaults):], a.defaults)}
    defaults.update({x.arg: d for x, d in zip(a.kwonlyargs, a.kw_defaults) if d is not None})
    has_star = any(k.arg is None for k in ctors[0].keywords) or any(isinstance(x, ast.Starred) for x in ctors[0].args)

    def effective(name):
        e = bound.get(name, None if has_star else defaults.get(name))
        if e is None:
            return None
        vals = {q.atom.node.value for q in ff.paths(e, spine_only=True) if q.atom.kind == "const" and not q.ops and isinstance(getattr(q.atom.node, "value", None), bool)}
        if isinstance(e, ast.Constant) and isinstance(e.value, bool):
            return e.value
        nonconst = [q for q in ff.paths(e, spine_only=True) if not (q.atom.kind == "const" and not q.ops)]
        return next(iter(vals)) if len(vals) == 1 and not nonconst else None

    for name, want in (("center", True), ("standardize", False), ("use_coslat", False)):
        if name not in defaults and name not in bound:
            continue
        if has_star and name not in bound:
            # keys of the ** dictionaries: a dict display, or a dict comprehension over a literal display of keys
            keysets = []
            for k in ctors[0].keywords:
                if k.arg is not None:
                    continue
                v = k.value
                if isinstance(v, ast.Name):
                    defs = ff.rd.reaching(v.id, ff.node_of(ctors[0]))
                    v = defs[0].value if len(defs) == 1 and defs[0].kind == "assign" and not defs[0].index else None
                ks = None
                if isinstance(v, ast.Dict) and all(kk is not None and const_str(kk) is not None for kk in v.keys):
                    ks = {const_str(kk) for kk in v.keys}
                elif isinstance(v, ast.DictComp) and len(v.generators) == 1 and isinstance(v.key, ast.Name) and isinstance(v.generators[0].target, ast.Name) \
                        and v.key.id == v.generators[0].target.id and not v.generators[0].ifs:
                    it = v.generators[0].iter
                    if isinstance(it, ast.Name):
                        d2 = ff.rd.reaching(it.id, ff.node_of(ctors[0]))
                        it = d2[0].value if len(d2) == 1 and d2[0].kind == "assign" and not d2[0].index else it
                    if isinstance(it, (ast.Tuple, ast.List, ast.Set)) and all(const_str(x) is not None for x in it.elts):
                        ks = {const_str(x) for x in it.elts}
                elif isinstance(v, ast.Call) and isinstance(v.func, ast.Name) and v.func.id == "dict" and not v.args:
                    ks = {kw.arg for kw in v.keywords if kw.arg}
                keysets.append(ks)
            if any(ks is None for ks in keysets):
                chk.note(f"MEMBER.config: {name} may be passed through * / ** arguments of the member constructor whose keys are not literal; not decided")
                continue
            if any(name in ks for ks in keysets):
                chk.check(False, "MEMBER.config", fit, ctors[0], construct=f"member EOF: {name} is {want}",
                          why=f"the member model's {name} is handed over through a ** dictionary (keys {sorted(set().union(*keysets))}) and is not the constant {want}: a member must centre "
                              "the resample itself and must not rescale the model's already preprocessed samples, whatever the model's own configuration")
                continue
            got = effective(name) if name in bound else (defaults[name].value if isinstance(defaults.get(name), ast.Constant) else None)
            chk.check(got is want, "MEMBER.config", fit, ctors[0], construct=f"member EOF: {name} is {want}", why=f"the member model's {name} is {got}")
            continue
        got = effective(name)
        chk.check(got is want, "MEMBER.config", fit, ctors[0], construct=f"member EOF: {name} is {want}",
                  why=f"the member model's {name} is {'not decidable / taken from elsewhere' if got is None else got}: a member must centre the resample itself and must not "
                      f"rescale the model's already preprocessed samples, whatever the model's own configuration (explained variance would exceed the member's total variance / "
                      f"the members would no longer be EOF analyses of the resample)")
    fits = [c for c in calls_in(fit) if isinstance(c.func, ast.Attribute) and c.func.attr == "fit" and any(t.fn is not None for t in ctx.resolve_call(c))]
    chk.require(len(fits) == 1, "EOFBootstrapper.fit: member fit call vanished")
    b = {}
    for t in ctx.resolve_call(fits[0]):
        if t.fn is not None:
            b = bind_args(t.fn, fits[0])
    chk.check("dim" in b and from_model_attr(b["dim"], "sample_name"), "NAMES.member.dim", fit, fits[0], construct="member.fit(dim=model.sample_name)",
              why="members are not fitted along the model's sample dimension")

    # RNG -------------------------------------------------------------------------
    rngs = [c for c in calls_in(fit) if (dotted(c.func) or "").split(".")[-1] in ("default_rng", "RandomState", "Generator")]
    draws0 = [c for c in calls_in(fit) if isinstance(c.func, ast.Attribute) and c.func.attr in ("choice", "integers", "permutation", "random", "shuffle")]
    if len(rngs) != 1:
        # the generator must be created inside fit, from the seed: one that lives on the object keeps its state between fits
        node = draws0[0] if draws0 else fit.node
        src = sorted({p.atom.name for c in draws0 for p in ff.paths(c.func.value, spine_only=True)})
        chk.violation("RNG.seed.fresh", fit, node, construct="fit re-creates the generator from the seed",
                      why=f"fit draws from {src or 'no generator built in fit'}: the generator is not (re)created from the seed inside fit, so a second fit "
                          "continues the random stream and the same seed no longer reproduces the same resamples")
        return
    chk.ok("RNG.seed.fresh", fit, rngs[0], construct="fit re-creates the generator from the seed")
    seed = rngs[0].args[0] if rngs[0].args else call_kwargs(rngs[0]).get("seed")
    okseed = seed is not None and any(p.atom.name == "self._params" and p.ops and const_str(getattr(p.ops[0].node, "slice", None)) == "seed" for p in ff.paths(seed, spine_only=True))
    chk.check(okseed, "RNG.seed", fit, rngs[0], why="the resampling generator is not seeded from the seed parameter: equal seeds give different members")
    init = cls.resolve("__init__")
    keys_ok = "seed" in norm(pm.cls("xeofs.validation.bootstrapper._BaseBootstrapper").methods["__init__"].node)
    chk.check(keys_ok, "RNG.seed.param", init, None, construct="seed stored in _params", why="the seed parameter is not stored")
    draws = [c for c in calls_in(fit) if isinstance(c.func, ast.Attribute) and c.func.attr in ("choice", "integers", "permutation", "random", "shuffle")]
    chk.require(len(draws) >= 1, "EOFBootstrapper.fit: resampling draw vanished")
    d = draws[0]
    from_rng = any(p.atom.kind == "call" and p.atom.node is rngs[0] for p in ff.paths(d.func.value, spine_only=True))
    chk.check(from_rng and len(draws) == 1, "RNG.draw.generator", fit, d, why="resampling does not draw from the seeded generator")
    rep = call_kwargs(d).get("replace")
    okrep = d.func.attr == "choice" and isinstance(rep, ast.Constant) and rep.value is True
    chk.check(okrep, "RNG.draw.replace", fit, d, why="the bootstrap must resample WITH replacement")

    def is_n_samples(e):
        ps = ff.paths(e, spine_only=True)
        ps = [p for p in ps if p.atom.kind != "const"]
        return bool(ps) and all(_is_model_entry(p, "input_data") and p.has_op("attr", "size") and not p.has_op("binop") and not p.has_op("unary") for p in ps
                                if p.atom.kind == "param" and p.atom.name == "model") and any(_is_model_entry(p, "input_data") for p in ps) \
            and not any(p.has_op("binop") for p in ff.paths(e, spine_only=True))

    okn = len(d.args) >= 2 and is_n_samples(d.args[0]) and is_n_samples(d.args[1])
    chk.check(okn, "RNG.draw.size", fit, d, construct="choice(n_samples, n_samples)", why="a bootstrap resample must draw as many indices as the model has samples, out of all samples")
    # resample along the sample dimension of the model's input data
    isels = [c for c in calls_in(fit) if isinstance(c.func, ast.Attribute) and c.func.attr == "isel"]
    okis = False
    isel = None
    for c in isels:
        if c.args and isinstance(c.args[0], ast.Dict):
            k, v = c.args[0].keys[0], c.args[0].values[0]
            src = any(_is_model_entry(p, "input_data") for p in ff.paths(c.func.value, spine_only=True))
            if from_model_attr(k, "sample_name") and any((p.atom.kind == "call" and p.atom.node is d) or any(o.node is d for o in p.ops) for p in ff.paths(v, spine_only=True)) and src:
                okis, isel = True, c
    chk.check(okis, "RNG.resample", fit, isels[0] if isels else fit.node, construct="input_data.isel({sample_name: idx})",
              why="the drawn indices do not select along the sample dimension of the model's preprocessed data")
    if isel is not None:
        arg = fits[0].args[0] if fits[0].args else None
        okfit = arg is not None and any(any(o.node is isel for o in p.ops) for p in ff.paths(arg, spine_only=True))
        chk.check(okfit, "RNG.member.fit", fit, fits[0], why="the member model is not fitted on the resample")
    trs = [c for c in calls_in(fit) if isinstance(c.func, ast.Attribute) and c.func.attr == "transform" and any(t.fn is not None for t in ctx.resolve_call(c))]
    chk.require(len(trs) == 1, "EOFBootstrapper.fit: projection of the original data vanished")
    a0 = trs[0].args[0] if trs[0].args else None
    ps = ff.paths(a0, spine_only=True) if a0 is not None else []
    okproj = any(_is_model_entry(p, "input_data") for p in ps) and not any(p.has_op("method", "isel") for p in ps)
    chk.check(okproj, "RNG.member.project", fit, trs[0], why="member scores must be the projection of the ORIGINAL samples, not of the resample")

    # SIGN ------------------------------------------------------------------------
    signs = [c for c in calls_in(fit) if (dotted(c.func) or "").endswith("np.sign")]
    chk.require(len(signs) == 1, "EOFBootstrapper.fit: sign alignment vanished")
    S = signs[0]
    for key in ("components", "scores"):
        val, node = container_write(fit, key)
        carried = any(p.atom.kind == "call" and p.atom.node is S and p.has_op("binop", "Mult") for p in ff.paths(val, spine_only=False))
        chk.check(carried, "SIGN.apply", fit, node, construct=f"{key} carry the alignment sign", why=f"member {key} are not multiplied by the alignment sign: components and scores no longer flip together")
    cps = ff.paths(S.args[0], spine_only=False)
    uses_model = any(_is_model_entry(p, "scores") for p in cps)
    reds = [o for p in cps for o in p.ops if o.kind == "method" and o.name in ("mean", "sum", "std")]
    along = bool(reds) and all(any(from_model_attr(a, "sample_name") for a in o.node.args[:1]) for o in reds)
    chk.check(uses_model and along, "SIGN.source", fit, S, why="the alignment sign must come from the correlation of member and model scores along the sample dimension")
    # the sign is the sign of a PEARSON correlation: the product that is averaged is a product of deviations from the mean
    # (centring one factor is enough: mean((a - mean a) b) = cov(a, b)); models fitted with center=False have scores with a
    # non-zero mean, for which the sign of the raw product mean is not the sign of the correlation.  The product is
    # Hermitian (exactly one factor conjugated) and the sign is taken of its real part - for complex models np.sign of a
    # complex number is a phase, and multiplying by it does not make the correlation non-negative.
    from .common import inline_locals

    def _centres(other):
        try:
            other = inline_locals(ff, other)
        except Exception:
            pass
        return any(isinstance(n, ast.Attribute) and n.attr == "mean" for n in ast.walk(other))

    lib = any(isinstance(c, ast.Call) and (dotted(c.func) or "").split(".")[-1] in ("corr", "cov", "corrcoef") for p in cps for o in p.ops
              for c in [o.node] if o.kind in ("arg", "method"))
    centred = lib
    herm_par = set()
    for p in cps:
        if not (_is_model_entry(p, "scores") or p.has_op("method", "transform") or p.atom.kind == "call"):
            continue
        kinds = [(o.kind, o.name) for o in p.ops]
        if ("binop", "Mult") not in kinds:
            continue
        i_mult = kinds.index(("binop", "Mult"))
        red_after = any(k == "method" and nm in ("mean", "sum") for k, nm in kinds[i_mult + 1:])
        if not red_after:
            continue
        for o in p.ops[:i_mult]:
            if o.kind == "binop" and o.name == "Sub" and o.side == "L" and _centres(o.other):
                centred = True
        herm_par.add((_is_model_entry(p, "scores"), sum(1 for k, nm in kinds[:i_mult] if k == "method" and nm in ("conj", "conjugate")) % 2))
    chk.check(centred, "SIGN.source.centred", fit, S, construct="the alignment sign is the sign of a centred (Pearson) correlation",
              why="the product of member and model scores is averaged without removing a mean: for a model fitted with center=False the scores have a "
                  "non-zero mean and the sign of the raw product mean is not the sign of the correlation - members come out negatively correlated with the model's mode")
    par_model = {par for is_model, par in herm_par if is_model}
    par_member = {par for is_model, par in herm_par if not is_model}
    herm = lib or (len(par_model) == 1 and len(par_member) == 1 and par_model != par_member)
    real = any(o.kind == "attr" and o.name == "real" for p in cps for o in p.ops) or any(
        isinstance(c, ast.Call) and (dotted(c.func) or "").split(".")[-1] == "real" for c in ast.walk(S.args[0]))
    chk.check(herm and real, "SIGN.source.herm", fit, S, construct="Hermitian product, sign of its real part",
              why="for complex models the correlation of member and model scores is the mean of a * conj(b) and its orientation is the sign of the real part; "
                  f"here {'the product conjugates neither or both factors' if not herm else 'np.sign is applied to the complex value (a phase, not +-1)'}",
              facts={"conj_parity_model": sorted(par_model), "conj_parity_member": sorted(par_member), "real_part": real})
    # member labels: each of the four bootstrapped results passes through assign_coords(n=arange(1, n_bootstraps + 1))
    # (followed into private helpers; the label array may be a shared local)
    first = None
    bad = []
    for key in ("components", "scores", "explained_variance", "total_variance"):
        val, node = container_write(fit, key)
        labelled = False
        for p in ff.paths(val, spine_only=True, follow=True):
            for o in p.ops:
                if o.kind == "method" and o.name == "assign_coords" and "n" in call_kwargs(o.node):
                    first = first or o.node
                    lps = ff.eval_in(o.frame, call_kwargs(o.node)["n"], spine_only=True)
                    lo = any(q.atom.kind == "const" and q.atom.name == "1" and [x.kind for x in q.ops] == ["arg"] and q.ops[0].name.endswith("arange") and q.ops[0].other == 0 for q in lps)
                    hi = any((q.atom.name in ("self._params", "n_bootstraps", "self.n_bootstraps")) and q.has_op("binop", "Add")
                             and any(x.kind == "binop" and x.name == "Add" and norm(x.other) == "1" for x in q.ops)
                             and q.ops[-1].kind == "arg" and q.ops[-1].name.endswith("arange") and q.ops[-1].other == 1
                             and all(x.kind in ("subscript", "binop", "arg") for x in q.ops)
                             and ("n_bootstraps" in q.atom.name or any(x.kind == "subscript" and "n_bootstraps" in x.name for x in q.ops))
                             for q in lps)
                    if lo and hi:
                        labelled = True
        if not labelled:
            bad.append(key)
    chk.check(not bad, "SIGN.labels", fit, first if first is not None else fit.node, construct="members labelled n = 1..n_bootstraps on all four results",
              why=f"the member dimension is not labelled 1..n_bootstraps on every result (unlabelled or mislabelled: {bad})")
    loops = [n for n in walk_no_nested(fit.node) if isinstance(n, ast.For)]
    okloop = bool(loops) and "n_bootstraps" in norm(loops[0].iter)
    chk.check(okloop, "SIGN.labels.count", fit, loops[0] if loops else fit.node, construct="one member per requested bootstrap", why="the number of members is not n_bootstraps")

    # OWN -------------------------------------------------------------------------
    for c in calls_in(fit):
        f = c.func
        if isinstance(f, ast.Attribute) and f.attr == "add" and dotted(f.value) == "self.data":
            kw = call_kwargs(c)
            data = kw.get("data") or (c.args[0] if c.args else None)
            src = None
            for p in ff.paths(data, spine_only=True):
                src = src or _borrowed_path(p, fit)
            chk.check(src is None, "OWN.borrowed", fit, c, why=f"{src} is stored as the very same object and renamed/re-attributed: the model's own results change")
    bad = [c for c in calls_in(fit) if isinstance(c.func, ast.Attribute) and c.func.attr in ("fit", "fit_transform") and norm(c.func.value) in ("self.preprocessor", "model.preprocessor", "model")]
    chk.check(not bad, "OWN.refit", fit, bad[0] if bad else None, construct="the model and its preprocessor are not re-fitted", why="the bootstrapper re-fits the model's own objects")
    chk.floor("RNG", 7)
    chk.floor("SIGN", 5)
