"""C01 - EOF-type modes are the exact eigen-decomposition (structural clauses).

NORM   explained variance stored by EOF._fit_algorithm is s**2/(N-1) with N the sample size of
       the decomposed matrix; total variance is var(ddof=1) along the sample dimension
CONJ   V_ = VT^H (odd conjugation parity) in both SVD wrappers; reconstruction uses conj(components),
       projection uses the components unconjugated
SORT   svds branch re-sorted descending for U, s, VT alike; truncation keeps a prefix
WIRE   scores = U*s, norms = s, components = V; the matrix stored as input_data is the one handed
       to the decomposer and to total_variance; Hilbert/Extended variants go through the same routine
"""

from __future__ import annotations

import ast

from ..pm import AnalysisError, FuncInfo, const_str, dotted, is_self_attr, norm, walk_no_nested
from ..prov import FuncFacts, Path
from ..resolve import Ctx
from .common import (
    bind_args, call_kwargs, conj_parity, container_write, container_writes, denominator_kind, dot_operands,
    is_dot_call, reads_container, returns_of, variance_ddof,
)
from . import c15


def check(chk):
    pm = chk.pm
    _norm(chk)
    _conj(chk)
    _sort(chk)
    _wire(chk)
    _ratio(chk)
    chk.floor("NORM", 3)
    chk.floor("CONJ", 7)
    chk.floor("SORT", 6)
    chk.floor("WIRE", 6)


LABEL_ONLY = {"rename", "assign_attrs", "assign_coords", "copy", "drop_vars", "reset_coords", "transpose", "sel", "isel", "squeeze", "compute", "persist"}


def _ratio(chk):
    """NORM.ratio - the explained variance ratio is the stored explained variance divided by the stored total variance of the
    decomposed matrix: exactly one division of the one by the other, nothing else touches either value on the way (a floor,
    clip or offset on the denominator makes the ratios of small-magnitude data ratios against another number than the trace
    of the covariance matrix).  Checked in every class of the EOF family that defines the accessor."""
    pm = chk.pm
    n = 0
    for cls in pm.classes.values():
        m = cls.methods.get("explained_variance_ratio")
        if m is None or not cls.qualname.startswith("xeofs.single"):
            continue
        ff = FuncFacts.of(m)
        rets = returns_of(m)
        tot = [p for r in rets for p in ff.paths(r.value, spine_only=False, follow=True) if reads_container(p, "total_variance")]
        exp = [p for r in rets for p in ff.paths(r.value, spine_only=False, follow=True) if reads_container(p, "explained_variance")]
        if not tot and not exp:
            continue  # another definition of the ratio (rotators normalise by their own totals): not this clause
        n += 1

        def changing(p):
            out = []
            for o in p.ops[1:]:
                if o.kind == "method" and o.name not in LABEL_ONLY:
                    out.append(o)
                elif o.kind in ("binop", "unary", "arg", "marg"):
                    out.append(o)
            return out

        ok = bool(tot) and bool(exp)
        why = "the ratio no longer divides the stored explained variance by the stored total variance"
        for p in tot:
            ch = changing(p)
            if not (len(ch) == 1 and ch[0].kind == "binop" and ch[0].name == "Div" and ch[0].side == "R"):
                ok = False
                why = ("the total variance is changed on its way into the ratio (" + ", ".join(f"{o.kind}:{o.name}" for o in ch if not (o.kind == "binop" and o.name == "Div"))[:80] +
                       "): the ratios are no longer taken against the total variance of the decomposed matrix (for data of magnitude 1e-8 a floor at machine epsilon is larger than the total variance itself)")
        for p in exp:
            ch = changing(p)
            if ch and not (len(ch) == 1 and ch[0].kind == "binop" and ch[0].name == "Div" and ch[0].side == "L"):
                # attrs.update(self.data["explained_variance"].attrs) reads metadata only
                if not any(o.kind == "attr" and o.name == "attrs" for o in p.ops):
                    ok = False
                    why = "the explained variance is changed on its way into the ratio"
        chk.check(ok, "NORM.ratio", m, rets[0] if rets else m.node, construct=f"{cls.name}.explained_variance_ratio = explained_variance / total_variance", why=why)
    chk.require(n >= 1, "explained_variance_ratio: accessor of the EOF family vanished")


def _norm(chk):
    pm = chk.pm
    fn = pm.own_method("xeofs.single.eof.EOF", "_fit_algorithm")
    ff = FuncFacts.of(fn)
    val, node = container_write(fn, "explained_variance")
    ps = ff.paths(val, spine_only=False)
    s_paths = [p for p in ps if p.has_op("attr", "s_")]
    chk.require(bool(s_paths), "EOF._fit_algorithm: explained variance no longer derives from decomposer.s_")
    for p in s_paths[:1]:
        pows = [o for o in p.ops if o.kind == "binop" and o.name == "Pow" and o.side == "L"]
        divs = [o for o in p.ops if o.kind == "binop" and o.name == "Div" and o.side == "L"]
        mults = [o for o in p.ops if o.kind == "binop" and o.name in ("Mult",)]
        ok_pow = len(pows) == 1 and isinstance(pows[0].other, ast.Constant) and pows[0].other.value == 2
        chk.check(ok_pow and not mults, "NORM.explained_variance.power", fn, node,
                  why="explained variance must be the squared singular value (exactly one **2)",
                  construct="explained_variance = s**2 / ...")
        chk.check(len(divs) == 1, "NORM.explained_variance.single_div", fn, node,
                  why=f"explained variance is divided {len(divs)} times; exactly one division by N-1 expected",
                  construct="explained_variance = ... / (N-1)")
        if len(divs) == 1:
            kind, src = denominator_kind(ff, divs[0].other, ff.node_of(divs[0].node))
            samp = "sample_name" in src or "shape[0]" in src
            chk.check(kind == "N-1" and samp, "NORM.explained_variance.denominator", fn, divs[0].node,
                      why=f"the property fixes the N-1 normalisation over the samples; found denominator of kind {kind} from {src}",
                      construct="explained_variance denominator", facts={"kind": kind, "source": src})
    # total variance: var(ddof=1) along the sample dimension
    tv, tnode = container_write(fn, "total_variance")
    tps = ff.paths(tv, spine_only=True)
    calls = [p.atom.node for p in tps if p.atom.kind == "call"]
    ctx = Ctx(pm, fn)
    target = None
    for c in calls:
        for t in ctx.resolve_call(c):
            if t.fn is not None and "variance" in t.fn.name:
                target = (c, t.fn)
    chk.require(target is not None, "EOF._fit_algorithm: total variance no longer comes from a variance helper")
    c, tvfn = target
    dd = variance_ddof(tvfn)
    chk.check(dd == 1, "NORM.total_variance.ddof", tvfn, None, construct=f"{tvfn.qualname}: var(ddof=...)",
              why=f"total variance uses ddof={dd}; the ratio against s**2/(N-1) needs ddof=1", facts={"ddof": dd})
    b = bind_args(tvfn, c)
    dimarg = b.get("dim")
    okdim = dimarg is not None and any(
        p.atom.name in ("self.sample_name",) for p in ff.paths(dimarg, spine_only=True)
    )
    chk.check(okdim, "NORM.total_variance.dim", fn, c, why="total variance must be taken along the sample dimension")


def _conj(chk):
    pm = chk.pm
    dec = pm.own_method("xeofs.linalg.decomposer.Decomposer", "fit")
    ff = FuncFacts.of(dec)
    for st in ff.statements():
        if isinstance(st, ast.Assign) and is_self_attr(st.targets[0], "V_"):
            ps = [p for p in ff.paths(st.value, spine_only=True) if p.has_op("unpack", "2")]
            chk.require(bool(ps), "Decomposer.fit: V_ no longer derives from the solver's VT")
            chk.check(all(conj_parity(p) == 1 for p in ps), "CONJ.decomposer.V", dec, st,
                      why="V_ must be the conjugate transpose of VT (conjugation dropped or doubled)")
            nT = {sum(1 for o in p.ops if (o.kind == "method" and o.name == "transpose") or (o.kind == "attr" and o.name == "T")) % 2 for p in ps}
            chk.check(nT == {1}, "CONJ.decomposer.transpose", dec, st, why="V_ must be VT transposed to (feature, mode)")
    svd = pm.own_method("xeofs.linalg._numpy._svd._SVD", "fit_transform")
    sf = FuncFacts.of(svd)
    for r in returns_of(svd):
        if isinstance(r.value, ast.Tuple) and len(r.value.elts) == 3:
            ps = [p for p in sf.paths(r.value.elts[2], spine_only=True) if p.has_op("unpack", "2")]
            chk.require(bool(ps), "_SVD.fit_transform: V no longer derives from VT")
            chk.check(all(conj_parity(p) == 1 for p in ps), "CONJ.svd.V", svd, r,
                      why="V must be the conjugate transpose of VT (conjugation dropped or doubled)")
    # model level: reconstruction / projection operands
    for cname, key in (("xeofs.single.eof.EOF", "components"), ("xeofs.single.sparse_pca.SparsePCA", "components_normal"), ("xeofs.single.eeof.ExtendedEOF", "components")):
        fn = pm.own_method(cname, "_inverse_transform_algorithm")
        f2 = FuncFacts.of(fn)
        hit = False
        for c in f2.calls():
            if is_dot_call(c):
                for opnd in dot_operands(c):
                    ps = [p for p in f2.paths(opnd, spine_only=True) if reads_container(p, key)]
                    if ps:
                        hit = True
                        chk.check(all(conj_parity(p) == 1 for p in ps), "CONJ.reconstruct", fn, c,
                                  why="reconstruction must contract the scores with the conjugated components (X = S V^H)")
        chk.require(hit, f"{cname}._inverse_transform_algorithm: reconstruction dot product not found")
    for cname, key in (("xeofs.single.eof.EOF", "components"), ("xeofs.single.sparse_pca.SparsePCA", "components")):
        fn = pm.own_method(cname, "_transform_algorithm")
        f2 = FuncFacts.of(fn)
        hit = False
        for c in f2.calls():
            if is_dot_call(c):
                for opnd in dot_operands(c):
                    ps = [p for p in f2.paths(opnd, spine_only=True) if reads_container(p, key)]
                    if ps:
                        hit = True
                        chk.check(all(conj_parity(p) == 0 for p in ps), "CONJ.project", fn, c,
                                  why="projection must use the components unconjugated (scores = X V)")
        chk.require(hit, f"{cname}._transform_algorithm: projection dot product not found")


def _sort(chk):
    pm = chk.pm
    dec = pm.own_method("xeofs.linalg.decomposer.Decomposer", "fit")
    svd = pm.own_method("xeofs.linalg._numpy._svd._SVD", "fit_transform")
    c15._resort(_Relabel(chk, "SIB.resort", "SORT.resort"), dec, svd)
    # truncation keeps a prefix
    for fn in (dec, svd):
        ff = FuncFacts.of(fn)
        n = 0
        for st in ff.statements():
            # a result of the solver re-bound to a part of itself: x = x[...] / x = x.sel(mode=...)
            if not (isinstance(st, ast.Assign) and isinstance(st.targets[0], ast.Name)):
                continue
            v = st.value
            base = v.value if isinstance(v, ast.Subscript) else (v.func.value if isinstance(v, ast.Call) and isinstance(v.func, ast.Attribute) else None)
            if not (isinstance(base, ast.Name) and base.id == st.targets[0].id):
                continue
            if not any(p.atom.kind == "call" and p.has_op("unpack") for p in ff.paths(base, spine_only=True)):
                continue  # not one of the unpacked solver results
            slices = []
            if isinstance(v, ast.Subscript):
                sl = v.slice
                slices = [x for x in (sl.elts if isinstance(sl, ast.Tuple) else [sl]) if isinstance(x, ast.Slice)]
                slices = [x for x in slices if x.lower is not None or x.upper is not None or x.step is not None]
                if not slices:
                    continue
                n += 1
                ok = all(x.lower is None and x.step is None and x.upper is not None for x in slices)
                chk.check(ok, "SORT.prefix", fn, st, why="truncation must keep the leading modes (a prefix slice [:k])")
            elif isinstance(v, ast.Call) and isinstance(v.func, ast.Attribute) and v.func.attr == "sel":
                kw = call_kwargs(v)
                m = kw.get("mode")
                if m is not None:
                    from .common import inline_locals
                    m = inline_locals(ff, m)
                if isinstance(m, ast.Call) and isinstance(m.func, ast.Name) and m.func.id == "slice":
                    n += 1
                    ok = len(m.args) == 2 and isinstance(m.args[0], ast.Constant) and m.args[0].value == 1
                    chk.check(ok, "SORT.prefix", fn, st, why="truncation must keep modes 1..k (slice(1, k) on the mode labels)")
        chk.require(n >= 6, f"{fn.qualname}: truncation statements not found")


class _Relabel:
    """proxy that renames a rule family (reuse of a sibling check under another property)."""

    def __init__(self, chk, old, new):
        self._c, self._o, self._n = chk, old, new

    def check(self, cond, rule, *a, **k):
        return self._c.check(cond, rule.replace(self._o, self._n), *a, **k)

    def violation(self, rule, *a, **k):
        return self._c.violation(rule.replace(self._o, self._n), *a, **k)

    def ok(self, rule, *a, **k):
        return self._c.ok(rule.replace(self._o, self._n), *a, **k)

    def floor(self, rule, n):
        return self._c.floor(rule.replace(self._o, self._n), n)

    def __getattr__(self, n):
        return getattr(self._c, n)


def _wire(chk):
    pm = chk.pm
    fn = pm.own_method("xeofs.single.eof.EOF", "_fit_algorithm")
    ff = FuncFacts.of(fn)
    want = {
        "scores": ({"U_", "s_"}, "scores must be U * s"),
        "norms": ({"s_"}, "norms must be the singular values"),
        "components": ({"V_"}, "components must be the right singular vectors V"),
    }
    for key, (attrs, why) in want.items():
        val, node = container_write(fn, key)
        ps = ff.paths(val, spine_only=False)
        got = {o.name for p in ps for o in p.ops if o.kind == "attr" and o.name in ("U_", "s_", "V_")}
        ok = got == attrs
        if key == "scores":
            ok = ok and any(p.has_op("binop", "Mult") for p in ps)
        chk.check(ok, f"WIRE.{key}", fn, node, why=f"{why} (found decomposer attributes {sorted(got)})")
    # same matrix everywhere
    inp, inode = container_write(fn, "input_data")
    aug = lambda e: {norm(p.atom.node) for p in ff.paths(e, spine_only=True) if p.atom.kind == "call" and "_augment_data" in p.atom.name}
    a_in = aug(inp)
    chk.require(bool(a_in), "EOF._fit_algorithm: input_data no longer stores the augmented matrix")
    for c in ff.calls():
        f = c.func
        if isinstance(f, ast.Attribute) and f.attr == "fit" and c.args:
            chk.check(aug(c.args[0]) == a_in, "WIRE.same_matrix.decomposer", fn, c,
                      why="the decomposed matrix is not the (augmented) matrix stored as input_data")
        if (dotted(f) or "").endswith("total_variance") and c.args:
            chk.check(aug(c.args[0]) == a_in, "WIRE.same_matrix.total_variance", fn, c,
                      why="total variance is not computed from the (augmented) matrix that is decomposed: variance ratios refer to another matrix")
    # Hilbert variant augments through hilbert_transform along (sample, feature)
    h = pm.cls("xeofs.single.eof.HilbertEOF")
    augm = h.resolve("_augment_data")
    chk.require(augm is not None and augm.cls is h, "HilbertEOF._augment_data vanished")
    hf = FuncFacts.of(augm)
    hc = [c for c in hf.calls() if (dotted(c.func) or "").endswith("hilbert_transform")]
    chk.require(len(hc) == 1, "HilbertEOF._augment_data: hilbert_transform call vanished")
    dims = call_kwargs(hc[0]).get("dims")
    okd = isinstance(dims, ast.Tuple) and [norm(e) for e in dims.elts] == ["self.sample_name", "self.feature_name"]
    chk.check(okd, "WIRE.hilbert.dims", augm, hc[0], why="the Hilbert transform must run along (sample_name, feature_name)")
    fa = h.resolve("_fit_algorithm")
    ctx = Ctx(pm, fa, h)
    reach = [t.fn.qualname for c in FuncFacts.of(fa).calls() for t in ctx.resolve_call(c) if t.fn is not None]
    chk.check("xeofs.single.eof.EOF._fit_algorithm" in reach, "WIRE.hilbert.fit", fa, None,
              construct="HilbertEOF._fit_algorithm -> EOF._fit_algorithm", why="HilbertEOF no longer fits through EOF._fit_algorithm")
    _extended(chk)
    # the delay-embedded matrix holds exactly the complete delay windows: N - (embedding - 1) * tau rows (polynomial normal
    # form of the slice stop; rule body shared with C10.SPECIAL.embed)
    from .c10 import _embed as _embed_keep
    _embed_keep(chk, keep_rule=None, window_rule="WIRE.extended.window", base_rule=None)
    _hilbert_pad(chk)
    # the stored decomposition stays what fit computed: no accessor rescales the stored components / scores in place
    # (shared with C14's rule; here it protects orthonormality of components() on every later call)
    from . import c14 as _c14
    _c14._query_mutates(_Relabel(chk, "HIST.query_mutates", "WIRE.query_mutates"))


def _hilbert_pad(chk):
    """the analytic signal is that of the data: the exponential extension that is added before the Hilbert transform is
    cut off again afterwards, under the same condition, and the cut keeps the middle third [n, 2n)"""
    pm = chk.pm
    fn = pm.func("xeofs.utils.hilbert_transform._hilbert_transform_with_padding") if "xeofs.utils.hilbert_transform._hilbert_transform_with_padding" in pm.functions else None
    if fn is None:
        mod = pm.modules.get("xeofs.utils.hilbert_transform")
        chk.require(mod is not None, "xeofs/utils/hilbert_transform.py vanished")
        cands = [f for f in mod.functions.values() if any(isinstance(c, ast.Call) and (dotted(c.func) or "").split(".")[-1] == "_pad_exp" for c in walk_no_nested(f.node))]
        chk.require(len(cands) == 1, "hilbert_transform: the function that pads and transforms vanished")
        fn = cands[0]
    ff = FuncFacts.of(fn)
    from .common import atomic_conditions
    pads = [c for c in ff.calls() if (dotted(c.func) or "").split(".")[-1] == "_pad_exp"]
    hil = [c for c in ff.calls() if (dotted(c.func) or "").split(".")[-1] == "hilbert"]
    def cut_slices(node):
        return [n for n in walk_no_nested(node) if isinstance(n, ast.Subscript) and isinstance(n.slice, ast.Slice) and n.slice.lower is not None and n.slice.upper is not None
                and isinstance(n.ctx, ast.Load)]

    cuts = cut_slices(fn.node)
    site = {id(c): c for c in cuts}  # where the cut happens in fn (the slice itself or the call of a helper that slices)
    if not cuts:
        for c in ff.calls():
            if isinstance(c.func, ast.Name) and c.func.id in fn.module.functions and c.func.id.startswith("_"):
                inner = cut_slices(fn.module.functions[c.func.id].node)
                if len(inner) == 1:
                    cuts.append(inner[0])
                    site[id(inner[0])] = c
    ok = len(pads) == 1 and len(hil) == 1 and len(cuts) == 1
    why = f"padding / transform / cut sites: {len(pads)} / {len(hil)} / {len(cuts)}"
    if ok:
        cond = lambda n: {(norm(t), pol) for t, pol in atomic_conditions(ff, n)}
        at = site[id(cuts[0])]
        same = cond(pads[0]) == cond(at) and bool(cond(pads[0]))
        pn, hn, cn = ff.cfg.node_for(pads[0]), ff.cfg.node_for(hil[0]), ff.cfg.node_for(at)
        order = ff.cfg.path_exists_avoiding(pn, hn, set()) and ff.cfg.path_exists_avoiding(hn, cn, set())
        lo, hi = norm(cuts[0].slice.lower), norm(cuts[0].slice.upper).replace(" ", "")
        middle = hi in (f"2*{lo}", f"{lo}*2", f"{lo}+{lo}")
        fed = any(p.atom.kind == "call" and p.atom.node is pads[0] or any(o.node is pads[0] for o in p.ops) for a in hil[0].args[:1] for p in ff.paths(a, spine_only=True))
        ok = same and order and middle and fed
        why = f"same condition: {same}; pad -> transform -> cut: {order}; cut keeps [n, 2n): {middle}; transform receives the padded series: {fed}"
    chk.check(ok, "WIRE.hilbert.pad", fn, cuts[0] if cuts else fn.node, construct="pad (exp) -> hilbert -> cut [n, 2n) under the same condition",
              why="the padding added before the Hilbert transform is not removed consistently (" + why + "): the analytic signal belongs to another series than the data")


def _extended(chk):
    pm = chk.pm
    # ExtendedEOF: inner EOF on the embedded matrix; its container becomes the model's
    e = pm.own_method("xeofs.single.eeof.ExtendedEOF", "_fit_algorithm")
    ef = FuncFacts.of(e)
    ectx = Ctx(pm, e)
    fits = [c for c in ef.calls() if isinstance(c.func, ast.Attribute) and c.func.attr == "fit"
            and any(t.fn is not None and t.fn.qualname.endswith("BaseModelSingleSet.fit") for t in ectx.resolve_call(c))]
    emb = [c for c in fits if any("concat" in repr(p) for p in ef.paths(c.args[0], spine_only=True))] if fits else []
    chk.check(len(emb) == 1, "WIRE.extended.fit", e, emb[0] if emb else e.node,
              construct="inner EOF fitted on the delay-embedded matrix", why="ExtendedEOF no longer fits an EOF on the concatenated shifted copies")
    # the truncated, shifted copies are not centred any more (each covers another window of the series): the inner
    # EOF must centre the embedded matrix itself, otherwise its singular values are not those of a covariance matrix
    if emb:
        recv = emb[0].func.value
        ctor = None
        for p in ef.paths(recv, spine_only=True):
            if p.atom.kind == "call" and not p.ops and isinstance(p.atom.node, ast.Call):
                ts = [t for t in ectx.resolve_call(p.atom.node) if t.fn is not None and t.fn.name == "__init__"]
                if ts:
                    ctor = (p.atom.node, ts[0].fn)
        chk.require(ctor is not None, "ExtendedEOF._fit_algorithm: constructor of the inner EOF not found")
        call, init = ctor
        kw = {k.arg: k.value for k in call.keywords if k.arg}
        b = dict(zip([q for q in init.positional_params if q != "self"], call.args))
        b.update(kw)
        cen = b.get("center", init.defaults().get("center"))
        okc = isinstance(cen, ast.Constant) and cen.value is True
        chk.check(okc, "WIRE.extended.center", e, call, construct="inner EOF of ExtendedEOF centres the embedded matrix (center=True)",
                  why=f"the inner EOF is built with center={norm(cen) if cen is not None else '?'}: the delay-embedded matrix (truncated, shifted windows) is "
                      "decomposed without removing its column means, so the explained variances are not eigenvalues of its covariance matrix")
        for flag in ("standardize", "use_coslat"):
            v = b.get(flag, init.defaults().get(flag))
            chk.check(isinstance(v, ast.Constant) and v.value is False, "WIRE.extended.once", e, call,
                      construct=f"inner EOF of ExtendedEOF: {flag}=False", why=f"{flag} is applied a second time by the inner EOF (the preprocessor of the outer model has applied the user's choice already)")
    if emb:
        from .common import sample_order_kept
        # the lag mechanism: `.shift({sample: -i})` copies (collected in a list, which provenance does not follow): judge what is shifted
        shifts = [c for c in ef.calls() if isinstance(c.func, ast.Attribute) and c.func.attr == "shift"]
        chk.require(bool(shifts), "ExtendedEOF._fit_algorithm: the shifted copies (.shift) vanished")
        for sh in shifts:
            sample_order_kept(chk, "WIRE.extended.order", e, ef, sh.func.value, "the series reaches the delay embedding in the caller's order",
                              "the shifted copies are formed: a window no longer holds consecutive samples of the caller's series")
    adopt = [st for st in ef.statements() if isinstance(st, ast.Assign) and is_self_attr(st.targets[0], "data") and norm(st.value).endswith(".data")]
    chk.check(len(adopt) == 1, "WIRE.extended.data", e, adopt[0] if adopt else e.node,
              construct="self.data = model.data", why="ExtendedEOF no longer adopts the inner EOF's results")
