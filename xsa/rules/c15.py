"""C15 - solver choice, thresholds and seeds.

WIRE.splat      a value that flows from ``solver_kwargs`` is never ``**``-splatted into an xeofs
                callable (only the solver itself takes the options as keywords)
WIRE.arrive     in both SVD wrappers every solver branch hands the user's solver_kwargs to the solver
RNG.global      no draw from a global random generator; generator constructors are seeded from a
                seed/random_state value
RNG.solver      each randomised solver branch passes random_state/seed derived from self.random_state
RNG.ctor        a callee that has a ``random_state`` parameter is given one wherever a seed is in
                scope (exempt: callee pinned to the exact solver)
EXH.solver      every ``match <solver>`` has exactly the documented cases and a raising default;
                'auto' only chooses between exact and randomised
SIGN            the sign multiplier is computed from the right singular vectors along the feature
                axis and multiplies both U and V
SIB             Decomposer.fit and _SVD.fit_transform implement one policy: same keyword sets per
                solver, same threshold count (canonical form n_pre - #(cum >= f) + 1, N-1)
"""

from __future__ import annotations

import ast

from ..pm import AnalysisError, ClassInfo, FuncInfo, const_str, dotted, is_self_attr, norm, walk_no_nested
from ..prov import FuncFacts, Path
from ..resolve import Ctx
from ..cfg import always_exits
from .common import bind_args, call_kwargs, has_star_kwargs, returns_of

SOLVER_CASES = {"auto", "full", "randomized"}
# external randomised solvers and the keyword that seeds them (frozen; sklearn/scipy/dask APIs)
SEED_KW = {
    "sklearn.utils.extmath.randomized_svd": "random_state",
    "scipy.sparse.linalg.svds": "random_state",
    "dask.array.linalg.svd_compressed": "seed",
}
EXACT = "numpy.linalg.svd"
# keys the SVD wrappers may impose over the user's solver_kwargs (frozen, one reason each); every other option the
# wrapper sets must be a DEFAULT that the user's dict overrides
FORCED_OK = {
    "sklearn.utils.extmath.randomized_svd": {"n_components": "number of modes is the model's n_modes", "random_state": "seed is the model's random_state (C15)"},
    "scipy.sparse.linalg.svds": {"k": "number of modes", "solver": "lobpcg is the only svds back end that handles the complex case the branch exists for",
                                 "random_state": "seed is the model's random_state"},
    "dask.array.linalg.svd_compressed": {"k": "number of modes", "seed": "seed is the model's random_state"},
}
GLOBAL_RNG_PREFIX = ("numpy.random.", "dask.array.random.", "random.")
GENERATOR_CTORS = {"default_rng", "RandomState", "Generator", "SeedSequence", "PCG64", "Philox"}


def _ext_name(pm, fn: FuncInfo, e: ast.expr) -> str | None:
    r = pm.resolve_expr_static(fn.module, e)
    if r and r[0] == "external":
        return r[1]
    return None


def _mentions_solver_kwargs(ff: FuncFacts, e: ast.expr) -> bool:
    for p in ff.paths(e, spine_only=True):
        a = p.atom
        if a.kind in ("param", "name") and a.name == "solver_kwargs":
            return True
        if a.kind == "selfattr" and a.name == "self.solver_kwargs":
            return True
        if a.kind == "selfattr" and a.name == "self._params" and p.ops and p.ops[0].kind == "subscript":
            if const_str(getattr(p.ops[0].node, "slice", None)) == "solver_kwargs":
                return True
    return False


def _seed_truthiness(chk):
    """RNG.seed.truthiness - a seed is never tested for truth: 0 is a valid seed (``seed or default``, ``if seed:``,
    ``seed and ...``, ``not seed`` treat it as "no seed given", so equal inputs with random_state=0 run unseeded)"""
    pm = chk.pm
    SEEDS = {"random_state", "seed"}

    def is_seed(ff, e) -> bool:
        if isinstance(e, ast.Constant):
            return False
        ps = ff.paths(e, spine_only=True)
        if not ps:
            return False
        def one(p):
            a = p.atom
            if a.kind == "param" and a.name in SEEDS and not p.ops:
                return True
            if a.kind == "selfattr" and a.name.split(".")[-1] in SEEDS and not p.ops:
                return True
            if a.kind == "selfattr" and a.name in ("self._params", "self.attrs") and len(p.ops) == 1 and p.ops[0].kind == "subscript" \
                    and const_str(getattr(p.ops[0].node, "slice", None)) in SEEDS:
                return True
            return False
        return all(one(p) for p in ps)

    n = 0
    for fn in pm.functions.values():
        src = norm(fn.node)
        if not any(k in src for k in SEEDS):
            continue
        ff = None
        tested = []
        for node in walk_no_nested(fn.node):
            if isinstance(node, ast.BoolOp):
                tested += [(v, node) for v in node.values[:-1]]
            elif isinstance(node, (ast.If, ast.IfExp, ast.While, ast.Assert)):
                tested.append((node.test, node))
            elif isinstance(node, ast.UnaryOp) and isinstance(node.op, ast.Not):
                tested.append((node.operand, node))
        for e, where in tested:
            if isinstance(e, (ast.Compare, ast.BoolOp, ast.Call)) or (isinstance(e, ast.UnaryOp) and isinstance(e.op, ast.Not)):
                continue
            ff = ff or FuncFacts.of(fn)
            if is_seed(ff, e):
                n += 1
                chk.violation("RNG.seed.truthiness", fn, where, construct=f"truth test of the seed `{norm(e)}`",
                              why=f"`{norm(where)[:90]}` tests the seed {norm(e)} for truth: the valid seed 0 counts as 'no seed', so with random_state=0 the randomised "
                                  "solver runs unseeded and equal inputs no longer give identical results (test `is None` instead)")
    chk.ok("RNG.seed.truthiness", "xeofs", None, construct=f"<truth tests of seeds found: {n}>", nontrivial=False)


def check(chk):
    _splat(chk)
    _wrappers(chk)
    _rng_global(chk)
    _rng_ctor(chk)
    _seed_truthiness(chk)
    _exhaustive(chk)
    chk.floor("WIRE.splat", 1)
    chk.floor("WIRE.arrive", 8)
    chk.floor("RNG.solver", 6)
    chk.floor("RNG.ctor", 10)
    chk.floor("EXH.solver", 3)
    chk.floor("SIGN", 4)
    chk.floor("SIB", 4)


# ----------------------------------------------------------------------------
def _splat(chk):
    pm = chk.pm
    n = 0
    for fn in pm.all_functions():
        stars = [
            (c, k.value)
            for c in walk_no_nested(fn.node)
            if isinstance(c, ast.Call)
            for k in c.keywords
            if k.arg is None
        ]
        if not stars:
            continue
        ff = FuncFacts.of(fn)
        ctx = Ctx(pm, fn)
        for call, val in stars:
            if not _mentions_solver_kwargs(ff, val):
                continue
            n += 1
            ts = ctx.resolve_call(call)
            internal = [t for t in ts if t.fn is not None]
            bad = [t for t in internal if not t.fn.has_varkw]
            chk.check(not bad, "WIRE.splat", fn, call,
                      why=f"solver_kwargs is **-splatted into {bad[0].fn.qualname if bad else ''}, which takes no solver "
                          "options as keywords: any non-empty solver_kwargs raises TypeError; pass solver_kwargs=<dict>",
                      facts={"callee": [t.label() for t in ts]})
    # a positive obligation per class advertising solver_kwargs: its stored value is forwarded by keyword somewhere
    chk.ok("WIRE.splat", "xeofs", None, construct=f"<{n} ** splat(s) of solver_kwargs examined in {len(pm.functions)} functions>", nontrivial=False)


# ----------------------------------------------------------------------------
def _svd_calls(pm, fn: FuncInfo):
    """calls ``self._svd(X, [dims,] func, kwargs)`` -> (call, solver external name, kwargs expr)"""
    out = []
    ctx = Ctx(pm, fn)
    for c in walk_no_nested(fn.node):
        if isinstance(c, ast.Call) and isinstance(c.func, ast.Attribute) and c.func.attr == "_svd" and is_self_attr(c.func):
            ts = ctx.resolve_call(c)
            if not ts or ts[0].fn is None:
                raise AnalysisError(f"{fn.qualname}: cannot resolve self._svd")
            b = bind_args(ts[0].fn, c)
            # the solver callable and its keyword dict are the last two parameters of the private wrapper
            # (whatever they are called)
            pnames = [a.arg for a in ts[0].fn.node.args.args if a.arg != "self"]
            f = b.get(pnames[-2]) if len(pnames) >= 2 else None
            kw = b.get(pnames[-1]) if len(pnames) >= 2 else None
            if f is None or kw is None:
                raise AnalysisError(f"{fn.qualname}: self._svd call without func/kwargs")
            out.append((c, _ext_name(pm, fn, f) or norm(f), kw))
    return out


def _gkeys(ff: FuncFacts, node) -> set:
    return {(norm(g.test), g.polarity, norm(g.pattern) if g.pattern is not None else "") for g in ff.guards(node)}


def _dict_keys_and_values(ff: FuncFacts, e: ast.expr, call: ast.AST | None = None):
    """keys written into the dict value ``e`` (dict displays merged with |, item assignments and setdefault calls on the
    same variable in the same branch as ``call``) -> {key: [paths of the value]}; a key that is only set under an
    additional condition is recorded as ``key?conditional``"""
    keys: dict[str, list[Path]] = {}
    for p in ff.paths(e, spine_only=False):
        for o in p.ops:
            if o.kind == "dictval":
                keys.setdefault(o.name, []).append(p)
                break
    gc = _gkeys(ff, call) if call is not None else None
    if isinstance(e, ast.Name):
        for st in ff.statements():
            if isinstance(st, ast.Assign):
                for t in st.targets:
                    if isinstance(t, ast.Subscript) and isinstance(t.value, ast.Name) and t.value.id == e.id and const_str(t.slice):
                        k = const_str(t.slice)
                        gs = _gkeys(ff, st)
                        if gc is not None and not (gs >= gc or gs <= gc):
                            continue  # another branch
                        ps = list(ff.paths(st.value, spine_only=False))
                        if gc is not None and gs > gc:
                            keys.setdefault(k + "?conditional", []).extend(ps)
                        else:
                            keys.setdefault(k, []).extend(ps)
        for c in ff.calls():
            if isinstance(c.func, ast.Attribute) and c.func.attr == "setdefault" and isinstance(c.func.value, ast.Name) and c.func.value.id == e.id and c.args:
                k = const_str(c.args[0])
                gs = _gkeys(ff, c)
                if gc is not None and not (gs >= gc or gs <= gc):
                    continue
                if k:
                    keys.setdefault(k, [])
    return keys


def _policy_flags(pm, fn: FuncInfo) -> set[str]:
    """local names that hold the decision of the branch on the solver name: assigned in every case of that branch, or
    bound to the result of a helper that contains the branch"""
    from .common import chain_heads, switch_cases
    out: set[str] = set()

    def has_switch(node) -> list:
        hits = []
        for head in chain_heads(node):
            sw = switch_cases(head, node)
            if sw is not None and "solver" in sw[0] and any(isinstance(k, str) and k in SOLVER_CASES for ks, _ in sw[1] for k in ks):
                hits.append(sw)
        return hits

    for sw in has_switch(fn.node):
        sets = [{norm(t) for s in body for n in ast.walk(s) if isinstance(n, ast.Assign) for t in n.targets if isinstance(t, ast.Name)} for _, body in sw[1]]
        if sets:
            out |= set.intersection(*sets)
    ctx = Ctx(pm, fn)
    for st in walk_no_nested(fn.node):
        if isinstance(st, ast.Assign) and len(st.targets) == 1 and isinstance(st.targets[0], ast.Name) and isinstance(st.value, ast.Call):
            for t in ctx.resolve_call(st.value):
                if t.fn is not None and t.fn is not fn and has_switch(t.fn.node):
                    out.add(st.targets[0].id)
    return out


def _forced_keys(ff: FuncFacts, e: ast.expr, call: ast.AST) -> set[str]:
    """keys that win over the user's solver_kwargs in the dict handed to the solver: right operand of `user | {...}`,
    entries after `**user` in a display, item assignments and .update() on the merged dict (not .setdefault)"""
    from .common import inline_locals
    forced: set[str] = set()

    def is_user(x) -> bool:
        return _mentions_solver_kwargs(ff, x) if not isinstance(x, ast.Dict) else any(k is None and _mentions_solver_kwargs(ff, v) for k, v in zip(x.keys, x.values))

    def keys(d) -> set[str]:
        return {const_str(k) for k in d.keys if k is not None and const_str(k)} if isinstance(d, ast.Dict) else set()

    def walk(x):
        if isinstance(x, ast.BinOp) and isinstance(x.op, ast.BitOr):
            walk(x.left)
            walk(x.right)
            if is_user(x.left) and isinstance(x.right, ast.Dict):
                forced.update(keys(x.right))
        elif isinstance(x, ast.Dict):
            seen_user = False
            for k, v in zip(x.keys, x.values):
                if k is None and _mentions_solver_kwargs(ff, v):
                    seen_user = True
                elif seen_user and k is not None and const_str(k):
                    forced.add(const_str(k))

    try:
        walk(inline_locals(ff, e))
    except Exception:
        walk(e)
    if isinstance(e, ast.Name):
        gc = _gkeys(ff, call)
        for st in ff.statements():
            gs = _gkeys(ff, st)
            if not (gs >= gc or gs <= gc):
                continue
            if isinstance(st, ast.Assign):
                for t in st.targets:
                    if isinstance(t, ast.Subscript) and isinstance(t.value, ast.Name) and t.value.id == e.id and const_str(t.slice):
                        forced.add(const_str(t.slice))
            if isinstance(st, ast.Expr) and isinstance(st.value, ast.Call) and isinstance(st.value.func, ast.Attribute) and st.value.func.attr == "update" \
                    and isinstance(st.value.func.value, ast.Name) and st.value.func.value.id == e.id:
                for a in st.value.args:
                    forced.update(keys(a))
                forced.update(k.arg for k in st.value.keywords if k.arg)
    return forced


def _wrappers(chk):
    pm = chk.pm
    dec = pm.own_method("xeofs.linalg.decomposer.Decomposer", "fit")
    svd = pm.own_method("xeofs.linalg._numpy._svd._SVD", "fit_transform")
    facts = {}
    for fn in (dec, svd):
        ff = FuncFacts.of(fn)
        calls = _svd_calls(pm, fn)
        chk.require(len(calls) == 4, f"{fn.qualname}: expected 4 solver branches, found {len(calls)}")
        per = {}
        for call, solver, kw in calls:
            chk.check(_mentions_solver_kwargs(ff, kw), "WIRE.arrive", fn, call,
                      why=f"the {solver} branch does not hand the user's solver_kwargs to the solver",
                      construct=f"{solver}: {norm(kw)}")
            keys = _dict_keys_and_values(ff, kw, call)
            per[solver] = sorted(k.replace('?conditional', '') for k in keys)
            if solver in FORCED_OK:
                forced = _forced_keys(ff, kw, call)
                extra = sorted(forced - set(FORCED_OK[solver]))
                chk.check(not extra, "WIRE.precedence", fn, call, construct=f"{solver}: only {sorted(FORCED_OK[solver])} are imposed over the user's solver_kwargs",
                          why=f"the wrapper's values for {extra} override what the user passes in solver_kwargs (they are merged AFTER the user's dict): "
                              "a documented pass-through option is accepted but silently has no effect; wrapper defaults must be set with setdefault / merged before the user's dict",
                          facts={"forced": sorted(forced)})
            if solver in SEED_KW:
                sk = SEED_KW[solver]
                ps = keys.get(sk, [])
                seeded = any(p.atom.kind == "selfattr" and p.atom.name == "self.random_state" for p in ps)
                cond = (sk + "?conditional") in keys
                chk.check(seeded, "RNG.solver", fn, call,
                          why=(f"randomised solver {solver} receives {sk!r} only under a condition: when the condition fails (e.g. the falsy seed 0) "
                               "the solver runs unseeded and equal random_state no longer gives identical results") if cond else
                              f"randomised solver {solver} is not seeded: keyword {sk!r} must carry self.random_state",
                          construct=f"{solver}: seed keyword {sk}", facts={"keys": sorted(keys)})
            elif solver == EXACT:
                chk.ok("RNG.solver", fn, call, construct=f"{solver}: deterministic", nontrivial=False)
            else:
                raise AnalysisError(f"{fn.qualname}: unknown solver callable {solver} (extend the SEED_KW table after reading its API)")
            # the exact solver runs exactly when the solver policy says so (flag computed by the branch on self.solver)
            from .common import atomic_conditions
            flags = [(norm(t), pol) for t, pol in atomic_conditions(ff, call) if isinstance(t, ast.Name) and t.id in _policy_flags(pm, fn)]
            want = solver == EXACT
            chk.check(bool(flags) and all(pol == want for _, pol in flags), "EXH.solver.branch", fn, call,
                      construct=f"{solver} runs when use_exact is {want}",
                      why=f"{solver} is called under {flags}: solver='full' must use the exact solver and 'randomized' an approximate one; the policy flag is inverted or ignored")
        facts[fn.qualname] = per
        _sign(chk, fn, ff)
    a, b = facts[dec.qualname], facts[svd.qualname]
    chk.check(set(a) == set(b), "SIB.solvers", dec, None, construct="solver callables of both SVD wrappers",
              why=f"the two SVD wrappers use different solver sets: {sorted(a)} vs {sorted(b)}")
    for s in sorted(set(a) & set(b)):
        chk.check(a[s] == b[s], "SIB.kwargs", dec, None, construct=f"keywords handed to {s}",
                  why=f"Decomposer.fit passes {a[s]} but _SVD.fit_transform passes {b[s]} to {s}", facts={"decomposer": a[s], "_svd": b[s]})
    _threshold(chk, dec, svd)
    _resort(chk, dec, svd)


def _resort(chk, dec, svd):
    """svds returns ascending singular values: U, s, VT must all be re-indexed by the same descending argsort of s."""
    pm = chk.pm
    for fn in (dec, svd):
        ff = FuncFacts.of(fn)
        hits = []
        for st in ff.statements():
            if isinstance(st, ast.Assign) and isinstance(st.value, ast.Subscript):
                sl = st.value.slice
                names = [n.id for n in ast.walk(sl) if isinstance(n, ast.Name)]
                for nm in names:
                    defs = ff.rd.reaching(nm, ff.node_of(st))
                    for d in defs:
                        if d.kind == "assign" and isinstance(d.value, (ast.Subscript, ast.Call)) and "argsort" in norm(d.value):
                            hits.append((st, d))
        # which of the three solver results (unpacking positions 0, 1, 2 = U, s, VT) are re-indexed
        targets = set()
        for st, _ in hits:
            base = st.value.value
            for p in ff.paths(base, spine_only=True):
                for o in p.ops:
                    if o.kind == "unpack" and p.atom.kind == "call":
                        targets.add({"0": "U", "1": "s", "2": "VT"}.get(o.name, o.name))
        chk.check({"U", "s", "VT"} <= targets, "SIB.resort", fn, hits[0][0] if hits else fn.node,
                  why=f"after the ascending-order solver only {sorted(targets)} are re-indexed by the argsort; U, s and VT must all be",
                  construct="svds branch: U, s, VT re-indexed by argsort(s)[::-1]")
        for st, d in hits[:1]:
            v = d.value
            desc = isinstance(v, ast.Subscript) and isinstance(v.slice, ast.Slice) and v.slice.step is not None and norm(v.slice.step) == "-1"
            arg_ok = False
            callv = v.value if isinstance(v, ast.Subscript) else v
            if isinstance(callv, ast.Call) and callv.args:
                ps = ff.paths(callv.args[0], spine_only=True)
                arg_ok = any(p.has_op("unpack", "1") for p in ps)
            chk.check(desc and arg_ok, "SIB.resort.key", fn, d.stmt,
                      why="the sort index must be argsort of the singular values, reversed (descending)")


def _sign(chk, fn: FuncInfo, ff: FuncFacts):
    pm = chk.pm
    calls = [c for c in ff.calls() if (dotted(c.func) or "").split(".")[-1] == "get_deterministic_sign_multiplier"]
    chk.require(len(calls) == 1, f"{fn.qualname}: sign multiplier call vanished")
    S = calls[0]
    # source: right singular vectors (third result of the solver)
    ps = ff.paths(S.args[0], spine_only=True)
    from_vt = [p for p in ps if p.has_op("unpack", "2")]
    from_u = [p for p in ps if p.has_op("unpack", "0")]
    chk.check(bool(from_vt) and not from_u, "SIGN.source", fn, S,
              why="the sign multiplier must be computed from the right singular vectors (VT), not from U or s")
    # axis/dimension: the feature axis of that array
    kw = call_kwargs(S)
    dim = kw.get("axis") or kw.get("dim") or (S.args[1] if len(S.args) > 1 else None)
    chk.require(dim is not None, f"{fn.qualname}: sign multiplier called without axis/dim")
    nT = 0
    if from_vt:
        nT = sum(1 for o in from_vt[0].ops if (o.kind == "attr" and o.name == "T") or (o.kind == "method" and o.name == "transpose"))
    if isinstance(dim, ast.Constant) and isinstance(dim.value, int):
        want = 1 if nT % 2 == 0 else 0
        okdim = dim.value in ((want, want - 2) if want == 1 else (0, -2))
        why = f"VT is (mode, feature){' transposed' if nT % 2 else ''}: the feature axis is {want}, not {dim.value}"
    else:
        dps = ff.paths(dim, spine_only=True)
        okdim = any(p.atom.kind == "param" and p.atom.name == "dims" and [o.name for o in p.ops if o.kind == "subscript"] == ["1"] for p in dps)
        why = "the sign must be decided along the feature dimension dims[1]"
    chk.check(okdim, "SIGN.axis", fn, S, why=why)
    # sinks: both U and V carry the multiplier
    sinks = []
    if fn.cls is not None and fn.cls.name == "Decomposer":
        for st in ff.statements():
            if isinstance(st, ast.Assign) and is_self_attr(st.targets[0]) and st.targets[0].attr in ("U_", "V_"):
                sinks.append((st.targets[0].attr, st.value, st))
    else:
        for r in returns_of(fn):
            if isinstance(r.value, ast.Tuple) and len(r.value.elts) == 3:
                sinks.append(("U", r.value.elts[0], r))
                sinks.append(("V", r.value.elts[2], r))
    chk.require(len(sinks) == 2, f"{fn.qualname}: U/V sinks not found")
    for name, e, st in sinks:
        ps = ff.paths(e, spine_only=False)
        carried = any(p.atom.kind == "call" and p.atom.node is S and p.has_op("binop", "Mult") for p in ps)
        chk.check(carried, "SIGN.apply", fn, st, construct=f"{name} carries the sign multiplier",
                  why=f"{name} is not multiplied by the deterministic sign multiplier (U and V must flip together)")


# -- threshold ------------------------------------------------------------------
def _linear(e: ast.expr, sign=1, out=None):
    out = {} if out is None else out
    if isinstance(e, ast.BinOp) and isinstance(e.op, (ast.Add, ast.Sub)):
        _linear(e.left, sign, out)
        _linear(e.right, sign if isinstance(e.op, ast.Add) else -sign, out)
    elif isinstance(e, ast.UnaryOp) and isinstance(e.op, ast.USub):
        _linear(e.operand, -sign, out)
    else:
        k = norm(e)
        out[k] = out.get(k, 0) + sign
    return out


def _threshold_facts(chk, fn: FuncInfo):
    ff = FuncFacts.of(fn)
    from .common import inline_locals
    cand = None
    lin = {}
    for st in ff.statements():
        if not isinstance(st, ast.Assign):
            continue
        v = inline_locals(ff, st.value)
        if any(isinstance(n, ast.Compare) for n in ast.walk(v)) and "sum" in norm(v):
            l = _linear(v)
            if cand is None or len(l) > len(lin):
                cand, lin = st, l
    if cand is None:
        raise AnalysisError(f"{fn.qualname}: threshold count assignment not found (anchor vanished)")
    terms = {"pre": 0, "count": 0, "const": 0, "other": [], "inexact": []}
    cmp_ops = []
    for k, c in lin.items():
        node = ast.parse(k, mode="eval").body
        if isinstance(node, ast.Constant) and isinstance(node.value, int):
            terms["const"] += c * node.value
        elif any(isinstance(n, ast.Compare) for n in ast.walk(node)):
            terms["count"] += c
            # the counted mask is ONE order comparison: nothing is or-ed / and-ed to it, no tolerance enters
            for n in ast.walk(node):
                if isinstance(n, ast.BinOp) and isinstance(n.op, (ast.BitOr, ast.BitAnd, ast.BitXor)):
                    terms["inexact"].append(norm(n)[:80])
                elif isinstance(n, ast.BoolOp) or (isinstance(n, ast.UnaryOp) and isinstance(n.op, ast.Invert)):
                    terms["inexact"].append(norm(n)[:80])
                elif isinstance(n, ast.Call) and (dotted(n.func) or "").split(".")[-1] in (
                        "isclose", "allclose", "round", "around", "rint", "floor", "ceil", "logical_or", "logical_and", "where"):
                    terms["inexact"].append(norm(n)[:80])
            if sum(1 for n in ast.walk(node) if isinstance(n, ast.Compare)) != 1:
                terms["inexact"].append("several comparisons")
            for n in ast.walk(node):
                if isinstance(n, ast.Compare):
                    # orientation: requested fraction (self.n_modes) on the right
                    from .common import cmp_forms
                    forms = cmp_forms(n, True)
                    pick = [f for f in forms if "n_modes" in norm(f[2]) and "n_modes" not in norm(f[1])] or forms[:1]
                    for o, a, b in pick[:1]:
                        cmp_ops.append((o, norm(a), norm(b)))
        elif "n_modes_precompute" in k:
            terms["pre"] += c
        else:
            terms["other"].append(k)
    # N-1 and ddof=1: the compared quantity is s**2 / (n_samples - 1) / total variance
    denom_ok = None
    cmp_nodes = [n for st in ff.statements() if isinstance(st, ast.Assign) for n in ast.walk(st.value) if isinstance(n, ast.Compare) and len(n.ops) == 1
                 and ("n_modes" in norm(n.comparators[0])) != ("n_modes" in norm(n.left))]
    for cn in cmp_nodes:
        cum = cn.left if "n_modes" in norm(cn.comparators[0]) else cn.comparators[0]
        ps = ff.paths(cum, spine_only=False)
        if not any(p.has_op("method", "cumsum") or p.has_op("arg", "np.cumsum") for p in ps):
            continue  # another comparison (solver choice ...), not the cumulative-fraction threshold
        nm1 = any(p.atom.kind == "const" and p.atom.name == "1" and p.has_op("binop", "Sub") and p.has_op("binop", "Div") for p in ps)
        shape0 = any(p.has_op("attr", "shape") and p.has_op("binop", "Sub") for p in ps)
        denom_ok = nm1 and shape0
    ddof = None
    for c in ff.calls():
        if isinstance(c.func, ast.Attribute) and c.func.attr == "var":
            kw = call_kwargs(c)
            d = kw.get("ddof")
            ddof = d.value if isinstance(d, ast.Constant) else None
    return cand, terms, cmp_ops, denom_ok, ddof


def _threshold(chk, dec, svd):
    facts = {}
    for fn in (dec, svd):
        cand, terms, cmp_ops, denom_ok, ddof = _threshold_facts(chk, fn)
        facts[fn.qualname] = (terms["pre"], terms["count"], terms["const"], tuple(o for o, _, _ in cmp_ops), denom_ok, ddof)
        canon = terms["pre"] == 1 and terms["count"] == -1 and terms["const"] == 1 and not terms["other"]
        chk.check(canon, "SIB.threshold.form", fn, cand,
                  why=f"threshold count is not 'n_precomputed - #(cumulative >= f) + 1' (coefficients pre={terms['pre']}, "
                      f"count={terms['count']}, const={terms['const']}, other={terms['other']}): it no longer keeps the "
                      "smallest number of modes reaching the requested fraction")
        ok_cmp = len(cmp_ops) == 1 and cmp_ops[0][0] == "GtE" and "n_modes" in cmp_ops[0][2]
        chk.check(ok_cmp, "SIB.threshold.cmp", fn, cand,
                  why=f"the count must be of cumulative fractions >= the requested fraction (found {cmp_ops})")
        chk.check(not terms["inexact"], "SIB.threshold.exact", fn, cand, construct="the counted mask is the order comparison alone",
                  why=f"the modes counted as reaching the requested fraction are not exactly those with cumulative fraction >= f ({terms['inexact'][:2]}): a "
                      "fraction that lies within a tolerance ABOVE a cumulative value is taken as reached, fewer modes than needed are kept and the "
                      "'cannot be reached' warning is lost")
        chk.check(bool(denom_ok) and ddof == 1, "SIB.threshold.norm", fn, cand,
                  construct="explained variance fraction: s**2/(N-1) against var(ddof=1)",
                  why=f"explained and total variance use different normalisations (N-1 recognised: {denom_ok}, ddof={ddof})")
    a, b = facts[dec.qualname], facts[svd.qualname]
    chk.check(a == b, "SIB.threshold.agree", dec, None, construct="threshold policy of both SVD wrappers",
              why=f"Decomposer.fit and _SVD.fit_transform disagree on the threshold policy: {a} vs {b}")


# ----------------------------------------------------------------------------
def _rng_global(chk):
    pm = chk.pm
    n = 0
    for fn in pm.all_functions():
        ff = None
        for c in walk_no_nested(fn.node):
            if not isinstance(c, ast.Call):
                continue
            ext = _ext_name(pm, fn, c.func)
            if ext is None:
                # method on a generator constructed inline: np.random.default_rng(seed).standard_normal(...)
                continue
            if not ext.startswith(GLOBAL_RNG_PREFIX):
                continue
            n += 1
            last = ext.split(".")[-1]
            if last in GENERATOR_CTORS:
                arg = c.args[0] if c.args else (call_kwargs(c).get("seed"))
                ff = ff or FuncFacts.of(fn)
                seeded = False
                if arg is not None and not (isinstance(arg, ast.Constant) and arg.value is None):
                    for p in ff.paths(arg, spine_only=True):
                        nm = p.atom.name
                        if p.atom.kind in ("param", "selfattr", "name") and ("seed" in nm or "random_state" in nm):
                            seeded = True
                        if p.atom.kind == "selfattr" and nm == "self._params" and p.ops and const_str(getattr(p.ops[0].node, "slice", None)) in ("seed", "random_state"):
                            seeded = True
                chk.check(seeded, "RNG.global", fn, c,
                          why=f"{ext}() is constructed without a seed that flows from the model's seed/random_state")
                # a generator object has state: created at construction time and kept (on the object, or handed to a helper
                # object built in the constructor) it is consumed a little further by every fit, so the second fit of
                # one model no longer reproduces the first although the seed is the same
                if fn.name == "__init__":
                    kept = []
                    for st in walk_no_nested(fn.node):
                        tg = st.targets if isinstance(st, ast.Assign) else []
                        for t in tg:
                            if is_self_attr(t) and any(p.atom.kind == "call" and p.atom.node is c for p in ff.paths(st.value, spine_only=False)):
                                kept.append(st)
                    chk.check(not kept, "RNG.stateful", fn, kept[0] if kept else c, construct=f"{fn.qualname}: no generator object outlives the constructor",
                              why=f"a generator built by {ext}() in the constructor is stored on the model (directly or inside an object the constructor builds): "
                                  "each fit advances it, so refitting the same model with the same random_state gives different results")
            else:
                chk.violation("RNG.global", fn, c,
                              why=f"{ext} draws from a global generator: results do not depend on random_state and differ between runs")
    chk.ok("RNG.global", "xeofs", None, construct=f"<{n} uses of numpy/dask/stdlib random namespaces examined>", nontrivial=False)


def _pins_full(call: ast.Call, ff: FuncFacts) -> bool:
    kw = call_kwargs(call)
    s = kw.get("solver")
    if s is not None and const_str(s) == "full":
        return True
    for k in call.keywords:
        if k.arg is None:
            for p in ff.paths(k.value, spine_only=False):
                if p.atom.kind == "const" and p.atom.name == "'full'" and any(o.kind == "dictval" and o.name == "solver" for o in p.ops):
                    return True
    return False


def _dict_has_key(pm, fn: FuncInfo, ff: FuncFacts, e: ast.expr, key: str) -> bool:
    for p in ff.paths(e, spine_only=False):
        if any((o.kind == "dictval" and o.name == key) or (o.kind == "arg" and o.name == "dict" and o.other == key) for o in p.ops):
            return True
        if p.atom.kind == "selfattr" and fn.cls is not None and not p.ops:
            attr = p.atom.name.split(".", 1)[1]
            for c in pm.classes.values():
                if fn.cls in c.mro or c in fn.cls.mro:
                    for m, st, val in pm.attr_assignments(c, attr):
                        if isinstance(val, ast.Dict) and any(const_str(k) == key for k in val.keys):
                            return True
        if p.atom.kind == "param" and p.atom.name == fn.node.args.kwarg.arg if fn.node.args.kwarg else False:
            return True  # forwarded **kwargs of the enclosing function
    return False


def _seed_in_scope(fn: FuncInfo) -> bool:
    for n in walk_no_nested(fn.node):
        if isinstance(n, ast.Name) and n.id == "random_state":
            return True
        if isinstance(n, ast.Attribute) and n.attr == "random_state":
            return True
        if isinstance(n, ast.Constant) and n.value == "random_state":
            return True
    if fn.cls is not None:
        # the class that defines the function offers random_state to its users
        init = fn.cls.resolve("__init__")
        if init is not None and "random_state" in init.params:
            return True
    return False


def _class_exact_only(pm, cls: ClassInfo) -> bool:
    """every solver-wrapper construction / fractional power inside the class pins solver='full'."""
    found = False
    for m in cls.methods.values():
        ff = FuncFacts.of(m)
        ctx = Ctx(pm, m, cls)
        for c in ff.calls():
            for t in ctx.resolve_call(c):
                if t.fn is not None and "random_state" in t.fn.params or (t.fn is not None and t.fn.has_varkw and t.fn.name == "_fractional_matrix_power"):
                    found = True
                    if not _pins_full(c, ff):
                        return False
    return found


def _rng_ctor(chk):
    pm = chk.pm
    for fn in pm.all_functions():
        if not _seed_in_scope(fn):
            continue
        ff = FuncFacts.of(fn)
        ctx = Ctx(pm, fn)
        for c in ff.calls():
            for t in ctx.resolve_call(c):
                if t.fn is None:
                    continue
                takes = "random_state" in t.fn.params
                fwd = t.fn.has_varkw and t.fn.name == "_fractional_matrix_power"
                if not (takes or fwd):
                    continue
                if isinstance(c.func, ast.Attribute) and c.func.attr == "__init__" and not takes:
                    continue
                b = bind_args(t.fn, c)
                given = "random_state" in b
                if not given:
                    for k in c.keywords:
                        if k.arg is None and _dict_has_key(pm, fn, ff, k.value, "random_state"):
                            given = True
                if given:
                    chk.ok("RNG.ctor", fn, c, facts={"callee": t.fn.qualname})
                    continue
                if _pins_full(c, ff):
                    chk.ok("RNG.ctor", fn, c, why="callee pinned to the exact solver (no randomness)", facts={"callee": t.fn.qualname})
                    continue
                if t.fn.name == "__init__" and t.bound is not None and _class_exact_only(pm, t.bound):
                    chk.ok("RNG.ctor", fn, c, why=f"{t.bound.name} only ever uses the exact solver", facts={"callee": t.fn.qualname})
                    continue
                chk.violation("RNG.ctor", fn, c,
                              why=f"{t.fn.qualname} takes random_state but is called without it although a seed is in scope: "
                                  "equal random_state no longer gives identical results on the randomised path")


# ----------------------------------------------------------------------------
def _exhaustive(chk):
    """every multi-way branch on a solver name (match statement or if / elif chain - one normal form) handles exactly the
    documented names and refuses anything else"""
    from .common import chain_heads, switch_cases
    pm = chk.pm
    for fn in pm.all_functions():
        for head in chain_heads(fn.node):
            sw = switch_cases(head, fn.node)
            if sw is None or "solver" not in sw[0]:
                continue
            subj, cases, default = sw
            lits = set()
            for keys, _ in cases:
                lits |= {k for k in keys if isinstance(k, str) and not k.startswith("type:")}
            if not lits:
                continue
            ok_cases = lits == SOLVER_CASES
            ok_default = default is not None and always_exits(default) and any(isinstance(s, ast.Raise) for s in default)
            chk.check(ok_cases, "EXH.solver.cases", fn, head, construct=f"branch on {subj}: cases {sorted(lits)}",
                      why=f"documented solvers are {sorted(SOLVER_CASES)} but the branch handles {sorted(lits)}")
            chk.check(ok_default, "EXH.solver.default", fn, head, construct=f"branch on {subj}: raising default",
                      why="an unknown solver name is not refused (no raising default branch)")
            for keys, body in cases:
                if "auto" not in keys:
                    continue
                only_assign = all(isinstance(s, (ast.Assign, ast.AnnAssign, ast.Return)) for s in body)
                targets = {norm(t) for s in body if isinstance(s, ast.Assign) for t in s.targets}
                # the decision is either assigned to the flag every case assigns, or returned from a helper every
                # case of which returns / raises
                others = [b2 for k2, b2 in cases if b2 is not body]
                if isinstance(body[-1], ast.Return):
                    decided = all(isinstance(b2[-1], ast.Return) for b2 in others)
                else:
                    common = set.intersection(*[{norm(t) for s in b2 if isinstance(s, ast.Assign) for t in s.targets} for b2 in others]) if others else set()
                    decided = bool(targets & common)
                chk.check(only_assign and decided, "EXH.solver.auto", fn, body[0],
                          construct=f"branch on {subj}: case 'auto'",
                          why="'auto' must only choose between the exact and the randomised path (assign use_exact)")
