"""C11 - rotation re-expresses the retained subspace (structural clauses).

PAIR.scores   every product that applies a rotation matrix to scores goes through
              ``_compute_rot_mat_inv_trans`` (scores get R^-H where loadings got R), in fit and transform
PAIR.helper   the helper inverts and conjugate-transposes whenever power > 1
SORT.key      the sort index is the reversed argsort of the quantity stored as the modes' importance
SORT.cover    ``_sort_by_variance`` re-indexes every entry with a mode dimension except the index itself
SORT.state    ``sorted`` is reset by the fit algorithm, set after sorting, guards the re-sort; sorting
              is only reachable through ``_post_compute``; transform re-sorts iff ``sorted``
SIGN.group    the sign multiplier multiplies every member of its factor group (components and scores)
NORM.pseudo   the rotator's pseudo-norms use the same N-1 as the explained variance
"""

from __future__ import annotations

import ast

from ..pm import AnalysisError, FuncInfo, const_str, dotted, is_self_attr, norm, walk_no_nested
from ..prov import FuncFacts, Path
from ..resolve import Ctx, calls_in
from .common import call_kwargs, container_write, container_writes, denominator_kind, dot_operands, is_dot_call, reads_container

ROTATORS = {
    "xeofs.single.eof_rotator.EOFRotator": dict(
        transform="_transform_algorithm", importance="explained_variance", group=["components", "scores"]),
    "xeofs.cross.cpcca_rotator.CPCCARotator": dict(
        transform="transform", importance="squared_covariance", group=["components1", "components2", "scores1", "scores2"]),
}
SORTERS = {
    "xeofs.single.eof_rotator.EOFRotator": "explained_variance",
    "xeofs.cross.cpcca_rotator.CPCCARotator": "squared_covariance",
}
HELPER = "_compute_rot_mat_inv_trans"


def _is_rot_source(p: Path) -> bool:
    if reads_container(p, "rotation_matrix"):
        return True
    # second result of promax(...)
    for i, o in enumerate(p.ops):
        if o.kind == "unpack" and o.name == "1":
            prev = p.ops[:i]
            if (p.atom.kind == "call" and p.atom.name.endswith("promax") and not prev) or any(x.kind == "arg" and x.name.endswith("promax") for x in prev):
                return True
    return False


def check(chk):
    pm = chk.pm
    for cname, spec in ROTATORS.items():
        cls = pm.cls(cname)
        fit = cls.methods.get("_fit_algorithm")
        tr = cls.methods.get(spec["transform"])
        chk.require(fit is not None and tr is not None, f"{cname}: fit/transform algorithms vanished")
        for fn in (fit, tr):
            _pairing(chk, fn)
        _helper(chk, cls)
        _sign_group(chk, fit, spec["group"])
        _sign_transform(chk, tr)
        _resort_in_transform(chk, tr)
        _pseudo_norm(chk, fit, cname)
    for cname, key in SORTERS.items():
        cls = pm.cls(cname)
        _sort_key(chk, cls, key)
        _rotated_importance(chk, cls, key)
        _sort_cover(chk, cls)
        _sort_state(chk, cls)
    _post_compute_callers(chk)
    _kernel_consistent(chk)
    # the cross-set rotator does to the loadings / scores of one field what it does to those of the other
    from .fields import field_symmetry
    rot = pm.cls("xeofs.cross.cpcca_rotator.CPCCARotator")
    nsym = field_symmetry(chk, "PAIR.fields.symmetric", [m for m in rot.methods.values() if not m.name.startswith("__")])
    chk.require(nsym >= 2, f"PAIR.fields.symmetric: only {nsym} two-field rotator functions compared")
    chk.floor("PAIR.scores", 4)
    chk.floor("PAIR.helper", 2)
    chk.floor("SORT.key", 2)
    chk.floor("SORT.cover", 2)
    chk.floor("SORT.state", 8)
    chk.floor("SIGN.group", 6)
    chk.floor("NORM.pseudo", 1)


def _pairing(chk, fn: FuncInfo):
    from .common import class_closure, closure_paths
    n = 0
    clo = class_closure(chk.pm, fn.cls, fn) if fn.cls is not None else [fn]
    for g in clo:
      for c in FuncFacts.of(g).calls():
        if not is_dot_call(c):
            continue
        for opnd in dot_operands(c):
            aps = FuncFacts.of(g).paths(opnd, spine_only=True) if g is fn else closure_paths(chk.pm, fn.cls, fn, g, opnd, True, 0, clo)
            ps = [p for p in aps if _is_rot_source(p)]
            if not ps:
                continue
            n += 1
            via = all(any(o.kind in ("arg", "via") and o.name.endswith(HELPER) for o in p.ops) for p in ps)
            chk.check(via, "PAIR.scores", g, c,
                      why="scores are multiplied by the rotation matrix itself; they must be rotated with its inverse conjugate transpose "
                          f"(through {HELPER}), otherwise rotated scores no longer reconstruct the data for power > 1")
    if n == 0:
        raise AnalysisError(f"{fn.qualname}: no product with the rotation matrix found (anchor vanished)")


def _helper(chk, cls):
    fn = cls.resolve(HELPER)
    chk.require(fn is not None, f"{cls.name}.{HELPER} vanished")
    ff = FuncFacts.of(fn)
    rets = [n for n in walk_no_nested(fn.node) if isinstance(n, ast.Return)]
    chk.require(len(rets) >= 1, f"{fn.qualname}: no return")
    # the value returned when power > 1: parameter -> inverse -> conj -> transpose, computed under power > 1 only
    from .common import inline_locals

    def power_gt_1(g) -> bool:
        from .common import holds
        t = inline_locals(ff, g.test)
        is_power = lambda e: "power" in norm(e)
        const = lambda v: (lambda e: isinstance(e, ast.Constant) and e.value == v)
        return holds(t, g.polarity, "Gt", is_power, const(1)) or holds(t, g.polarity, "GtE", is_power, const(2))

    inv_ok = conj_ok = guard_ok = plain_ok = False
    for r in rets:
        if r.value is None:
            continue
        for p in ff.paths(r.value, spine_only=True):
            if p.atom.kind != "param":
                continue
            invs = [o for o in p.ops if o.kind == "arg" and (o.name.endswith("linalg.inv") or (o.name.endswith("apply_ufunc") and o.node.args and (dotted(o.node.args[0]) or "").endswith("linalg.inv")))]
            if not invs:
                if not [o for o in p.ops if o.kind in ("arg", "method", "binop")]:
                    plain_ok = True
                continue
            inv_ok = True
            # inverse TRANSPOSE under named dimensions: the inverse is labelled with the input's dimensions in reversed order
            au = invs[0].node
            if (dotted(au.func) or "").endswith("apply_ufunc"):
                kw = {k.arg: k.value for k in au.keywords if k.arg}
                ic, oc = kw.get("input_core_dims"), kw.get("output_core_dims")

                def rev_parity(e):
                    return sum(1 for x in ast.walk(e) if isinstance(x, ast.Subscript) and isinstance(x.slice, ast.Slice) and x.slice.step is not None and norm(x.slice.step) == "-1") if e is not None else 0

                base = lambda e: norm(e).replace("[::-1]", "").replace("(", "").replace(")", "") if e is not None else ""
                rev_ok = ic is not None and oc is not None and base(ic) == base(oc) and (rev_parity(ic) + rev_parity(oc)) % 2 == 1
            else:
                rev_ok = p.has_op("attr", "T") or p.has_op("method", "transpose")
            transposed = locals().get("transposed", False) or rev_ok
            conj_ok = conj_ok or (p.count("method", "conj") + p.count("method", "conjugate")) % 2 == 1 and (p.has_op("method", "transpose") or p.has_op("attr", "T"))
            guard_ok = guard_ok or any(power_gt_1(g) for g in ff.guards(invs[0].node))
    chk.check(locals().get("transposed", False) or not inv_ok, "PAIR.helper.transpose", fn, fn.node, construct=f"{fn.qualname}: the inverse is transposed (output dims reversed)",
              why="the inverse of the rotation matrix is not transposed: with named dimensions the transpose is the reversed order of output_core_dims; "
                  "for an oblique (non-symmetric) rotation the scores are rotated with R^-1 instead of R^-T")
    chk.check(guard_ok and inv_ok and conj_ok and plain_ok, "PAIR.helper", fn, fn.node, construct=f"{fn.qualname}: power > 1 -> inv, conj, transpose",
              why=f"for power > 1 the helper must return the inverse conjugate transpose of the rotation matrix and the matrix itself otherwise (guard {guard_ok}, inverse {inv_ok}, conj-transpose {conj_ok}, identity for power 1 {plain_ok})")
    # the returned value is the (possibly replaced) parameter
    ps = ff.paths(rets[-1].value, spine_only=True)
    chk.check(any(p.atom.kind == "param" for p in ps), "PAIR.helper.returns", fn, rets[-1], why="the helper must return the matrix derived from its argument")


def _sign_group(chk, fit: FuncInfo, group):
    ff = FuncFacts.of(fit)
    sv, snode = container_write(fit, "modes_sign")
    sps = ff.paths(sv, spine_only=True)
    S = [p.atom.node for p in sps if p.atom.kind == "call" and p.atom.name.endswith("get_deterministic_sign_multiplier")]
    chk.require(len(S) >= 1, f"{fit.qualname}: modes_sign is not the deterministic sign multiplier")
    S = S[0]
    for key in group:
        val, node = container_write(fit, key)
        ps = ff.paths(val, spine_only=False)
        carried = any(p.atom.kind == "call" and p.atom.node is S and p.has_op("binop", "Mult") for p in ps)
        chk.check(carried, "SIGN.group", fit, node, construct=f"{key} carries modes_sign",
                  why=f"{key} is stored without the sign multiplier that its partners carry: components and scores no longer flip together")


def _sign_transform(chk, tr: FuncInfo):
    ff = FuncFacts.of(tr)
    sinks = []
    for n in walk_no_nested(tr.node):
        if isinstance(n, ast.Return) and n.value is not None:
            sinks.append((n.value, n))
        if isinstance(n, ast.Call) and isinstance(n.func, ast.Attribute) and n.func.attr == "append" and isinstance(n.func.value, ast.Name) and n.args \
                and any(p.atom.kind == "const" and p.atom.name == "[]" for p in ff.paths(n.func.value, spine_only=True)):
            sinks.append((n.args[0], n))  # appended to a local result list
    seen = 0
    for e, node in sinks:
        ps = ff.paths(e, spine_only=False, follow=True)
        if not any(_is_rot_source(p) for p in ps):
            continue
        seen += 1
        ok = any(reads_container(p, "modes_sign") and p.has_op("binop", "Mult") for p in ps)
        chk.check(ok, "SIGN.group.transform", tr, node, why="transformed scores are not multiplied by the stored modes_sign")
        # ... exactly once on the way to each result (a second multiplication, e.g. folded into the rotation matrix, undoes or
        # scrambles the first)
        worst = 0
        for p in ps:
            k = 0
            for i, o in enumerate(p.ops):
                if o.kind == "binop" and o.name == "Mult" and o.other is not None and any(reads_container(q, "modes_sign") for q in ff.eval_in(o.frame, o.other, spine_only=True)):
                    k += 1
            worst = max(worst, k)
        chk.check(worst <= 1, "SIGN.group.transform.once", tr, node, construct="modes_sign is applied once on every way to a transformed result",
                  why=f"the stored modes_sign multiplies a value {worst} times on one of its ways to the output (e.g. folded into the rotation matrix and applied to the projections again)")
        # modes_sign is stored in the order of the SORTED modes (it is re-indexed together with every other result when
        # the model is sorted): it multiplies the projections after they have been re-sorted, not before (a sign folded
        # into the rotation matrix is applied in rotation order and lands on the wrong modes once the order changes)
        for p in ff.paths(e, spine_only=True, follow=True):
            pos = [i for i, o in enumerate(p.ops) if o.kind == "method" and o.name == "isel"
                   and any(reads_container(q, "idx_modes_sorted") for a in [call_kwargs(o.node).get("mode")] if a is not None for q in ff.eval_in(o.frame, a, spine_only=True))]
            if not pos:
                continue
            after = [o for o in p.ops[pos[-1] + 1:] if o.kind == "binop" and o.name == "Mult" and o.other is not None
                     and any(reads_container(q, "modes_sign") for q in ff.eval_in(o.frame, o.other, spine_only=True))]
            chk.check(bool(after), "SIGN.group.transform.order", tr, p.ops[pos[-1]].node, construct="modes_sign multiplies the projections after the re-sort",
                      why="the stored modes_sign (kept in sorted-mode order) is not applied to the re-sorted projections: applied before the re-sort it flips the wrong modes "
                          "whenever sorting changes the order")
    chk.require(seen >= 1, f"{tr.qualname}: rotated projections not found")


def _resort_in_transform(chk, tr: FuncInfo):
    from .common import class_closure
    n = 0
    # the re-sort may live in a private helper of the class that transform calls
    sites = [(g, c) for g in (class_closure(chk.pm, tr.cls, tr) if tr.cls is not None else [tr]) for c in FuncFacts.of(g).calls()]
    for g, c in sites:
        ff = FuncFacts.of(g)
        if isinstance(c.func, ast.Attribute) and c.func.attr == "isel":
            m = call_kwargs(c).get("mode")
            if m is None:
                continue
            if not any(reads_container(p, "idx_modes_sorted") for p in ff.paths(m, spine_only=True)):
                continue
            n += 1
            gs = ff.guards(c)
            ok = any(is_self_attr(g.test, "sorted") and g.polarity for g in gs)
            chk.check(ok, "SORT.state.transform", g, c, why="transform must re-sort the projections exactly when the model has been sorted (if self.sorted)")
            # same re-indexing as _sort_by_variance: positional isel by the stored index, then the old labels re-attached
            # the re-indexed value is then relabelled (directly chained or via a temporary) with the mode labels of the
            # value that was re-indexed
            relabel = None
            for a in ff.calls():
                if isinstance(a.func, ast.Attribute) and a.func.attr == "assign_coords" and "mode" in call_kwargs(a) \
                        and any(o.node is c for p in ff.paths(a.func.value, spine_only=True) for o in p.ops):
                    relabel = call_kwargs(a)["mode"]
            okr = relabel is not None and isinstance(relabel, ast.Attribute) and relabel.attr == "mode" and (
                norm(relabel.value) == norm(c.func.value)
                or {repr(p) for p in ff.paths(relabel.value, spine_only=True)} == {repr(p) for p in ff.paths(c.func.value, spine_only=True)})
            idx = call_kwargs(c).get("mode")
            okv = isinstance(idx, ast.Attribute) and idx.attr == "values"
            chk.check(okr and okv, "SORT.state.transform.same", g, c,
                      why="transform must re-order its projections exactly as _sort_by_variance re-orders the stored entries: "
                          ".isel(mode=idx_modes_sorted.values).assign_coords(mode=<old mode labels>); anything else applies another permutation")
    chk.check(n >= 1, "SORT.state.transform.exists", tr, tr.node, construct=f"{tr.qualname}: re-sort of projections",
              why="transform never re-sorts its projections: after compute() the mode order of transform differs from scores()")
    # every result (each field of a cross rotator) passes through that re-sort
    tf = FuncFacts.of(tr)
    sinks = []
    for x in walk_no_nested(tr.node):
        if isinstance(x, ast.Call) and isinstance(x.func, ast.Attribute) and x.func.attr == "append" and x.args and isinstance(x.func.value, ast.Name) \
                and any(p.atom.kind == "const" and p.atom.name == "[]" for p in tf.paths(x.func.value, spine_only=True)):
            sinks.append((x.args[0], x))
    if not sinks:
        sinks = [(r.value, r) for r in walk_no_nested(tr.node) if isinstance(r, ast.Return) and r.value is not None]
    for e, node in sinks:
        ps = tf.paths(e, spine_only=True, follow=True)
        if not any(_is_rot_source(p) or p.has_op("arg", "xr.dot") for p in ps):
            continue
        srt = any(o.kind == "method" and o.name == "isel" and any(reads_container(q, "idx_modes_sorted") for q in tf.eval_in(o.frame, call_kwargs(o.node).get("mode"), spine_only=True))
                  for p in ps for o in p.ops if o.kind == "method" and o.name == "isel" and call_kwargs(o.node).get("mode") is not None)
        chk.check(srt, "SORT.state.transform.each", tr, node, construct=f"{tr.qualname}: result {norm(e)[:40]} is re-sorted",
                  why="this result of transform does not pass through the re-sort by idx_modes_sorted: after compute() its modes are in another order than scores()")


def _pseudo_norm(chk, fit: FuncInfo, cname: str, missing_is_violation: bool = True):
    if not cname.endswith("EOFRotator"):
        return
    ff = FuncFacts.of(fit)
    val, node = container_write(fit, "norms")
    found = False
    for b in ast.walk(ff.cfg.fn):
        pass
    ps = ff.paths(val, spine_only=True)
    for p in ps:
        for o in p.ops:
            if o.kind == "binop" and o.name == "Mult":
                kind, src = denominator_kind(ff, o.other, ff.node_of(o.node))
                if kind in ("N", "N-1"):
                    found = True
                    chk.check(kind == "N-1" and "sample_name" in src, "NORM.pseudo", fit, o.node,
                              why=f"pseudo singular values are sqrt(expvar * {kind}) but explained variance is s**2/(N-1): norms and scores are off by a constant",
                              facts={"kind": kind, "N": src})
    if not found:
        # the anchor is there (the value stored as 'norms' still derives from the rotated explained variance, the value stored
        # as 'explained_variance'), but no sample-count factor multiplies it: the norm of a rotated mode is fixed by ITS OWN
        # variance, norm_k**2 = expvar_k * (N - 1); any other normalisation (a share of the retained squared singular values
        # ...) agrees with it only when the rotation conserves the summed variance, i.e. not for an oblique (Promax) rotation
        ev, _ = container_write(fit, "explained_variance")
        ev_atoms = {(q.atom.kind, q.atom.name, id(q.atom.node)) for q in ff.paths(ev, spine_only=True)}
        derives = any((p.atom.kind, p.atom.name, id(p.atom.node)) in ev_atoms for p in ff.paths(val, spine_only=False))
        if not derives:
            raise AnalysisError(f"{fit.qualname}: pseudo-norm factor not found (anchor vanished)")
        if not missing_is_violation:
            # a norm that does not depend on the number of samples at all cannot miscount them (the caller's clause is vacuous)
            chk.ok("NORM.pseudo", fit, node, construct="pseudo singular values do not depend on a sample count", nontrivial=False)
            return
        chk.violation("NORM.pseudo", fit, node, construct="pseudo singular values = sqrt(rotated explained variance * (N - 1))",
                      why="the norms stored for the rotated modes are not the rotated explained variance times (number of samples - 1): they are tied to the explained "
                          "variance only when the rotation conserves the summed variance (Varimax); for Promax the stored scores are scaled by another factor than the "
                          "explained variance says and the reconstruction from rotated scores no longer equals that from the unrotated modes")


def _kernel_consistent(chk):
    """the rotation kernels return (rotated matrix, rotation matrix): the first must be a product with the second AS
    RETURNED - a product formed before the rotation matrix was last updated (a value from inside the iteration) is one
    step behind, and rotated components and rotated scores no longer belong to the same rotation"""
    pm = chk.pm
    mod = pm.modules.get("xeofs.linalg._numpy._rotation")
    chk.require(mod is not None, "xeofs/linalg/_numpy/_rotation.py vanished")
    from .common import returns_of
    n = 0
    for fname in ("_varimax", "_promax"):
        fn = mod.functions.get(fname)
        chk.require(fn is not None, f"_rotation.{fname} vanished")
        ff = FuncFacts.of(fn)
        for r in returns_of(fn):
            if not (isinstance(r.value, ast.Tuple) and len(r.value.elts) >= 2 and isinstance(r.value.elts[1], ast.Name)):
                continue
            rname = r.value.elts[1].id
            rn = ff.cfg.node_for(r)
            rvalue = {repr(q) for q in ff.paths(r.value.elts[1], spine_only=True)}
            prods = []
            for p in ff.paths(r.value.elts[0], spine_only=True):
                mms = [o for o in p.ops if o.kind == "binop" and o.name == "MatMult"]
                # the product that forms the returned matrix: the last one on the way to the return value
                if not mms or mms[-1].node in prods:
                    continue
                oth = mms[-1].other
                same_name = isinstance(oth, ast.Name) and oth.id == rname
                same_value = isinstance(oth, ast.Name) and {repr(q) for q in ff.paths(oth, spine_only=True)} == rvalue
                if same_name or same_value:
                    prods.append(mms[-1].node)
            if not prods:
                continue  # e.g. promax builds its result from varimax's (checked there) and its own power step
            n += 1
            stale = []
            for m in prods:
                mn = ff.cfg.node_for(m)
                # a definition of the rotation matrix that can still execute after the product was formed
                later = [d for ds in ff.rd.defs_at.values() for d in ds if d.var == rname and d.kind in ("assign", "unpack", "aug") and d.node != mn
                         and ff.cfg.path_exists_avoiding(mn, d.node, set()) and ff.cfg.path_exists_avoiding(d.node, rn, set())]
                if later:
                    stale.append((m, later[0]))
            chk.check(not stale, "KERNEL.consistent", fn, stale[0][0] if stale else prods[0], construct=f"{fname}: returned matrix = (de-normalised input) @ returned {rname}",
                      why=(f"the returned rotated matrix is a product with {rname} formed BEFORE {rname} is updated again ({norm(stale[0][1].stmt)[:50]}): it belongs to the previous "
                           "iteration's rotation, while the returned rotation matrix is the final one - rotated components and scores are out of step") if stale else "")
    chk.require(n >= 1, "_rotation: no kernel returns a product with its rotation matrix (anchor vanished)")


def _rotated_importance(chk, cls, key: str):
    """the quantity the rotated modes are ordered by (and that is reported as their variance / covariance) is computed
    from the ROTATED loadings - the first result of the rotation call - not carried over from the unrotated model"""
    fit = cls.methods["_fit_algorithm"]
    ff = FuncFacts.of(fit)
    imp, node = container_write(fit, key)
    ps = ff.paths(imp, spine_only=True, follow=True)
    from_rot = [p for p in ps if p.atom.kind == "call" and p.atom.name.split(".")[-1] in ("promax", "varimax", "_promax", "_varimax") and p.has_op("unpack", "0")]
    squared = any((p.has_op("binop", "Pow") or p.has_op("binop", "Mult")) for p in from_rot)
    chk.check(bool(from_rot) and squared, "NORM.rotated", fit, node, construct=f"{cls.name}: {key} computed from the rotated loadings",
              why=f"{key!r} of the rotated model does not derive from the (squared) rotated loadings returned by the rotation: the rotated modes are ordered "
                  "and labelled with the importance of the UNROTATED modes")


def _sort_key(chk, cls, key: str):
    fit = cls.methods.get("_fit_algorithm")
    chk.require(fit is not None, f"{cls.name}._fit_algorithm vanished")
    ff = FuncFacts.of(fit)
    val, node = container_write(fit, "idx_modes_sorted")
    imp, _ = container_write(fit, key)
    # the index value: <argsort_dask(x, "mode")>[::-1]
    ps = ff.paths(val, spine_only=True)
    arg_calls = {o.node for p in ps for o in p.ops if o.kind == "arg" and o.name.endswith("argsort_dask") and o.other == 0}
    chk.require(len(arg_calls) == 1, f"{fit.qualname}: idx_modes_sorted no longer comes from argsort_dask")
    call = next(iter(arg_calls))
    rev = all(any(o.kind == "subscript" and o.name.replace(" ", "") == "::-1" for o in p.ops) for p in ps if any(o.node is call for o in p.ops))
    chk.check(rev, "SORT.key.descending", fit, node, why="the sort index must be the reversed argsort (descending importance)")
    a = {repr(p) for p in ff.paths(call.args[0], spine_only=True)}
    b = {repr(p) for p in ff.paths(imp, spine_only=True)}
    chk.check(a == b, "SORT.key.quantity", fit, call,
              why=f"modes must be ordered by the quantity stored as {key!r}; the argsort is taken of something else",
              facts={"argsort_of": norm(call.args[0]), "stored": norm(imp)})
    d = call.args[1] if len(call.args) > 1 else call_kwargs(call).get("dim")
    chk.check(const_str(d) == "mode", "SORT.key.dim", fit, call, why="the argsort must run along the mode dimension")


def _sort_cover(chk, cls):
    fn = cls.methods.get("_sort_by_variance")
    chk.require(fn is not None, f"{cls.name}._sort_by_variance vanished")
    ff = FuncFacts.of(fn)
    loops = [n for n in walk_no_nested(fn.node) if isinstance(n, ast.For)]
    chk.require(len(loops) == 1, f"{fn.qualname}: loop over the container vanished")
    loop = loops[0]
    over_all = norm(loop.iter) in ("self.data.keys()", "self.data", "list(self.data.keys())", "list(self.data)")
    # the conditions under which an entry is re-indexed (whatever mixture of if / continue / and / or expresses them)
    from .common import atomic_conditions, cmp_forms
    writes = [st for st in ast.walk(loop) if isinstance(st, ast.Assign) and isinstance(st.targets[0], ast.Subscript) and is_self_attr(st.targets[0].value, "data")]
    chk.require(len(writes) >= 1, f"{fn.qualname}: re-indexing assignment vanished")
    loop_inner = {id(x) for x in ast.walk(loop)}
    excluded = set()
    mode_test = False
    other_tests = []
    for t, pol in atomic_conditions(ff, writes[0]):
        if not any(id(x) in loop_inner for x in ast.walk(t)) and not isinstance(t, ast.Compare):
            continue  # conditions outside the loop (if not self.sorted)
        if is_self_attr(t, "sorted"):
            continue
        forms = cmp_forms(t, pol)
        ne = [b for o, a, b in forms if o == "NotEq" and const_str(b) is not None]
        if ne:
            excluded.add(const_str(ne[0]))
        elif any(o == "In" and const_str(a) == "mode" for o, a, b in forms):
            mode_test = True
        else:
            other_tests.append(("" if pol else "not ") + norm(t))
    ok = over_all and mode_test and excluded == {"idx_modes_sorted"} and not other_tests
    chk.check(ok, "SORT.cover", fn, writes[0],
              why=f"every entry with a 'mode' dimension except the index itself must be re-ordered (excluded: {sorted(excluded)}, "
                  f"extra conditions: {other_tests}); an entry left out keeps the unsorted mode order")
    # the re-indexing uses the stored index and relabels with the old mode coordinate
    isel = [c for c in ff.calls() if isinstance(c.func, ast.Attribute) and c.func.attr == "isel"]
    ok2 = bool(isel) and all(
        any(reads_container(p, "idx_modes_sorted") for p in ff.paths(call_kwargs(c).get("mode"), spine_only=True)) if call_kwargs(c).get("mode") is not None else False
        for c in isel)
    chk.check(ok2, "SORT.cover.index", fn, isel[0] if isel else fn.node, why="entries must be re-indexed with the stored idx_modes_sorted")


def _sort_state(chk, cls):
    fit = cls.methods["_fit_algorithm"]
    ff = FuncFacts.of(fit)
    resets = [st for st in ff.statements() if isinstance(st, ast.Assign) and is_self_attr(st.targets[0], "sorted")
              and isinstance(st.value, ast.Constant) and st.value.value is False]
    if not resets:
        chk.violation("SORT.state.reset", fit, fit.node, construct=f"{cls.name}._fit_algorithm: self.sorted = False",
                      why="the fit algorithm does not reset 'sorted': after a second fit the new modes are never sorted")
    else:
        rn = ff.cfg.node_for(resets[0])
        writes = [n for _, _, _, n in container_writes(fit)]
        ok = all(ff.cfg.dominates(rn, ff.cfg.node_for(w)) for w in writes)
        chk.check(ok, "SORT.state.reset", fit, resets[0], why="'sorted' must be reset before any result of the new fit is stored")
    srt = cls.methods["_sort_by_variance"]
    sf = FuncFacts.of(srt)
    sets = [st for st in sf.statements() if isinstance(st, ast.Assign) and is_self_attr(st.targets[0], "sorted")
            and isinstance(st.value, ast.Constant) and st.value.value is True]
    loops = [n for n in walk_no_nested(srt.node) if isinstance(n, ast.For)]
    ok_set = bool(sets) and bool(loops) and not any(x is sets[0] for x in ast.walk(loops[0]))
    chk.check(ok_set, "SORT.state.set", srt, sets[0] if sets else srt.node, construct="self.sorted = True after the loop",
              why="'sorted' must be set once the entries have been re-ordered")
    if loops:
        gs = sf.guards(loops[0])
        okg = any(isinstance(g.test, ast.UnaryOp) and isinstance(g.test.op, ast.Not) and is_self_attr(g.test.operand, "sorted") and g.polarity for g in gs) or any(
            is_self_attr(g.test, "sorted") and not g.polarity for g in gs)
        chk.check(okg, "SORT.state.idempotent", srt, loops[0], why="re-ordering must be skipped when the model is already sorted (it is not idempotent)")
    pc = cls.methods.get("_post_compute")
    okpc = pc is not None and any(is_self_attr(c.func, "_sort_by_variance") for c in calls_in(pc))
    chk.check(okpc, "SORT.state.post_compute", pc or cls.qualname, None, construct=f"{cls.name}._post_compute -> _sort_by_variance",
              why="modes are never sorted: _post_compute does not call _sort_by_variance")


def _post_compute_callers(chk):
    """value-based sorting needs computed arrays: _sort_by_variance only from _post_compute; _post_compute only at the
    end of compute() or behind the compute flag."""
    pm = chk.pm
    for fn in pm.all_functions():
        for c in calls_in(fn):
            f = c.func
            if isinstance(f, ast.Attribute) and f.attr == "_sort_by_variance":
                chk.check(fn.name == "_post_compute", "SORT.state.callers", fn, c,
                          why="sorting reads array values; it may only run from _post_compute (after the results are computed)")
            if isinstance(f, ast.Attribute) and f.attr == "_post_compute" and is_self_attr(f):
                if fn.name == "compute":
                    chk.ok("SORT.state.callers", fn, c)
                    continue
                ff = FuncFacts.of(fn)
                gs = ff.guards(c)
                ok = any("compute" in norm(g.test) and g.polarity for g in gs)
                chk.check(ok, "SORT.state.callers", fn, c, why="_post_compute (value-based sorting) must only run when compute is requested")
