"""C10 - named methods coincide with the general method at their parameters.

SPECIAL.alpha      the nine named classes pin the alpha pair fixed by the property,
                   do not accept ``alpha`` and drop it from ``_params``
SPECIAL.alpha_wire alpha[0] reaches the first field's whitener, alpha[1] the second's
SPECIAL.mro        a named class resolves every method of its general class to the very
                   same function (only ``__init__`` differs); MCA rotators vs CPCCA rotators
SPECIAL.identity   Whitener/PCA maps return their argument untouched on the identity branch
SPECIAL.all_modes  PCA n_modes='all' resolves to the rank
SPECIAL.embed      the delay-embedding sample cut keeps all samples when nothing is cut
                   (interval analysis of the slice bound)
"""

from __future__ import annotations

import ast

from ..pm import AnalysisError, ClassInfo, const_str, dotted, is_self_attr, norm, walk_no_nested
from ..prov import FuncFacts
from ..wire import InitFlow
from .common import returns_of

# fixed by the property statement: "MCA, CCA and RDA give the same results as CPCCA with
# alpha = 1, 0 and (0, 1)"
ALPHA = {"MCA": (1.0, 1.0), "CCA": (0.0, 0.0), "RDA": (0.0, 1.0)}
GENERAL = ("HilbertCPCCA", "ComplexCPCCA", "CPCCA")
IDENTITY_FLAGS = {
    # class -> (flag attribute, value of the flag on the identity branch)
    "Whitener": ("is_identity", True),
    "PCA": ("use_pca", False),
}
MAPS = ("transform", "inverse_transform_data", "transform_components", "inverse_transform_components")


def _cross_cls(pm, name):
    return pm.cls(f"xeofs.cross.{_modname(name)}.{name}")


def _modname(name: str) -> str:
    for k in ("MCA", "CCA", "RDA"):
        if name.endswith(k) and not name.endswith("CPCCA"):
            return k.lower()
    return "cpcca"


def check(chk):
    # ExtendedEOF(embedding=1) is EOF: the inner EOF must not apply standardisation / latitude weights a second time
    # (shared with C01's wiring rule)
    from . import c01 as _c01
    from .c01 import _Relabel as _RL
    _c01._extended(_RL(chk, "WIRE.extended", "SPECIAL.embed.inner"))
    # the coincidences "SparsePCA without penalty = EOF", "MCA(X, X) = EOF", "ExtendedEOF(embedding=1) = EOF" all compare
    # against EOF's explained variance, which is the second moment s**2 / (N - 1) of the decomposed matrix whatever the
    # centring option (SparsePCA stores D**2 / (m - 1)); shared with C01's normalisation rule
    _c01._norm(_RL(chk, "NORM.", "SPECIAL.eof_norm."))
    pm = chk.pm
    _alpha(chk)
    _forward(chk)
    _mro(chk)
    _identity(chk)
    _all_modes(chk)
    _embed(chk)
    chk.floor("SPECIAL.alpha", 9)
    chk.floor("SPECIAL.mro", 12)
    chk.floor("SPECIAL.identity", 8)


def _alpha(chk):
    pm = chk.pm
    for fam, pair in ALPHA.items():
        for flav in ("", "Complex", "Hilbert"):
            name = flav + fam
            cls = _cross_cls(pm, name)
            init = cls.methods.get("__init__")
            chk.require(init is not None, f"{name}.__init__ vanished")
            fl = InitFlow(pm, cls)
            cp = pm.cls("xeofs.cross.cpcca.CPCCA")
            fr = fl.frame_of(cp.methods["__init__"])
            chk.require(fr is not None, f"{name}: constructor chain does not reach CPCCA.__init__")
            b = fr.bindings.get("alpha")
            facts = {"expected": list(pair)}
            ok = False
            why = ""
            if b is None or b[0] != "arg":
                why = "alpha is not passed explicitly to the general constructor"
            else:
                roots = fl.trace(b[2], b[1])
                vals = {}
                bad = False
                for r in roots:
                    idx = [o.name for o in r.ops if o.kind == "elt"]
                    if r.kind != "const" or len(idx) != 1:
                        bad = True
                        continue
                    try:
                        vals[int(idx[0])] = float(eval(r.name, {}))
                    except Exception:
                        bad = True
                facts["found"] = [vals.get(0), vals.get(1)]
                if bad or set(vals) != {0, 1}:
                    why = f"alpha is not a literal pair of numbers ({[repr(r) for r in roots]})"
                elif (vals[0], vals[1]) != pair:
                    why = f"{name} pins alpha={vals[0], vals[1]} but the property fixes {pair}"
                else:
                    ok = True
            chk.check(ok, "SPECIAL.alpha.pin", init, b[1] if b and b[0] == "arg" else init.node, why=why, facts=facts,
                      construct=f"{name}: alpha={norm(b[1]) if b and b[0]=='arg' else '?'}")
            chk.check("alpha" not in init.params, "SPECIAL.alpha.param", init, None,
                      why=f"{name} accepts an alpha argument although its alpha is fixed", construct=f"{name}.__init__ parameters")
            keys = fl.params_dict_items()
            chk.check("alpha" not in keys, "SPECIAL.alpha.params", init, None,
                      why=f"{name} keeps 'alpha' in _params: cls(**params) would raise on load",
                      construct=f"{name}._params keys", facts={"keys": sorted(keys)})
    # alpha[i] -> whitener i
    base = pm.cls("BaseModelCrossSet")
    fl = InitFlow(pm, pm.cls("xeofs.cross.cpcca.CPCCA"))
    for i, attr in enumerate(("whitener1", "whitener2")):
        srcs = fl.attr_sources(attr)
        chk.require(len(srcs) >= 1, f"BaseModelCrossSet.{attr} assignment vanished")
        for fr, val in srcs:
            chk.require(isinstance(val, ast.Call), f"{attr} is not built by a constructor call")
            kw = {k.arg: k.value for k in val.keywords}
            a = kw.get("alpha") or (val.args[0] if val.args else None)
            chk.require(a is not None, f"{attr}: alpha argument vanished")
            roots = fl.trace(fr, a)
            user = [r for r in roots if r.kind == "user" and r.name == "alpha"]
            idx = {s for r in user for s in r.subscripts()}
            chk.check(bool(user) and idx == {str(i)}, "SPECIAL.alpha_wire", fr.fn, val,
                      why=f"{attr} must receive alpha[{i}] (got subscripts {sorted(idx)})",
                      facts={"roots": [repr(r) for r in roots][:6]})


def _forward(chk):
    """a named class hands every option it shares with its general class on to the general constructor"""
    pm = chk.pm
    for fam in ALPHA:
        for flav in ("", "Complex", "Hilbert"):
            cls = _cross_cls(pm, flav + fam)
            fl = InitFlow(pm, cls)
            own = fl.frames[0]
            gen = next((f for f in fl.frames[1:] if f.fn.cls is not None and f.fn.cls.name in GENERAL), None)
            chk.require(gen is not None, f"{cls.name}: general constructor not reached")
            shared = [p for p in own.fn.params if p != "self" and p in gen.fn.params]
            lost = []
            for p in shared:
                b = gen.bindings.get(p)
                if b is None or b[0] != "arg":
                    lost.append(p)
                    continue
                roots = fl.trace(b[2], b[1])
                if not any(r.kind == "user" and r.name == p for r in roots):
                    lost.append(p)
            chk.check(not lost, "SPECIAL.forward", own.fn, gen.call, construct=f"{cls.name} forwards {len(shared)} shared options to {gen.fn.cls.name}",
                      why=f"{cls.name} accepts {lost} but does not pass {'it' if len(lost) == 1 else 'them'} on to {gen.fn.cls.name}: the option silently "
                          f"falls back to the default, so {cls.name}(...) no longer equals the general method at its alpha")


def _mro(chk):
    pm = chk.pm
    named = []
    for fam in ALPHA:
        for flav in ("", "Complex", "Hilbert"):
            named.append(_cross_cls(pm, flav + fam))
    rot = [pm.cls("MCARotator"), pm.cls("ComplexMCARotator"), pm.cls("HilbertMCARotator")]
    gen_rot = {"MCARotator": "CPCCARotator", "ComplexMCARotator": "ComplexCPCCARotator", "HilbertMCARotator": "HilbertCPCCARotator"}
    for cls in named + rot:
        if cls.name in gen_rot:
            g = pm.cls(gen_rot[cls.name])
        else:
            g = next((c for c in cls.mro if c.name in GENERAL), None)
        chk.require(g is not None and g in cls.mro, f"{cls.name}: general class not in its MRO")
        names = set()
        for c in g.mro:
            names |= set(c.methods)
        names.discard("__init__")
        diff = []
        for m in sorted(names):
            a, b = cls.resolve(m), g.resolve(m)
            if a is not b and a != b:
                diff.append(f"{m}: {a.qualname if a else None} != {b.qualname if b else None}")
        chk.check(not diff, "SPECIAL.mro", cls.qualname, None, construct=f"{cls.name} vs {g.name}",
                  why="named class resolves core methods differently from its general class: " + "; ".join(diff[:4]),
                  facts={"methods_compared": len(names)})


def _identity(chk):
    pm = chk.pm
    for cname, (flag, ident_val) in IDENTITY_FLAGS.items():
        cls = pm.cls(f"xeofs.preprocessing.{'whitener' if cname == 'Whitener' else 'pca'}.{cname}")
        for m in MAPS:
            fn = cls.methods.get(m)
            chk.require(fn is not None, f"{cname}.{m} vanished")
            ff = FuncFacts.of(fn)
            data_param = [p for p in fn.params if p != "self"][0]
            ident_returns = []
            other_unguarded = []
            for r in returns_of(fn):
                from .common import effective_guards
                flagged = [(t, pol) for t, pol, _ in effective_guards(ff, r) if is_self_attr(t, flag)]
                ps = ff.paths(r.value, spine_only=True) if r.value is not None else []
                untouched = bool(ps) and all(p.atom.kind == "param" and p.atom.name == data_param and not p.ops for p in ps)
                on_ident = any(pol == ident_val for _, pol in flagged)
                on_other = any(pol != ident_val for _, pol in flagged)
                if on_ident:
                    ident_returns.append((r, untouched))
                elif not on_other:
                    other_unguarded.append(r)
            ok = bool(ident_returns) and all(u for _, u in ident_returns) and not other_unguarded
            why = ""
            if not ident_returns:
                why = f"no return guarded by self.{flag}=={ident_val} (identity branch missing)"
            elif not all(u for _, u in ident_returns):
                why = "the identity branch does not return its argument untouched"
            elif other_unguarded:
                why = f"a return is not controlled by self.{flag}"
            chk.check(ok, "SPECIAL.identity", fn, fn.node, why=why, construct=f"{cname}.{m}: identity branch on self.{flag}")


def _all_modes(chk):
    pm = chk.pm
    fn = pm.own_method("xeofs.preprocessing.pca.PCA", "_get_n_modes")
    ff = FuncFacts.of(fn)
    ok = False
    from .common import effective_guards

    def is_all(t, pol) -> bool:
        # n_modes == "all" holds: `== "all"` true, or `!= "all"` false (early exit), either operand order
        if not (isinstance(t, ast.Compare) and len(t.ops) == 1):
            return False
        sides = [t.left, t.comparators[0]]
        if not any(const_str(x) == "all" for x in sides):
            return False
        return (isinstance(t.ops[0], ast.Eq) and pol) or (isinstance(t.ops[0], ast.NotEq) and not pol)

    for r in returns_of(fn):
        if any(is_all(t, pol) for t, pol, _ in effective_guards(ff, r)):
            ps = ff.paths(r.value, spine_only=True)
            ok = bool(ps) and all(
                p.atom.kind == "param" and [(o.kind, o.name) for o in p.ops] == [("attr", "shape"), ("arg", "min")]
                for p in ps if p.atom.kind != "call"
            ) and any(p.atom.kind == "param" for p in ps)
            chk.check(ok, "SPECIAL.all_modes", fn, r, why="n_modes='all' must resolve to min(X.shape), the rank of the data")
            return
    # the value may be bound under the guard and returned at the join point (`if ... != "all": raise; v = min(...); return v`)
    rets = {norm(r.value) for r in returns_of(fn) if r.value is not None}
    for st in ff.statements():
        if isinstance(st, ast.Assign) and len(st.targets) == 1 and norm(st.targets[0]) in rets and any(is_all(t, pol) for t, pol, _ in effective_guards(ff, st)):
            ps = ff.paths(st.value, spine_only=True)
            ok = bool(ps) and all(
                p.atom.kind == "param" and [(o.kind, o.name) for o in p.ops] == [("attr", "shape"), ("arg", "min")]
                for p in ps if p.atom.kind != "call"
            ) and any(p.atom.kind == "param" for p in ps)
            chk.check(ok, "SPECIAL.all_modes", fn, st, why="n_modes='all' must resolve to min(X.shape), the rank of the data")
            return
    raise AnalysisError("PCA._get_n_modes: branch for n_modes == 'all' not found (anchor vanished)")


# -- tiny interval domain -------------------------------------------------------
INF = float("inf")


def _interval(ff: FuncFacts, e: ast.expr, at: int, depth=0) -> tuple[float, float]:
    if depth > 10:
        return (-INF, INF)
    if isinstance(e, ast.Constant) and isinstance(e.value, (int, float)) and not isinstance(e.value, bool):
        return (e.value, e.value)
    if isinstance(e, ast.Name):
        defs = ff.rd.reaching(e.id, at)
        if len(defs) == 1 and defs[0].kind == "assign" and not defs[0].index:
            return _interval(ff, defs[0].value, defs[0].node, depth + 1)
        return (-INF, INF)
    if isinstance(e, ast.Subscript) and is_self_attr(e.value, "_params"):
        k = const_str(e.slice)
        # documented domains: embedding >= 1 copies, tau >= 0 lag (tables of the model's docstring)
        if k == "embedding":
            return (1, INF)
        if k == "tau":
            return (0, INF)
        return (-INF, INF)
    if isinstance(e, ast.Attribute) and e.attr in ("size",):
        return (1, INF)
    if isinstance(e, ast.UnaryOp) and isinstance(e.op, ast.USub):
        lo, hi = _interval(ff, e.operand, at, depth + 1)
        return (-hi, -lo)
    if isinstance(e, ast.BinOp):
        a = _interval(ff, e.left, at, depth + 1)
        b = _interval(ff, e.right, at, depth + 1)
        if isinstance(e.op, ast.Add):
            return (a[0] + b[0], a[1] + b[1])
        if isinstance(e.op, ast.Sub):
            return (a[0] - b[1], a[1] - b[0])
        if isinstance(e.op, ast.Mult):
            def mul(x, y):
                if x == 0 or y == 0:
                    return 0
                return x * y
            c = [mul(x, y) for x in a for y in b]
            return (min(c), max(c))
    return (-INF, INF)


def _resolve_single(ff, e, at):
    """follow single-definition locals"""
    seen = 0
    while isinstance(e, ast.Name) and seen < 10:
        defs = ff.rd.reaching(e.id, at)
        if len(defs) == 1 and defs[0].kind == "assign" and not defs[0].index:
            e, at = defs[0].value, defs[0].node
            seen += 1
        else:
            break
    return e, at


def _embed(chk, keep_rule="SPECIAL.embed.keep", window_rule=None, base_rule="SPECIAL.embed"):
    pm = chk.pm
    fn = pm.own_method("ExtendedEOF", "_fit_algorithm")
    ff = FuncFacts.of(fn)
    found = 0
    for call in ff.calls():
        if not (isinstance(call.func, ast.Attribute) and call.func.attr == "isel"):
            continue
        slices = []
        for k in call.keywords:
            slices.append(k.value)
        for a in call.args:
            if isinstance(a, ast.Dict):
                slices += list(a.values)
        for s in slices:
            at = ff.node_of(call)
            s, at2 = _resolve_single(ff, s, at)
            if not (isinstance(s, ast.Call) and isinstance(s.func, ast.Name) and s.func.id == "slice"):
                continue
            args = s.args
            stop = args[1] if len(args) >= 2 else (args[0] if len(args) == 1 else None)
            if stop is None or (isinstance(stop, ast.Constant) and stop.value is None):
                continue
            found += 1
            st, at3 = _resolve_single(ff, stop, at2)
            bad = False
            why = ""
            if isinstance(st, ast.UnaryOp) and isinstance(st.op, ast.USub):
                lo, hi = _interval(ff, st.operand, at3)
                if lo <= 0 <= hi:
                    bad = True
                    why = (f"slice stop is -({norm(st.operand)}) whose range [{lo}, {hi}] contains 0: slice(None, -0) "
                           "selects nothing, so a single embedding (or tau=0) fits an empty array instead of reproducing EOF")
            elif isinstance(st, ast.Constant) and st.value == 0:
                bad = True
                why = "slice stop is the constant 0"
            if base_rule:
                chk.check(not bad, base_rule, fn, call, why=why, facts={"stop": norm(stop)})
            # the number of samples kept, as a polynomial in the sample count N, the embedding e and the delay t:
            # with a single embedding nothing is cut whatever the delay (ExtendedEOF(embedding=1) == EOF), and in
            # general exactly the (e - 1) * t trailing samples without a complete delay window are cut
            from .common import poly_eval, poly_str, poly_subst

            def sym(x):
                t = norm(x)
                ps = ff.paths(x, spine_only=True) if isinstance(x, (ast.Subscript, ast.Attribute, ast.Call)) else []
                if isinstance(x, ast.Subscript) and is_self_attr(x.value, "_params") and const_str(x.slice) in ("embedding", "tau"):
                    return {"embedding": "e", "tau": "t"}[const_str(x.slice)]
                if is_self_attr(x) and x.attr in ("embedding", "tau"):
                    return {"embedding": "e", "tau": "t"}[x.attr]
                if (t.endswith(".size") or t.startswith("len(") or ".sizes[" in t or ".shape[" in t) and any(p.atom.kind == "param" or p.atom.name.startswith("self.pca") for p in ps):
                    return "N"
                return None

            if not (isinstance(st, ast.UnaryOp) and isinstance(st.op, ast.USub)):
                P = poly_eval(ff, st, at3, sym)
                if P is not None and ("N",) in P:
                    one = poly_subst(P, "e", 1)
                    if keep_rule:
                      chk.check(one == {("N",): 1}, keep_rule, fn, call, construct="samples kept with a single embedding == all samples",
                              why=f"with embedding = 1 the sample cut keeps {poly_str(one)} samples (N = sample count, t = tau) instead of N: "
                                  "ExtendedEOF with a single embedding no longer equals EOF for every delay")
                    want = {("N",): 1, ("e", "t"): -1, ("t",): 1}
                    if window_rule:
                      chk.check(P == want, window_rule, fn, call, construct="samples kept == N - (embedding - 1) * tau",
                              why=f"the sample cut keeps {poly_str(P)} samples instead of N - (e - 1)*t: rows without a complete delay window are kept "
                                  "(shifted-in NaN) or complete windows are dropped")
    if not found:
        raise AnalysisError("ExtendedEOF._fit_algorithm: sample cut (isel with a slice stop) not found (anchor vanished)")
