"""Helpers shared by the rule modules."""

from __future__ import annotations

import ast
from typing import Iterator

from ..pm import (
    PM,
    AnalysisError,
    ClassInfo,
    FuncInfo,
    const_str,
    dotted,
    is_self_attr,
    norm,
    walk_no_nested,
)
from ..prov import FuncFacts, Path, Op
from ..resolve import Ctx, Target, calls_in, reachable


def docstring_nodes(tree: ast.AST) -> set[int]:
    out: set[int] = set()
    for node in ast.walk(tree):
        if isinstance(node, (ast.FunctionDef, ast.ClassDef, ast.AsyncFunctionDef, ast.Module)):
            b = node.body
            if b and isinstance(b[0], ast.Expr) and isinstance(b[0].value, ast.Constant) and isinstance(b[0].value.value, str):
                out.add(id(b[0].value))
    return out


def parent_map(root: ast.AST) -> dict[int, ast.AST]:
    p: dict[int, ast.AST] = {}
    for n in ast.walk(root):
        for ch in ast.iter_child_nodes(n):
            p[id(ch)] = n
    return p


def call_kwargs(call: ast.Call) -> dict[str, ast.expr]:
    return {k.arg: k.value for k in call.keywords if k.arg}


def has_star_kwargs(call: ast.Call) -> bool:
    return any(k.arg is None for k in call.keywords)


def bind_args(fn: FuncInfo, call: ast.Call, skip_self: bool = True) -> dict[str, ast.expr]:
    """Map parameter names of ``fn`` to argument expressions of ``call``
    (positional + keyword; ``**kw`` ignored)."""
    params = fn.positional_params
    if skip_self and params and params[0] in ("self", "cls") and not fn.is_static:
        params = params[1:]
    out: dict[str, ast.expr] = {}
    pos = list(call.args)
    # Class.m(self, ...) style: drop explicit self
    if pos and isinstance(pos[0], ast.Name) and pos[0].id == "self" and isinstance(call.func, ast.Attribute):
        recv = call.func.value
        if not (isinstance(recv, ast.Name) and recv.id == "self") and not isinstance(recv, ast.Call):
            # explicit-self call through the class
            if not is_self_attr(recv):
                pos = pos[1:]
    for p, a in zip(params, pos):
        if isinstance(a, ast.Starred):
            break
        out[p] = a
    for k in call.keywords:
        if k.arg:
            out[k.arg] = k.value
    return out


def container_writes(fn: FuncInfo) -> list[tuple[str, str, ast.expr, ast.AST]]:
    """(receiver text, key, value expr, node) for ``<recv>.add(data, "key")`` /
    ``<recv>.add(name="key", data=...)`` calls and ``<recv>["key"] = value`` statements."""
    out = []
    for n in walk_no_nested(fn.node):
        if isinstance(n, ast.Call) and isinstance(n.func, ast.Attribute) and n.func.attr == "add":
            recv = dotted(n.func.value)
            if recv is None:
                continue
            kw = call_kwargs(n)
            data = kw.get("data")
            name = kw.get("name")
            pos = list(n.args)
            if data is None and pos:
                data = pos[0]
            if name is None and len(pos) >= 2:
                name = pos[1]
            key = const_str(name)
            if key is not None and data is not None:
                out.append((recv, key, data, n))
        elif isinstance(n, ast.Assign):
            for t in n.targets:
                if isinstance(t, ast.Subscript):
                    recv = dotted(t.value)
                    key = const_str(t.slice)
                    if recv is not None and key is not None:
                        out.append((recv, key, n.value, n))
    return out


def container_write(fn: FuncInfo, key: str, recv: str = "self.data") -> tuple[ast.expr, ast.AST]:
    hits = [(v, n) for r, k, v, n in container_writes(fn) if k == key and r == recv]
    if not hits:
        raise AnalysisError(f"{fn.qualname}: no write of {recv}[{key!r}] found (anchor vanished)")
    return hits[-1]


def reads_container(p: Path, key: str, recvs=("self.data",)) -> bool:
    ck = p.container_key()
    return ck is not None and ck[1] == key and ck[0] in recvs


def find_calls(fn: FuncInfo, pred) -> list[ast.Call]:
    return [c for c in walk_no_nested(fn.node) if isinstance(c, ast.Call) and pred(c)]


def method_calls(fn: FuncInfo, name: str) -> list[ast.Call]:
    return find_calls(fn, lambda c: isinstance(c.func, ast.Attribute) and c.func.attr == name)


def func_name(call: ast.Call) -> str:
    return dotted(call.func) or norm(call.func)


def is_dot_call(call: ast.Call) -> bool:
    """xr.dot(a, b, dims=...) or a.dot(b, dims=...)"""
    return isinstance(call.func, ast.Attribute) and call.func.attr == "dot"


def dot_operands(call: ast.Call) -> list[ast.expr]:
    f = call.func
    ops = list(call.args)
    if isinstance(f, ast.Attribute) and dotted(f.value) not in ("xr", "xarray", "np", "numpy", "da"):
        ops = [f.value] + ops
    return ops


def dot_dims(call: ast.Call) -> ast.expr | None:
    kw = call_kwargs(call)
    return kw.get("dims") or kw.get("dim")


def returns_of(fn: FuncInfo) -> list[ast.Return]:
    return [n for n in walk_no_nested(fn.node) if isinstance(n, ast.Return)]


def conj_parity(p: Path) -> int:
    """number of conjugations on the path mod 2 (.conj(), .conjugate(), np.conj(x), .H)"""
    n = 0
    for o in p.ops:
        if o.kind == "method" and o.name in ("conj", "conjugate"):
            n += 1
        elif o.kind == "arg" and o.name in ("np.conj", "np.conjugate", "numpy.conj", "conjugate_transpose"):
            n += 1
        elif o.kind == "attr" and o.name == "H":
            n += 1
    return n % 2


def all_classes_with_method(pm: PM, meth: str) -> list[ClassInfo]:
    return [c for c in pm.classes.values() if meth in c.methods]


def resolve_single(ff: FuncFacts, e: ast.expr, at: int) -> tuple[ast.expr, int]:
    """follow locals that have exactly one reaching plain assignment"""
    seen = 0
    while isinstance(e, ast.Name) and seen < 12:
        defs = ff.rd.reaching(e.id, at)
        if len(defs) == 1 and defs[0].kind == "assign" and not defs[0].index:
            e, at = defs[0].value, defs[0].node
            seen += 1
        else:
            break
    return e, at


def _size_source(ff: FuncFacts, e: ast.expr, at: int) -> str | None:
    """text describing what a sample-count expression measures, or None if it is not a size"""
    e, at = resolve_single(ff, e, at)
    t = norm(e)
    if isinstance(e, ast.Attribute) and e.attr == "size":
        return t
    if isinstance(e, ast.Subscript) and isinstance(e.value, ast.Attribute) and e.value.attr == "shape":
        return t
    if isinstance(e, ast.Call) and isinstance(e.func, ast.Name) and e.func.id == "len":
        return t
    if isinstance(e, ast.Name):
        # tuple unpacking n, p = X.shape
        defs = ff.rd.reaching(e.id, at)
        if len(defs) == 1 and defs[0].index and isinstance(defs[0].value, ast.Attribute) and defs[0].value.attr == "shape":
            return f"{norm(defs[0].value)}[{defs[0].index[0]}]"
    return None


def denominator_kind(ff: FuncFacts, e: ast.expr, at: int) -> tuple[str, str]:
    """classify a normalising denominator: ('N-1' | 'N' | 'other', description of N)"""
    e, at = resolve_single(ff, e, at)
    if isinstance(e, ast.BinOp) and isinstance(e.op, ast.Sub) and isinstance(e.right, ast.Constant) and e.right.value == 1:
        src = _size_source(ff, e.left, at)
        if src is not None:
            return "N-1", src
        return "other", norm(e)
    src = _size_source(ff, e, at)
    if src is not None:
        return "N", src
    return "other", norm(e)


def variance_ddof(fn: FuncInfo) -> int | None:
    """ddof of the single ``.var(...)``/``.std(...)`` call a helper returns (None if not found)."""
    for c in walk_no_nested(fn.node):
        if isinstance(c, ast.Call) and isinstance(c.func, ast.Attribute) and c.func.attr in ("var", "std"):
            d = call_kwargs(c).get("ddof")
            if d is None:
                return 0
            if isinstance(d, ast.Constant) and isinstance(d.value, int):
                return d.value
            return None
    return None


# ----------------------------------------------------------------------------
# helpers that make rules robust to "extract method" refactors and to negated / early-return guards
# ----------------------------------------------------------------------------
def guard_flag(g):
    """(positive test expression, polarity) of a guard with leading ``not`` stripped"""
    t, pol = g.test, g.polarity
    while isinstance(t, ast.UnaryOp) and isinstance(t.op, ast.Not):
        t, pol = t.operand, not pol
    return t, pol


def under_flag(ff: FuncFacts, node: ast.AST, attr: str, want: bool = True) -> bool:
    """node only executes when ``self.<attr>`` is <want> (nesting, early exits, negations all normalised)"""
    for g in ff.guards(node):
        t, pol = guard_flag(g)
        if is_self_attr(t, attr) and pol == want:
            return True
    return False


def class_closure(pm: PM, cls: ClassInfo, entry: FuncInfo) -> list[FuncInfo]:
    """entry plus the same-class helpers (methods / static methods) it calls, transitively"""
    seen: dict[str, FuncInfo] = {}
    stack = [entry]
    while stack:
        fn = stack.pop()
        if fn.qualname in seen:
            continue
        seen[fn.qualname] = fn
        ctx = Ctx(pm, fn, cls)
        for call in calls_in(fn):
            for t in ctx.resolve_call(call) + ctx.func_refs(call):
                if t.fn is not None and t.fn.cls is not None and t.fn.cls in cls.mro and (t.recv == "self" or t.via in ("class", "ref")):
                    stack.append(t.fn)
                elif t.fn is not None and t.fn.cls is None and t.via == "modfunc" and t.fn.name.startswith("_") and t.fn.module is entry.module:
                    stack.append(t.fn)  # private function of the same module
    return list(seen.values())


def callers_in_class(pm: PM, cls: ClassInfo, callee: FuncInfo) -> list[tuple[FuncInfo, ast.Call]]:
    out = []
    for c in cls.mro:
        for m in c.methods.values():
            if cls.resolve(m.name) is not m:
                continue
            ctx = Ctx(pm, m, cls)
            for call in calls_in(m):
                if any(t.fn is callee for t in ctx.resolve_call(call)):
                    out.append((m, call))
    return out


def resolve_sources(pm: PM, cls: ClassInfo, fn: FuncInfo, expr: ast.expr, depth: int = 0) -> set[str]:
    """names of the ultimate sources of ``expr`` in ``fn``: 'self.attr', 'const:<v>', 'param:<p>' ...; a parameter of a
    private helper is followed to the arguments at the helper's call sites inside the class"""
    ff = FuncFacts.of(fn)
    out: set[str] = set()

    def sub(o) -> str:
        # a subscript by a local that is just another name for an attribute / literal reads as that attribute / literal
        sl = getattr(o.node, "slice", None)
        if isinstance(sl, ast.Name):
            ps = ff.paths(sl, spine_only=True)
            if len(ps) == 1 and not ps[0].ops and ps[0].atom.kind in ("selfattr", "const"):
                return f"[{ps[0].atom.name}]"
            if len(ps) == 1 and not ps[0].ops and ps[0].atom.kind == "param" and depth < 3:
                # a key handed in by the callers: one text per distinct argument (joined when they differ)
                ks = sorted(resolve_sources(pm, cls, fn, sl, depth + 1))
                if ks:
                    return "[" + "\x00".join(ks) + "]"  # alternatives, expanded by the caller
        return f"[{o.name}]"

    def expand(txt: str) -> set[str]:
        if "\x00" not in txt:
            return {txt}
        i = txt.index("[", 0)
        # expand the first bracket that carries alternatives
        import re as _re
        m = _re.search(r"\[([^\[\]]*\x00[^\[\]]*)\]", txt)
        out2: set[str] = set()
        for alt in m.group(1).split("\x00"):
            out2 |= expand(txt[: m.start()] + "[" + alt + "]" + txt[m.end():])
        return out2

    for p in ff.paths(expr, spine_only=True):
        a = p.atom
        if a.kind == "selfattr":
            out |= expand(a.name + "".join(sub(o) for o in p.ops if o.kind == "subscript"))
        elif a.kind == "const":
            out.add("const:" + a.name)
        elif a.kind == "param":
            sites = callers_in_class(pm, cls, fn) if (depth < 3 and fn.name.startswith("_")) else []
            if not sites:
                out.add("param:" + a.name + "".join(f"[{o.name}]" for o in p.ops if o.kind == "subscript"))
            for caller, call in sites:
                b = bind_args(fn, call)
                if a.name in b:
                    sub = resolve_sources(pm, cls, caller, b[a.name], depth + 1)
                    suffix = "".join(f"[{o.name}]" for o in p.ops if o.kind == "subscript")
                    out |= {s + suffix for s in sub}
                else:
                    out.add("default:" + a.name)
        elif a.kind == "call":
            out.add("call:" + a.name)
        else:
            out.add(a.kind + ":" + a.name)
    return out


def inline_locals(ff: FuncFacts, expr: ast.expr, depth: int = 6) -> ast.expr:
    """a copy of ``expr`` in which every local name that has exactly one reaching definition of the plain form
    ``name = <expression>`` is replaced by that expression (recursively): rules that look at the SHAPE of a formula are
    then indifferent to whether intermediate results were given names.  Names with several reaching definitions
    (branches, loops), parameters, unpacked tuples and augmented assignments are left alone."""
    import copy

    def rec(e: ast.AST, at: int, d: int):
        if isinstance(e, ast.Name) and isinstance(e.ctx, ast.Load):
            if d <= 0:
                return copy.deepcopy(e)
            defs = ff.rd.reaching(e.id, at)
            if len(defs) == 1 and defs[0].kind == "assign" and not defs[0].index and isinstance(defs[0].value, ast.expr) \
                    and isinstance(defs[0].stmt, ast.Assign) and len(defs[0].stmt.targets) == 1 and isinstance(defs[0].stmt.targets[0], ast.Name):
                return rec(defs[0].value, defs[0].node, d - 1)
            return copy.deepcopy(e)
        if isinstance(e, (ast.Lambda, ast.ListComp, ast.SetComp, ast.DictComp, ast.GeneratorExp)):
            return copy.deepcopy(e)
        new = copy.copy(e)
        for field, val in ast.iter_fields(e):
            if isinstance(val, ast.AST):
                setattr(new, field, rec(val, at, d))
            elif isinstance(val, list):
                setattr(new, field, [rec(v, at, d) if isinstance(v, ast.AST) else v for v in val])
        return new

    return rec(expr, ff.node_of(expr), depth)


def static_truth(test: ast.expr, consts: dict) -> bool | None:
    """truth value of a condition over names whose constant value is known (``consts``: name -> python constant):
    comparisons with literals, membership in literal displays, identity with None, not / and / or; None = unknown"""
    def val(e):
        if isinstance(e, ast.Constant):
            return True, e.value
        if isinstance(e, ast.Name) and e.id in consts:
            return True, consts[e.id]
        if isinstance(e, (ast.Tuple, ast.List, ast.Set)):
            vs = [val(x) for x in e.elts]
            if all(k for k, _ in vs):
                return True, tuple(v for _, v in vs)
        return False, None

    if isinstance(test, ast.UnaryOp) and isinstance(test.op, ast.Not):
        t = static_truth(test.operand, consts)
        return None if t is None else (not t)
    if isinstance(test, ast.BoolOp):
        ts = [static_truth(v, consts) for v in test.values]
        if isinstance(test.op, ast.And):
            if any(t is False for t in ts):
                return False
            return True if all(t is True for t in ts) else None
        if any(t is True for t in ts):
            return True
        return False if all(t is False for t in ts) else None
    if isinstance(test, ast.Compare) and len(test.ops) == 1:
        (ka, a), (kb, b) = val(test.left), val(test.comparators[0])
        if not (ka and kb):
            return None
        op = test.ops[0]
        try:
            if isinstance(op, ast.Eq):
                return a == b
            if isinstance(op, ast.NotEq):
                return a != b
            if isinstance(op, ast.Is):
                return a is b
            if isinstance(op, ast.IsNot):
                return a is not b
            if isinstance(op, ast.In):
                return a in b
            if isinstance(op, ast.NotIn):
                return a not in b
        except TypeError:
            return None
        return None
    k, v = val(test)
    if k and isinstance(test, ast.Name):
        return bool(v)
    return None


def closure_paths(pm: PM, cls: ClassInfo, entry: FuncInfo, g: FuncInfo, expr: ast.expr, spine_only: bool = True, depth: int = 0,
                  _clo: list | None = None) -> list[Path]:
    """provenance of an expression that lives in ``g`` - ``entry`` itself or a same-class helper that ``entry`` calls
    (transitively) - expressed in terms of ``entry``: parameters of the helper are replaced by the provenance of the
    arguments at its call sites inside the closure of ``entry``; helper calls met on the way are followed"""
    from ..prov import Frame

    gf = FuncFacts.of(g)
    ps = gf.paths(expr, spine_only=spine_only, follow=True)
    if g is entry or depth >= 3:
        return ps
    clo = _clo if _clo is not None else class_closure(pm, cls, entry)
    sites = [(caller, call) for caller, call in callers_in_class(pm, cls, g) if any(caller is x for x in clo)]
    if not sites:
        return ps
    out: list[Path] = []
    for caller, call in sites:
        cf = FuncFacts.of(caller)
        fr = Frame(gf, FuncFacts.bind_call(g, call), cf, cf.node_of(call), None)
        out += cf._lift(ps, fr, lambda a, caller=caller: closure_paths(pm, cls, entry, caller, a, spine_only, depth + 1, clo))
    return out


def effective_guards(ff: FuncFacts, node: ast.AST) -> list[tuple[ast.expr, bool, str]]:
    """(condition, truth value, kind) for every guard of ``node`` - if / elif / else nesting, early exits (return, raise,
    continue, break), conditional expressions, short-circuit operators - with named flags substituted by their
    definitions and leading ``not`` folded into the truth value: `if not c: continue` followed by the statement and
    `if c: <statement>` give the same entry (c, True)."""
    out = []
    for g in ff.guards(node):
        if g.kind == "case":
            out.append((g.test, g.polarity, "case"))
            continue
        try:
            t = inline_locals(ff, g.test)
        except Exception:
            t = g.test
        pol = g.polarity
        while isinstance(t, ast.UnaryOp) and isinstance(t.op, ast.Not):
            t, pol = t.operand, not pol
        out.append((t, pol, g.kind))
    return out


def atomic_conditions(ff: FuncFacts, node: ast.AST, kinds=("if", "early-exit", "ifexp", "boolop", "while")) -> list[tuple[ast.expr, bool]]:
    """the guards of ``node`` broken into atoms that must ALL hold: `a and b` (true) gives a, b; `a or b` (false) gives
    not a, not b; `not x` flips; a conjunction that must be false or a disjunction that must be true stays one atom"""
    out: list[tuple[ast.expr, bool]] = []

    def add(t, pol):
        while isinstance(t, ast.UnaryOp) and isinstance(t.op, ast.Not):
            t, pol = t.operand, not pol
        if isinstance(t, ast.BoolOp) and ((isinstance(t.op, ast.And) and pol) or (isinstance(t.op, ast.Or) and not pol)):
            for v in t.values:
                add(v, pol)
        else:
            out.append((t, pol))

    for t, pol, kind in effective_guards(ff, node):
        if kind in kinds:
            add(t, pol)
    return out


_FLIP = {"Lt": "Gt", "Gt": "Lt", "LtE": "GtE", "GtE": "LtE", "Eq": "Eq", "NotEq": "NotEq"}
_NEGATE = {"Lt": "GtE", "GtE": "Lt", "Gt": "LtE", "LtE": "Gt", "Eq": "NotEq", "NotEq": "Eq", "In": "NotIn", "NotIn": "In", "Is": "IsNot", "IsNot": "Is"}


def cmp_forms(t: ast.expr, pol: bool = True) -> list[tuple[str, ast.expr, ast.expr]]:
    """the binary comparison that holds when ``t`` has truth value ``pol``, in both operand orders:
    `not (a < b)` -> [('GtE', a, b), ('LtE', b, a)].  [] when ``t`` is not a single comparison."""
    while isinstance(t, ast.UnaryOp) and isinstance(t.op, ast.Not):
        t, pol = t.operand, not pol
    if not (isinstance(t, ast.Compare) and len(t.ops) == 1):
        return []
    op = type(t.ops[0]).__name__
    if op not in _NEGATE:
        return []
    if not pol:
        op = _NEGATE[op]
    a, b = t.left, t.comparators[0]
    out = [(op, a, b)]
    if op in _FLIP:
        out.append((_FLIP[op], b, a))
    return out


def holds(t: ast.expr, pol: bool, op: str, left, right) -> bool:
    """does the condition (t is pol) say `<left> op <right>` - ``left`` / ``right`` are predicates on expressions"""
    return any(o == op and left(a) and right(b) for o, a, b in cmp_forms(t, pol))


_SIBLINGS: dict[int, list[ast.stmt]] = {}


def _following(fn_node: ast.AST, st: ast.stmt) -> list[ast.stmt]:
    """the statements that follow ``st`` in its own block"""
    key = id(fn_node)
    if key not in _SIBLINGS:
        table: dict[int, list[ast.stmt]] = {}
        for n in ast.walk(fn_node):
            for f in ("body", "orelse", "finalbody"):
                blk = getattr(n, f, None)
                if isinstance(blk, list):
                    for i, x in enumerate(blk):
                        if isinstance(x, ast.stmt):
                            table[id(x)] = blk[i + 1:]
        _SIBLINGS[key] = table  # type: ignore
        _SIBLINGS[-key] = fn_node  # keep the node alive as long as its table
    return _SIBLINGS[key].get(id(st), [])  # type: ignore


def if_chain(node: ast.If, fn_node: ast.AST | None = None) -> tuple[list[tuple[ast.expr, list[ast.stmt]]], list[ast.stmt] | None]:
    """branches of an if / elif / ... chain [(test, body)] and the final else body (None if absent).  With ``fn_node``:
    a branch without else whose body always exits continues with the statements that follow it - `if a: return x` /
    `if b: return y` / `raise` is the chain a -> x, b -> y, default raise (guard-clause spelling of the same chain)."""
    from ..cfg import always_exits
    out = []
    cur = node
    outer = node  # the statement of the enclosing block that the current elif-segment belongs to
    while True:
        out.append((cur.test, cur.body))
        if len(cur.orelse) == 1 and isinstance(cur.orelse[0], ast.If):
            cur = cur.orelse[0]
            continue
        if cur.orelse:
            return out, cur.orelse
        # no else: when every branch of this segment exits, the statements after it are the rest of the chain
        seg_exits = all(always_exits(b) for _, b in out)
        if fn_node is not None and seg_exits:
            rest = _following(fn_node, outer)
            if rest and isinstance(rest[0], ast.If):
                cur = outer = rest[0]
                continue
            return out, (rest or None)
        return out, None


def chain_heads(fn_node: ast.AST) -> list[ast.If]:
    """the If statements of a function that are not the continuation of another one (`elif`, or the sibling that follows
    an exiting branch without else)"""
    from ..cfg import always_exits
    conts = set()
    for n in walk_no_nested(fn_node):
        if isinstance(n, ast.If) and len(n.orelse) == 1 and isinstance(n.orelse[0], ast.If):
            conts.add(id(n.orelse[0]))
        elif isinstance(n, ast.If) and not n.orelse and always_exits(n.body):
            rest = _following(fn_node, n)
            if rest and isinstance(rest[0], ast.If):
                conts.add(id(rest[0]))
    return [n for n in walk_no_nested(fn_node) if isinstance(n, ast.If) and id(n) not in conts]


def switch_cases(node: ast.If, fn_node: ast.AST | None = None) -> tuple[str, list[tuple[set, list[ast.stmt]]], list[ast.stmt] | None] | None:
    """read an if / elif chain as a multi-way branch on ONE subject (the normal form of `match subject:`):
    every test is `subject == literal`, `subject is True/False/None`, `isinstance(subject, C)`, `subject in (literals)`
    or an `or` of those.  -> (subject text, [(set of case keys, body)], default body).  Keys: python constants, or
    'type:<name>' for isinstance tests.  None when the chain does not have this shape."""
    branches, default = if_chain(node, fn_node)
    subject = None
    out = []

    def keys_of(t) -> tuple[str, set] | None:
        if isinstance(t, ast.BoolOp) and isinstance(t.op, ast.Or):
            subj, ks = None, set()
            for v in t.values:
                r = keys_of(v)
                if r is None or (subj is not None and r[0] != subj):
                    return None
                subj = r[0]
                ks |= r[1]
            return (subj, ks) if subj is not None else None
        if isinstance(t, ast.Call) and isinstance(t.func, ast.Name) and t.func.id == "isinstance" and len(t.args) == 2:
            cs = t.args[1].elts if isinstance(t.args[1], ast.Tuple) else [t.args[1]]
            return norm(t.args[0]), {"type:" + (dotted(c) or norm(c)).split(".")[-1] for c in cs}
        for op, a, b in cmp_forms(t, True):
            if op in ("Eq", "Is") and isinstance(b, ast.Constant) and not isinstance(a, ast.Constant):
                return norm(a), {b.value}
            if op == "In" and isinstance(b, (ast.Tuple, ast.List, ast.Set)) and all(isinstance(x, ast.Constant) for x in b.elts):
                return norm(a), {x.value for x in b.elts}
        return None

    for t, body in branches:
        r = keys_of(t)
        if r is None or (subject is not None and r[0] != subject):
            return None
        subject = r[0]
        out.append((r[1], body))
    return subject, out, default


# ---------------------------------------------------------------------------------------------------------------------
# integer polynomials over named symbols (normal form of small arithmetic expressions)
def poly_eval(ff, e: ast.expr, at, sym, depth: int = 0):
    """Normal form of an integer arithmetic expression as {monomial: coefficient}, monomial = sorted tuple of symbol
    names (with repetition).  ``sym(expr) -> name | None`` names the leaves (tested before a local is resolved through its
    single reaching definition).  Supports + - * unary minus, integer constants, and int(...) of such.  None when the
    expression is not of that form."""
    if depth > 12:
        return None
    s = sym(e)
    if s is not None:
        return {(s,): 1}
    if isinstance(e, ast.Constant) and isinstance(e.value, int) and not isinstance(e.value, bool):
        return {(): e.value} if e.value else {}
    if isinstance(e, ast.Name):
        defs = ff.rd.reaching(e.id, at)
        if len(defs) == 1 and defs[0].kind == "assign" and not defs[0].index:
            return poly_eval(ff, defs[0].value, defs[0].node, sym, depth + 1)
        return None
    if isinstance(e, ast.UnaryOp) and isinstance(e.op, (ast.USub, ast.UAdd)):
        p = poly_eval(ff, e.operand, at, sym, depth + 1)
        if p is None:
            return None
        return {m: -c for m, c in p.items()} if isinstance(e.op, ast.USub) else p
    if isinstance(e, ast.Call) and isinstance(e.func, ast.Name) and e.func.id == "int" and len(e.args) == 1 and not e.keywords:
        return poly_eval(ff, e.args[0], at, sym, depth + 1)
    if isinstance(e, ast.BinOp) and isinstance(e.op, (ast.Add, ast.Sub, ast.Mult)):
        a = poly_eval(ff, e.left, at, sym, depth + 1)
        b = poly_eval(ff, e.right, at, sym, depth + 1)
        if a is None or b is None:
            return None
        out: dict = {}
        if isinstance(e.op, ast.Mult):
            for m1, c1 in a.items():
                for m2, c2 in b.items():
                    m = tuple(sorted(m1 + m2))
                    out[m] = out.get(m, 0) + c1 * c2
        else:
            sign = 1 if isinstance(e.op, ast.Add) else -1
            out = dict(a)
            for m, c in b.items():
                out[m] = out.get(m, 0) + sign * c
        return {m: c for m, c in out.items() if c}
    return None


def poly_subst(p: dict, name: str, value: int) -> dict:
    out: dict = {}
    for m, c in p.items():
        k = sum(1 for x in m if x == name)
        m2 = tuple(x for x in m if x != name)
        out[m2] = out.get(m2, 0) + c * (value ** k)
    return {m: c for m, c in out.items() if c}


def poly_str(p: dict) -> str:
    if not p:
        return "0"
    return " + ".join(f"{c}*{'*'.join(m)}" if m else str(c) for m, c in sorted(p.items()))


# ---------------------------------------------------------------------------------------------------------------------
# mappings keyed by the stringified position of a list element ("0", "1", ..., "10", ...)
def _is_str_of_index(key: ast.expr, scope: ast.AST) -> bool:
    """``str(i)`` / ``f"{i}"`` where ``i`` is the counter of an enumerate / range loop or comprehension in ``scope``"""
    name = None
    if isinstance(key, ast.Call) and isinstance(key.func, ast.Name) and key.func.id == "str" and len(key.args) == 1 and isinstance(key.args[0], ast.Name):
        name = key.args[0].id
    elif isinstance(key, ast.JoinedStr) and len(key.values) == 1 and isinstance(key.values[0], ast.FormattedValue) and isinstance(key.values[0].value, ast.Name):
        name = key.values[0].value.id
    if name is None:
        return False
    for n in ast.walk(scope):
        tgt = it = None
        if isinstance(n, (ast.For, ast.comprehension)):
            tgt, it = n.target, n.iter
        if tgt is None or not isinstance(it, ast.Call):
            continue
        f = (dotted(it.func) or "").split(".")[-1]
        if f == "enumerate" and isinstance(tgt, ast.Tuple) and tgt.elts and isinstance(tgt.elts[0], ast.Name) and tgt.elts[0].id == name:
            return True
        if f == "range" and isinstance(tgt, ast.Name) and tgt.id == name:
            return True
    return False


def index_key_fields(pm) -> dict[str, tuple]:
    """attribute names of mappings whose keys are stringified list positions -> (function, writer node)"""
    fields: dict[str, tuple] = {}
    for fn in pm.functions.values():
        for n in walk_no_nested(fn.node):
            if not isinstance(n, ast.Assign):
                continue
            for t in n.targets:
                if isinstance(t, ast.Attribute) and isinstance(n.value, ast.DictComp) and _is_str_of_index(n.value.key, n.value):
                    fields.setdefault(t.attr, (fn, n))
                if isinstance(t, ast.Subscript) and isinstance(t.value, ast.Attribute) and _is_str_of_index(t.slice, fn.node):
                    fields.setdefault(t.value.attr, (fn, n))
    return fields


def index_key_order(chk, rule: str, want_fields: tuple[str, ...] = ()) -> None:
    """<rule>: a mapping keyed by "0", "1", ..., "10", ... pairs its entries with the positions of a list; whoever walks
    it must do so in insertion order or in NUMERIC key order - ``sorted()`` without an integer key puts "10" before "2", so
    from the eleventh element on every entry is attached to the wrong list position."""
    pm = chk.pm
    fields = index_key_fields(pm)
    for f in want_fields:
        chk.require(f in fields, f"{rule}: no mapping attribute '{f}' keyed by the stringified list position found (anchor vanished)")
    if want_fields:
        fields = {k: v for k, v in fields.items() if k in want_fields}
    n = 0
    for fn in pm.functions.values():
        ff = None
        for c in walk_no_nested(fn.node):
            walks = None
            if isinstance(c, ast.Call) and isinstance(c.func, ast.Name) and c.func.id in ("sorted", "reversed") and c.args:
                walks, how = c.args[0], c.func.id
            elif isinstance(c, (ast.For, ast.comprehension)):
                walks, how = c.iter, "iter"
            if walks is None:
                continue
            base = walks
            if isinstance(base, ast.Call) and isinstance(base.func, ast.Attribute) and base.func.attr in ("keys", "values", "items") and not base.args:
                base = base.func.value
            if isinstance(base, ast.Call) and isinstance(base.func, ast.Name) and base.func.id in ("list", "tuple") and base.args:
                base = base.args[0]
            ff = ff or FuncFacts.of(fn)
            hit = None
            if isinstance(base, ast.Attribute) and base.attr in fields:
                hit = base.attr
            elif isinstance(base, ast.Name):
                for p in ff.paths(base, spine_only=True):
                    if p.ops and p.ops[-1].kind == "attr" and p.ops[-1].name in fields:
                        hit = p.ops[-1].name
                    elif not p.ops and p.atom.kind == "selfattr" and p.atom.name.split(".")[-1] in fields:
                        hit = p.atom.name.split(".")[-1]
            if hit is None:
                continue
            if how == "iter" and isinstance(walks, ast.Call) and isinstance(walks.func, ast.Name) and walks.func.id in ("sorted", "reversed"):
                continue  # judged at the sorted() call itself
            n += 1
            ok = True
            if how == "reversed":
                ok = False
            elif how == "sorted":
                key = call_kwargs(c).get("key")
                ok = key is not None and any(isinstance(x, ast.Name) and x.id in ("int", "float") for x in ast.walk(key))
                if any(k.arg == "reverse" for k in c.keywords):
                    ok = False
            chk.check(ok, rule, fn, c if isinstance(c, ast.Call) else walks, construct=f"{fn.qualname.split('.')[-2] if '.' in fn.qualname else fn.qualname}: entries of .{hit} walked in list order",
                      why=f".{hit} is keyed by the stringified position of a list element (written in {fields[hit][0].qualname}); {how}() without an integer key orders "
                          "'10' before '2': from the eleventh element on, entries are paired with the wrong list position")
    chk.require(n >= 1 or not want_fields, f"{rule}: no walk over a position-keyed mapping found (anchor vanished)")


# ---------------------------------------------------------------------------------------------------------------------
# self.attrs is descriptive metadata: DataContainer.set_attrs re-encodes it IN PLACE at the end of every fit
def attrs_encoded_in_place(pm) -> bool:
    """premise: DataContainer.set_attrs -> _validate_attrs assigns into the very dict it is given (bool -> 'True'/'False',
    None -> 'None') - so a model's ``self.attrs`` holds strings once a fit has completed"""
    dc = pm.classes.get("xeofs.data_container.data_container.DataContainer")
    if dc is None:
        return False
    sa, va = dc.methods.get("set_attrs"), dc.methods.get("_validate_attrs")
    if sa is None or va is None:
        return False
    params = [p for p in va.params if p != "self"]
    if not params:
        return False
    writes = any(isinstance(n, ast.Assign) and any(isinstance(t, ast.Subscript) and isinstance(t.value, ast.Name) and t.value.id == params[0] for t in n.targets)
                 for n in walk_no_nested(va.node))
    hands_on = any(isinstance(c.func, ast.Attribute) and c.func.attr == "_validate_attrs" and c.args and isinstance(c.args[0], ast.Name) and c.args[0].id in sa.params
                   for c in calls_in(sa))
    return writes and hands_on


def _flag_like_params(pm, cls) -> set[str]:
    """constructor parameters along the MRO whose default is a bool or None (the values the encoding turns into strings)"""
    out: set[str] = set()
    for c in cls.mro:
        init = c.methods.get("__init__")
        if init is None:
            continue
        a = init.node.args
        pos = a.posonlyargs + a.args
        pairs = list(zip(pos[len(pos) - len(a.defaults):], a.defaults)) + [(x, d) for x, d in zip(a.kwonlyargs, a.kw_defaults) if d is not None]
        for x, d in pairs:
            ann = norm(x.annotation) if x.annotation is not None else ""
            if (isinstance(d, ast.Constant) and (isinstance(d.value, bool) or d.value is None)) or "bool" in ann or "None" in ann:
                out.add(x.arg)
    return out


def attrs_reads(chk, rule: str) -> None:
    """<rule>: nothing that steers a computation is read from ``self.attrs``.  The dict is handed to
    DataContainer.set_attrs at the end of each fit, which replaces booleans and None by strings in place: a flag read from
    it is right on the first fit and the truthy string 'False' (or 'None') on every later one."""
    pm = chk.pm
    if not attrs_encoded_in_place(pm):
        chk.ok(rule, "xeofs", None, construct="<self.attrs is not re-encoded in place: reads are harmless>", nontrivial=False)
        return
    n = 0
    seen = set()
    for cls in pm.concrete_models():
        flags = _flag_like_params(pm, cls)
        for c in cls.mro:
            for fn in c.methods.values():
                if fn.qualname in seen:
                    continue
                seen.add(fn.qualname)
                par = None
                for node in walk_no_nested(fn.node):
                    if not (is_self_attr(node, "attrs") and isinstance(node.ctx, ast.Load)):
                        continue
                    par = par or parent_map(fn.node)
                    up = par.get(id(node))
                    # writes and the metadata sink
                    if isinstance(up, ast.Subscript) and isinstance(up.ctx, (ast.Store, ast.Del)):
                        continue
                    if isinstance(up, ast.Attribute) and up.attr in ("update", "setdefault", "pop", "clear") and isinstance(par.get(id(up)), ast.Call):
                        continue
                    if isinstance(up, ast.Call) and isinstance(up.func, ast.Attribute) and up.func.attr == "set_attrs":
                        continue
                    if isinstance(up, ast.keyword) and isinstance(par.get(id(up)), ast.Call) and norm(par[id(up)].func).endswith("set_attrs"):
                        continue
                    # a read: which keys?
                    keys: set[str] | None = None
                    if isinstance(up, ast.Subscript):
                        k = const_str(up.slice)
                        if k is not None:
                            keys = {k}
                        elif isinstance(up.slice, ast.Name):
                            # key bound by a loop / comprehension over a literal display
                            for m in ast.walk(fn.node):
                                if isinstance(m, (ast.For, ast.comprehension)) and isinstance(m.target, ast.Name) and m.target.id == up.slice.id \
                                        and isinstance(m.iter, (ast.Tuple, ast.List, ast.Set)) and all(const_str(x) is not None for x in m.iter.elts):
                                    keys = {const_str(x) for x in m.iter.elts}
                    elif isinstance(up, ast.Attribute) and up.attr == "get" and isinstance(par.get(id(up)), ast.Call) and par[id(up)].args:
                        k = const_str(par[id(up)].args[0])
                        keys = {k} if k is not None else None
                    n += 1
                    risky = sorted(keys & flags) if keys is not None else sorted(flags)
                    chk.check(not risky, rule, fn, up if up is not None else node, construct=f"{fn.qualname}: read of self.attrs{sorted(keys) if keys else ''}",
                              why=f"{norm(up)[:80]} reads {risky} from self.attrs; DataContainer.set_attrs replaces booleans / None in that dict by strings at the end of every fit, "
                                  "so from the second fit on the value is the (truthy) string - read configuration from self._params / get_params()")
    chk.ok(rule, "xeofs", None, construct=f"<reads of self.attrs examined: {n}>", nontrivial=False)


# ---------------------------------------------------------------------------------------------------------------------
# comparison of the labels of new data with the labels recorded at fit: element by element, IN ORDER
ORDERED_CMP = {"equals", "identical", "array_equal", "array_equiv", "assert_equal", "assert_identical"}
SETLIKE_CMP = {"symmetric_difference", "difference", "issubset", "issuperset", "isin", "intersection", "union", "isdisjoint", "set", "frozenset", "sorted", "unique"}


def ordered_label_comparison(chk, rule: str, fn: FuncInfo, state_attrs: tuple[str, ...], why: str) -> None:
    """<rule>: the function compares labels of its data parameter with labels recorded at fit (self.<state_attrs>) through
    an order-sensitive comparison (``a.equals(b)``, ``a.identical(b)``, ``np.array_equal(a, b)``, ``(a == b).all()``); a
    comparison of the label SETS (symmetric_difference, isin, set(), sorted()) accepts the same labels in another order, and
    everything downstream of the stacker works by position"""
    ff = FuncFacts.of(fn)
    params = [p for p in fn.params if p not in ("self", "cls")]

    def side(e) -> str:
        ps = ff.paths(e, spine_only=True)
        if any(p.atom.kind == "selfattr" and p.atom.name.split(".")[-1] in state_attrs for p in ps):
            return "state"
        if any(p.atom.kind == "param" and p.atom.name in params for p in ps):
            return "data"
        return "?"

    ordered, setlike = [], []
    for c in ast.walk(fn.node):
        if isinstance(c, ast.Call):
            name = c.func.attr if isinstance(c.func, ast.Attribute) else c.func.id if isinstance(c.func, ast.Name) else ""
            opnds = ([c.func.value] if isinstance(c.func, ast.Attribute) and not (dotted(c.func) or "").startswith(("np.", "numpy.", "xr.", "xarray.")) else []) + list(c.args)
            sides = {side(x) for x in opnds}
            if name in ORDERED_CMP and {"state", "data"} <= sides:
                ordered.append(c)
            elif name in SETLIKE_CMP and ("state" in sides or "data" in sides):
                setlike.append(c)
        elif isinstance(c, ast.Compare) and len(c.ops) == 1 and isinstance(c.ops[0], (ast.Eq, ast.NotEq)):
            sides = {side(c.left), side(c.comparators[0])}
            if {"state", "data"} <= sides:
                ordered.append(c)
    ok = bool(ordered) and not setlike
    node = (setlike or ordered or [fn.node])[0]
    # ... of the LABELS: `a.equals(b)` / `a.identical(b)` on coordinate DataArrays also compares the scalar coordinates and
    # attributes attached to them (and the names), so data that differ from the fitted data in metadata only are refused
    for c in ordered:
        if isinstance(c, ast.Call) and isinstance(c.func, ast.Attribute) and c.func.attr in ("equals", "identical"):
            opnds = [c.func.value] + list(c.args)

            def labels_only(e) -> bool:
                t = norm(e)
                return ".indexes[" in t or "to_index()" in t or t.endswith(".values") or t.endswith(".data") or any(
                    any((o.kind in ("method", "arg") and o.name.split(".")[-1] == "to_index") or (o.kind == "attr" and o.name in ("indexes", "values", "data")) for o in p.ops)
                    for p in ff.paths(e, spine_only=True))

            chk.check(all(labels_only(e) for e in opnds), rule + ".labels", fn, c, construct=f"{fn.qualname.split('.')[-1]}: the comparison is made on index labels",
                      why=f"`{norm(c)[:70]}` compares whole coordinate arrays: scalar coordinates and attributes attached to them take part, so new data that differ from the "
                          "fitted data only in such metadata (another ensemble member selected, a units attribute) are refused although they share the feature layout")
    chk.check(ok, rule, fn, node, construct=f"{fn.qualname.split('.')[-1]}: labels of the data compared in order with those recorded at fit",
              why=why + (f" (order-insensitive comparison `{norm(setlike[0])[:70]}`)" if setlike else " (no order-sensitive comparison of the data's labels with the recorded ones found)"))


# ---------------------------------------------------------------------------------------------------------------------
# cut-offs on quantities that carry the units of the data are relative
def absolute_cutoffs(chk, rule: str, why_tail: str) -> None:
    """<rule>: a comparison that separates 'zero' from 'non-zero' values of an array computed from the data (singular values,
    eigenvalues, norms ...) against the machine epsilon alone is an ABSOLUTE threshold: the same data expressed in other
    units (multiplied by 1e-8) falls below it and directions / modes are silently dropped.  The threshold must be scaled by
    a quantity computed from the same data (``eps * s.max()``)."""
    pm = chk.pm
    n = 0
    for fn in pm.functions.values():
        src = norm(fn.node)
        if "finfo" not in src:
            continue
        ff = FuncFacts.of(fn)
        params = {p for p in fn.params if p not in ("self", "cls")}

        def through_dtype(p) -> bool:
            return any((o.kind == "attr" and o.name == "dtype") or (o.kind == "arg" and o.name.split(".")[-1] in ("finfo", "iinfo")) for o in p.ops)

        def from_param(e, values_only: bool = False) -> bool:
            for p in ff.paths(e, spine_only=False):
                if values_only and through_dtype(p):
                    continue  # only the data TYPE of the array is used
                if p.atom.kind == "param" and p.atom.name in params:
                    return True
            if values_only:
                return False
            # values returned by a call that was fed a parameter (U, s, V = svd.fit_transform(C))
            for p in ff.paths(e, spine_only=True):
                calls = [p.atom.node] if p.atom.kind == "call" and isinstance(p.atom.node, ast.Call) else []
                calls += [o.node for o in p.ops if isinstance(getattr(o, "node", None), ast.Call)]
                for cl in calls:
                    for a in list(cl.args) + [k.value for k in cl.keywords]:
                        if any(q.atom.kind == "param" and q.atom.name in params for q in ff.paths(a, spine_only=False)):
                            return True
            return False

        def is_eps_only(e) -> bool:
            has_eps = any(isinstance(x, ast.Attribute) and x.attr in ("eps", "tiny", "resolution") and isinstance(x.value, ast.Call) and (dotted(x.value.func) or "").endswith("finfo")
                          for x in ast.walk(inline_locals(ff, e)))
            return has_eps and not from_param(e, values_only=True)

        for c in walk_no_nested(fn.node):
            if not (isinstance(c, ast.Compare) and len(c.ops) == 1 and isinstance(c.ops[0], (ast.Gt, ast.GtE, ast.Lt, ast.LtE))):
                continue
            l, r = c.left, c.comparators[0]
            for a, b in ((l, r), (r, l)):
                if is_eps_only(a) and from_param(b):
                    n += 1
                    chk.check(False, rule, fn, c, construct=f"{fn.qualname}: cut-off `{norm(c)[:60]}` is relative to the data",
                              why=f"`{norm(c)[:80]}` compares values computed from the data with the machine epsilon alone: " + why_tail)
    chk.ok(rule, "xeofs", None, construct=f"<absolute machine-epsilon cut-offs on data-derived values found: {n}>", nontrivial=False)


# xarray methods that change WHICH sample sits at which position of the sample axis (or how many there are); reason per row
SAMPLE_REORDER = {
    "sortby": "orders the rows by their labels", "reindex": "orders / selects the rows by labels", "reindex_like": "orders / selects the rows by labels",
    "roll": "rotates the rows", "sel": "selects rows by label", "drop_sel": "removes rows by label", "drop_isel": "removes rows by position",
    "thin": "keeps every n-th row", "coarsen": "merges neighbouring rows", "resample": "re-grids the rows", "groupby": "regroups the rows",
    "interp": "re-grids the rows", "interp_like": "re-grids the rows", "dropna": "removes rows by value", "drop_duplicates": "removes rows by label",
}


def sample_order_kept(chk, rule: str, fn: FuncInfo, ff: FuncFacts, expr: ast.expr, construct: str, why_tail: str, sample_names=("self.sample_name", "sample_name")) -> int:
    """``expr`` (what a lag / delay computation consumes) derives from the function's data parameter without any operation
    that re-orders, selects or re-grids the rows ALONG THE SAMPLE DIMENSION: lagged statistics pair row t with row t+1 BY
    POSITION, so the series must reach them in the order the caller gave.  Operations whose dimension argument is
    recognisably not the sample dimension are left alone; `isel` / `shift` are the lag mechanism itself and are judged by
    the rules of the computation."""
    n = 0
    bad = []
    for p in ff.paths(expr, spine_only=True, follow=True):
        if p.atom.kind != "param":
            continue
        n += 1
        for o in p.ops:
            if o.kind != "method" or o.name not in SAMPLE_REORDER:
                continue
            call = o.node
            args = list(getattr(call, "args", [])) + [k.value for k in getattr(call, "keywords", [])]
            keys = [k.arg for k in getattr(call, "keywords", []) if k.arg]
            dict_keys = [kk for a in args if isinstance(a, ast.Dict) for kk in a.keys if kk is not None]
            named = [a for a in args if not isinstance(a, ast.Dict)] + dict_keys
            # an operation that names only OTHER dimensions (mode=..., feature names) does not touch the sample axis
            touches = not named and not keys
            for a in named:
                txt = norm(a)
                if any(sn in txt for sn in sample_names) or txt in ("'sample'", '"sample"'):
                    touches = True
                try:
                    if any(q.atom.name in sample_names for q in ff.paths(a, spine_only=True)):
                        touches = True
                except Exception:
                    pass
            if keys and not named and all(k in ("mode", "feature", "embedding") for k in keys):
                touches = False
            elif keys and not touches and any(k not in ("mode", "feature", "embedding", "drop", "method", "tolerance") for k in keys):
                touches = True
            if touches:
                bad.append((o, SAMPLE_REORDER[o.name]))
    chk.require(n >= 1, f"{fn.qualname}: {construct} no longer derives from the data parameter")
    chk.check(not bad, rule, fn, bad[0][0].node if bad else expr, construct=construct,
              why=(f"`.{bad[0][0].name}(...)` {bad[0][1]} along the sample dimension before {why_tail}" if bad else ""))
    return n
