"""Entry point:  python -m xsa.run <Cnn> [--tier quick|thorough] [--replay file]

exit 0  every obligation of the property's claimed clauses discharged (known findings listed)
exit 1  VIOLATION property=<id> replay=<path>
exit 2  ANALYSIS-ERROR (parse failure, vanished anchor, instance floor, self-test failure)
"""

from __future__ import annotations

import argparse
import importlib
import json
import os
import sys
import time
import traceback

from .pm import PM, AnalysisError
from .report import Checker, finish


def run_property(prop: str, tier: str, repo: str | None = None) -> Checker:
    pm = PM(repo)
    mod = importlib.import_module(f"xsa.rules.{prop.lower()}")
    chk = Checker(prop, pm, tier)
    mod.check(chk)
    return chk


def main(argv=None) -> int:
    ap = argparse.ArgumentParser()
    ap.add_argument("prop")
    ap.add_argument("--tier", default=os.environ.get("VERIF_TIER", "quick"))
    ap.add_argument("--replay", default=None)
    ap.add_argument("--repo", default=None)
    ap.add_argument("--no-selftest", action="store_true")
    a = ap.parse_args(argv)
    seed = int(os.environ.get("VERIF_SEED", "0") or 0)
    t0 = time.time()
    prop = a.prop.upper()
    try:
        chk = run_property(prop, a.tier, a.repo)
        extra = {}
        if a.replay:
            with open(a.replay) as f:
                want = {(d["rule"], d["function"], d["construct"]) for d in json.load(f)}
            chk.obligations = [o for o in chk.obligations if o.key() in want]
            extra["replayed_instances"] = len(want)
        rc = finish_with_selftest(chk, t0, seed, a, extra)
        return rc
    except AnalysisError as e:
        print(f"ANALYSIS-ERROR property={prop}: {e}")
        return 2
    except Exception:
        print(f"ANALYSIS-ERROR property={prop}: internal error")
        traceback.print_exc()
        return 2


def finish_with_selftest(chk: Checker, t0, seed, a, extra) -> int:
    st = None
    if a.tier == "thorough" and not a.no_selftest and not a.replay:
        from . import selftest, enginetest

        if enginetest.main() != 0:
            print(f"ANALYSIS-ERROR property={chk.prop}: engine unit tests failed")
            return 2
        extra["engine_tests"] = "passed"
        st = selftest.run_for(chk.prop, repo=a.repo)
        extra["selftest"] = st["summary"]
        extra["selftest_cases"] = st["cases"]
    rc = finish(chk, t0, seed, extra)
    if st is not None:
        for f in st.get("stale", []):
            print(f"SELFTEST-STALE (tree differs from the one the corpus was validated on) {f}")
    if st is not None and st["failed"]:
        for f in st["failed"]:
            print(f"SELFTEST-FAIL {f}")
        if rc == 0:
            print(f"ANALYSIS-ERROR property={chk.prop}: self-test of the checker failed")
            return 2
    return rc


if __name__ == "__main__":
    sys.exit(main())
