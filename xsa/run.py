"""Entry point:  python -m xsa.run <Cnn> [--tier quick|thorough] [--replay file]

exit 0  every obligation of the property's claimed clauses discharged (known findings listed)
exit 1  VIOLATION property=<id> replay=<path>
exit 2  ANALYSIS-ERROR (parse failure, vanished anchor, instance floor, self-test failure, undecided instance,
        verdict that changes under a behaviour-preserving rewrite of the tree)
"""

from __future__ import annotations

import argparse
import importlib
import json
import os
import sys
import time
import traceback

from .pm import PM, AnalysisError
from .report import Checker, finish, verdict


def run_property(prop: str, tier: str, repo: str | None = None) -> Checker:
    pm = PM(repo)
    mod = importlib.import_module(f"xsa.rules.{prop.lower()}")
    chk = Checker(prop, pm, tier)
    mod.check(chk)
    return chk


def main(argv=None) -> int:
    ap = argparse.ArgumentParser()
    ap.add_argument("prop")
    ap.add_argument("--tier", default=os.environ.get("VERIF_TIER", "quick"))
    ap.add_argument("--replay", default=None)
    ap.add_argument("--repo", default=None)
    ap.add_argument("--no-selftest", action="store_true")
    ap.add_argument("--no-metamorphic", action="store_true")
    a = ap.parse_args(argv)
    seed = int(os.environ.get("VERIF_SEED", "0") or 0)
    t0 = time.time()
    prop = a.prop.upper()
    try:
        chk = run_property(prop, a.tier, a.repo)
        extra = {}
        if a.replay:
            with open(a.replay) as f:
                want = {(d["rule"], d["function"], d["construct"]) for d in json.load(f)}
            chk.obligations = [o for o in chk.obligations if o.key() in want]
            extra["replayed_instances"] = len(want)
        rc = finish_with_selftest(chk, t0, seed, a, extra)
        return rc
    except AnalysisError as e:
        print(f"ANALYSIS-ERROR property={prop}: {e}")
        return 2
    except Exception:
        print(f"ANALYSIS-ERROR property={prop}: internal error")
        traceback.print_exc()
        return 2


def _mm_worker(job):
    """one behaviour-preserving rewrite of the tree under analysis, re-analysed with the property's rules"""
    prop, repo, tname = job
    import shutil

    from .metamorphic import rewrite_tree

    tmp = None
    try:
        tmp = rewrite_tree(repo, tname)
        rc, keys = verdict(run_property(prop, "quick", tmp))
        return tname, rc, keys, None
    except AnalysisError as e:
        return tname, 2, [], str(e)
    except Exception as e:  # the rewrite or the analysis failed on this spelling: reported, never a violation
        return tname, 2, [], f"{type(e).__name__}: {e}"
    finally:
        if tmp:
            shutil.rmtree(tmp, ignore_errors=True)


def metamorphic_pass(chk: Checker, repo: str | None) -> dict:
    """thorough tier: the verdict must not depend on how the code is spelt.  The tree under analysis is rewritten by
    each of the behaviour-preserving transformations of xsa.metamorphic (and by all of them together) and the
    property's rules are run again on each rewritten tree."""
    import multiprocessing as mp

    from .metamorphic import TRANSFORMS

    base_rc, base_keys = verdict(chk)
    names = list(TRANSFORMS) + ["all"]
    with mp.get_context("fork").Pool(min(16, len(names))) as pool:
        res = pool.map(_mm_worker, [(chk.prop, chk.pm.repo if repo is None else repo, t) for t in names])
    per = {t: {"exit": rc, "violating": [list(k) for k in keys], **({"error": err} if err else {})} for t, rc, keys, err in res}
    return {
        "base_exit": base_rc,
        "transformations": len(names),
        "same_verdict": sum(1 for v in per.values() if v["exit"] == base_rc),
        "per_transformation": per,
    }


def finish_with_selftest(chk: Checker, t0, seed, a, extra) -> int:
    st = None
    mm = None
    if a.tier == "thorough" and not a.replay and not a.no_metamorphic:
        mm = metamorphic_pass(chk, a.repo)
        extra["metamorphic"] = mm
    if a.tier == "thorough" and not a.no_selftest and not a.replay:
        from . import selftest, enginetest

        if enginetest.main() != 0:
            print(f"ANALYSIS-ERROR property={chk.prop}: engine unit tests failed")
            return 2
        extra["engine_tests"] = "passed"
        st = selftest.run_for(chk.prop, repo=a.repo)
        extra["selftest"] = st["summary"]
        extra["selftest_cases"] = st["cases"]
    rc = finish(chk, t0, seed, extra)
    if mm is not None:
        print(f"metamorphic: {mm['same_verdict']}/{mm['transformations']} behaviour-preserving rewrites of the tree give the same verdict (exit {mm['base_exit']})")
        for t, v in mm["per_transformation"].items():
            if v["exit"] != mm["base_exit"]:
                print(f"METAMORPHIC-MISMATCH rewrite={t} exit={v['exit']} (tree itself: {mm['base_exit']}) {v.get('error') or v['violating'][:4]}")
        if rc == 0 and any(v["exit"] != 0 for v in mm["per_transformation"].values()):
            # the rewrites execute exactly like the tree: a rule that fires on one of them either missed the same
            # defect on the tree as written or depends on spelling - the instance is undecided, not a violation
            print(f"ANALYSIS-ERROR property={chk.prop}: the verdict depends on how the code is spelt (see METAMORPHIC-MISMATCH lines)")
            rc = 2
    if st is not None:
        for f in st.get("stale", []):
            print(f"SELFTEST-STALE (tree differs from the one the corpus was validated on) {f}")
    if st is not None and st["failed"]:
        for f in st["failed"]:
            print(f"SELFTEST-FAIL {f}")
        if rc == 0:
            print(f"ANALYSIS-ERROR property={chk.prop}: self-test of the checker failed")
            return 2
    return rc


if __name__ == "__main__":
    sys.exit(main())
