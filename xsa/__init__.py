"""xsa - xeofs static analysis: repo-specific checkers deciding structural clauses of
the properties in /verif/properties.jsonl from the source of /repo/xeofs (never
importing or executing it)."""
