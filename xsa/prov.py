"""Provenance of values inside one function.

``FuncFacts(fn).paths(expr)`` enumerates every *def-use path* from a source atom
(parameter, ``self.<attr>`` read, call result, constant ...) to the given sink
expression, together with the operations applied on the way (method calls such as
``.conj()``, attribute reads such as ``.T``, binary operators with the other operand,
subscripts, argument positions of calls).  Local names are followed through their
reaching definitions (all of them: the analysis is path-insensitive at joins and
flow-sensitive otherwise), so hoisting an expression into a variable, renaming locals
or splitting a chain over several statements does not change the result.
"""

from __future__ import annotations

import ast
from dataclasses import dataclass, field

from .cfg import CFG, Def, ReachingDefs, guards_of, Guard
from .pm import AnalysisError, FuncInfo, dotted, is_self_attr, norm, walk_no_nested, const_str

MAX_PATHS = 3000


@dataclass(frozen=True)
class Op:
    kind: str  # method | attr | binop | unary | subscript | arg | marg | elt | iter | unpack | cmp | bool | dictval | ifexp
    name: str = ""
    node: object = None  # the ast node of the operation (Call, BinOp, Subscript, ...)
    side: str = ""  # for binop: 'L' if the traced value is the left operand
    other: object = None  # for binop: the other operand expr; for arg: position/keyword
    frame: object = field(default=None, compare=False)  # Frame when the op happened inside a followed helper

    def __repr__(self) -> str:
        extra = ""
        if self.kind == "binop":
            extra = f"{self.side}:{norm(self.other)[:30]}"
        elif self.kind in ("arg", "marg"):
            extra = f"#{self.other}"
        return f"{self.kind}:{self.name}{('(' + extra + ')') if extra else ''}"


@dataclass(frozen=True)
class Frame:
    """one followed helper call: expressions inside ``ff`` are to be read with the helper's parameters bound to
    ``binding`` (argument expressions of the call, which live in ``parent_ff`` at cfg node ``at``)"""
    ff: object
    binding: dict = field(compare=False, hash=False)
    parent_ff: object = None
    at: int = -1
    parent: object = None  # Frame of parent_ff, None when parent_ff is the function the query started in

    def reparent(self, outer: "Frame") -> "Frame":
        return Frame(self.ff, self.binding, self.parent_ff, self.at, outer if self.parent is None else self.parent.reparent(outer))


@dataclass(frozen=True)
class Atom:
    kind: str  # param | selfattr | call | const | name | expr | cycle | loopvar
    name: str = ""
    node: object = None
    defn: object = None

    def __repr__(self) -> str:
        if self.kind == "call":
            return f"call:{norm(self.node)[:60]}"
        if self.kind == "const":
            return f"const:{self.name}"
        return f"{self.kind}:{self.name}"


@dataclass(frozen=True)
class Path:
    atom: Atom
    ops: tuple  # innermost (closest to the atom) first
    at: int = -1  # cfg node where the atom is read

    def has_op(self, kind: str, name: str | None = None) -> bool:
        return any(o.kind == kind and (name is None or o.name == name) for o in self.ops)

    def count(self, kind: str, name: str) -> int:
        return sum(1 for o in self.ops if o.kind == kind and o.name == name)

    def names(self, kind: str) -> list[str]:
        return [o.name for o in self.ops if o.kind == kind]

    def container_key(self) -> tuple[str, str] | None:
        """('self.data', 'components') when the atom is a container attribute read with a
        literal key as the innermost op."""
        if self.ops and self.ops[0].kind == "subscript":
            k = const_str(getattr(self.ops[0].node, "slice", None))
            if k is not None and self.atom.kind in ("selfattr", "param", "name", "attrchain"):
                return (self.atom.name, k)
        return None

    def __repr__(self) -> str:
        return f"{self.atom!r} -> " + " . ".join(repr(o) for o in self.ops)


class FuncFacts:
    """CFG + reaching definitions + provenance for one function."""

    _cache: dict[str, "FuncFacts"] = {}

    @classmethod
    def of(cls, fn: FuncInfo) -> "FuncFacts":
        k = fn.qualname + "@" + fn.module.path
        ff = cls._cache.get(k)
        if ff is None or ff.fn.node is not fn.node:
            ff = cls(fn)
            cls._cache[k] = ff
        return ff

    def __init__(self, fn: FuncInfo):
        self.fn = fn
        self.cfg = CFG(fn.node)
        self.rd = ReachingDefs(self.cfg)
        self._memo: dict[tuple, tuple] = {}
        self._budget = 0
        self._ctx = None
        self._follow = False

    def is_object_receiver(self, recv: ast.expr) -> bool:
        """receiver of a method call is an xeofs object (typed attribute / typed local), so that the
        call is a function of its arguments rather than a method of a data value"""
        pm = getattr(self.fn.module, "pm", None)
        if pm is None:
            return False
        if self._ctx is None:
            from .resolve import Ctx

            self._ctx = Ctx(pm, self.fn)
            self._ctx.local_types()
        try:
            t = self._ctx.expr_type(recv)
        except Exception:
            return False
        return t is not None

    # ------------------------------------------------------------------ util
    def node_of(self, expr: ast.AST) -> int:
        n = self.cfg.node_for(expr)
        if n is None:
            # expression inside nested def or unknown
            return self.cfg.entry
        return n

    def guards(self, node: ast.AST) -> list[Guard]:
        return guards_of(self.fn.node, node)

    def statements(self):
        return [n for n in walk_no_nested(self.fn.node) if isinstance(n, ast.stmt) and n is not self.fn.node]

    def calls(self) -> list[ast.Call]:
        return [n for n in walk_no_nested(self.fn.node) if isinstance(n, ast.Call)]

    def is_static_callee(self, expr: ast.expr) -> bool:
        """True when ``expr`` (receiver of a call) names a module / class / external
        library rather than a value (np, xr, dask.array, warnings ...)."""
        d = dotted(expr)
        if d is None:
            return False
        root = d.split(".")[0]
        if root in ("self", "cls"):
            return False
        # a local definition shadows module names
        mod = self.fn.module
        if root in mod.imports or root in mod.classes or root in mod.functions:
            # unless a local variable of the same name exists
            a = self.fn.node.args
            if root in [x.arg for x in a.posonlyargs + a.args + a.kwonlyargs]:
                return False
            for n in walk_no_nested(self.fn.node):
                if isinstance(n, ast.Name) and n.id == root and isinstance(n.ctx, ast.Store):
                    return False
            return True
        return False

    # external callables that return their positional arguments as a tuple, in order (frozen
    # table: dask.compute / dask.base.compute / dask.graph_manipulation.wait_on / persist)
    TUPLE_PRESERVING = {
        "dask.compute", "dask.base.compute", "dask.graph_manipulation.wait_on", "dask.persist", "dask.base.persist",
    }

    def tuple_preserving(self, call: ast.Call) -> bool:
        f = call.func
        d = dotted(f)
        mod = self.fn.module
        if d is not None:
            root = d.split(".")[0]
            if root in mod.imports and root != "self":
                src, attr = mod.imports[root]
                full = (f"{src}.{attr}" if attr else src) + d[len(root):]
                if full in self.TUPLE_PRESERVING:
                    return True
        # self.m(a, b, c) where every return of m is the tuple of its parameters in order
        if isinstance(f, ast.Attribute) and isinstance(f.value, ast.Name) and f.value.id == "self" and self.fn.cls is not None:
            m = self.fn.cls.resolve(f.attr)
            if m is not None:
                params = [p for p in m.positional_params if p != "self"]
                rets = [n for n in walk_no_nested(m.node) if isinstance(n, ast.Return)]
                if not rets:
                    return False
                mf = FuncFacts.of(m)
                for r in rets:
                    if not (isinstance(r.value, ast.Tuple) and len(r.value.elts) == len(params)):
                        return False
                    for i, e in enumerate(r.value.elts):
                        for p in mf.paths(e, spine_only=True):
                            if not (p.atom.kind == "param" and p.atom.name == params[i] and not [o for o in p.ops if o.kind != "unpack"]):
                                return False
                return True
        return False

    # ---------------------------------------------------------------- paths
    def paths(self, expr: ast.expr, at: int | None = None, spine_only: bool = False, follow: bool = False) -> list[Path]:
        """``follow=True``: a call of a small private helper (``self._h(...)``, ``cls._h(...)`` or a private module
        function; not overridden in any subclass) is replaced by the provenance of the helper's return values with the
        helper's parameters bound to the arguments of this call - extract-method refactorings then leave the paths
        unchanged.  Default off: a helper call is an atom of kind 'call'."""
        if at is None:
            at = self.node_of(expr)
        self._budget = 0
        prev = self._follow
        self._follow = bool(follow)
        try:
            res = self._paths(expr, at, frozenset(), {}, spine_only)
        finally:
            self._follow = prev
        return list(res)

    # -- interprocedural step ------------------------------------------------
    FOLLOW_DEPTH = 3
    _follow_depth = 0

    def follow_target(self, e: ast.Call) -> "FuncInfo | None":
        """the private helper a call statically resolves to, when it is safe to look inside it"""
        f = e.func
        mod = self.fn.module
        pm = getattr(mod, "pm", None)
        h = None
        if isinstance(f, ast.Attribute) and isinstance(f.value, ast.Name) and f.value.id in ("self", "cls") and self.fn.cls is not None:
            if not f.attr.startswith("_") or f.attr.startswith("__"):
                return None
            h = self.fn.cls.resolve(f.attr)
            if h is None or pm is None:
                return None
            for k in pm.classes.values():
                if k is not h.cls and f.attr in k.methods and self.fn.cls in k.mro:
                    return None  # a subclass overrides the helper: dispatch could pick another body
        elif isinstance(f, ast.Name) and f.id.startswith("_") and f.id in mod.functions:
            h = mod.functions[f.id]
        if h is None or h is self.fn or h.is_abstract:
            return None
        a = h.node.args
        if a.vararg is not None or a.kwarg is not None:
            return None
        if any(isinstance(x, ast.Starred) for x in e.args) or any(k.arg is None for k in e.keywords):
            return None
        body = [n for n in walk_no_nested(h.node) if isinstance(n, ast.stmt) and n is not h.node]
        if len(body) > 40 or not any(isinstance(n, ast.Return) and n.value is not None for n in body):
            return None
        if any(isinstance(n, (ast.Yield, ast.YieldFrom)) for n in walk_no_nested(h.node)):
            return None
        return h

    @staticmethod
    def bind_call(h: "FuncInfo", e: ast.Call) -> dict:
        a = h.node.args
        pos = [x.arg for x in a.posonlyargs + a.args]
        if pos and not h.is_static and h.cls is not None:
            pos = pos[1:]  # self / cls
        b: dict = {}
        for i, x in enumerate(e.args):
            if i < len(pos):
                b[pos[i]] = x
        for k in e.keywords:
            if k.arg:
                b[k.arg] = k.value
        for pn, d in h.defaults().items():
            b.setdefault(pn, d)
        return b

    def _followed(self, e: ast.Call, h: "FuncInfo", at: int, stack, env, spine) -> list[Path] | None:
        if FuncFacts._follow_depth >= self.FOLLOW_DEPTH:
            return None
        hf = FuncFacts.of(h)
        b = self.bind_call(h, e)
        FuncFacts._follow_depth += 1
        try:
            cps: list[Path] = []
            for r in [n for n in walk_no_nested(h.node) if isinstance(n, ast.Return) and n.value is not None]:
                cps += hf.paths(r.value, spine_only=spine, follow=True)
        finally:
            FuncFacts._follow_depth -= 1
        fr = Frame(hf, b, self, at, None)
        out = self._lift(cps, fr, lambda a: self._paths(a, at, stack, env, spine))
        # the value passed through the helper: rules that ask "was this routed through helper h" still see it
        return self._ext(out, Op("via", dotted(e.func) or norm(e.func), e))

    def _lift(self, cps, fr: Frame, arg_paths) -> list[Path]:
        """callee paths -> caller paths: parameter atoms are replaced by the paths of the bound argument"""
        h = fr.ff.fn
        b = fr.binding
        consts = {pn: x for pn, x in b.items() if isinstance(x, ast.Constant)}
        first = h.positional_params[0] if (h.positional_params and not h.is_static and h.cls is not None) else None
        out: list[Path] = []
        for cp in cps:
            ops = tuple(self._reframe(self._rekey(o, consts), fr) for o in cp.ops)
            if cp.atom.kind == "param" and cp.atom.name in b:
                for p in arg_paths(b[cp.atom.name]):
                    out.append(Path(p.atom, p.ops + ops, p.at))
            elif cp.atom.kind == "param" and cp.atom.name == first:
                out.append(Path(Atom("name", "self", cp.atom.node), ops, fr.at))
            else:
                out.append(Path(cp.atom, ops, fr.at))
        return out

    @staticmethod
    def _reframe(o: Op, fr: Frame) -> Op:
        f2 = fr if o.frame is None else o.frame.reparent(fr)
        return Op(o.kind, o.name, o.node, o.side, o.other, f2)

    def eval_in(self, frame: "Frame | None", expr: ast.expr, spine_only: bool = False) -> list[Path]:
        """provenance of an expression that lives inside a followed helper (``frame`` = the frame of the op it was
        found through), expressed in terms of the function the query started in (= self)"""
        if frame is None:
            return self.paths(expr, spine_only=spine_only, follow=True)
        cps = frame.ff.paths(expr, spine_only=spine_only, follow=True)
        parent_ff = frame.parent_ff
        return parent_ff._lift(cps, frame, lambda a: self._eval_parent(frame, a, spine_only))

    def _eval_parent(self, frame: Frame, a: ast.expr, spine_only: bool) -> list[Path]:
        if frame.parent is None:
            return frame.parent_ff.paths(a, at=frame.at, spine_only=spine_only, follow=True)
        return self.eval_in(frame.parent, a, spine_only)

    @staticmethod
    def _rekey(o: Op, consts: dict) -> Op:
        """``container[key_param]`` inside a helper called with a literal key: the subscript op carries the literal"""
        if o.kind == "subscript" and isinstance(getattr(o.node, "slice", None), ast.Name) and o.node.slice.id in consts:
            c = consts[o.node.slice.id]
            n2 = ast.Subscript(value=o.node.value, slice=c, ctx=ast.Load())
            ast.copy_location(n2, o.node)
            return Op("subscript", norm(c), n2, o.side, o.other)
        return o

    def _paths(self, e: ast.expr, at: int, stack: frozenset, env: dict, spine: bool) -> tuple:
        key = (id(e), at, spine, self._follow, tuple(sorted(env)))
        if key in self._memo and not env:
            return self._memo[key]
        res = tuple(self._paths_uncached(e, at, stack, env, spine))
        self._budget += len(res)
        if self._budget > MAX_PATHS * 40:
            raise AnalysisError(f"provenance path explosion in {self.fn.qualname}")
        if len(res) > MAX_PATHS:
            raise AnalysisError(f"provenance path explosion in {self.fn.qualname}")
        if not env:
            self._memo[key] = res
        return res

    def _ext(self, ps, op: Op):
        return [Path(p.atom, p.ops + (op,), p.at) for p in ps]

    def _from_defs(self, var: str, defs: list[Def], at: int, stack, env, spine, e) -> list[Path]:
        out: list[Path] = []
        for d in defs:
            if d in stack:
                out.append(Path(Atom("cycle", var, e, d), (), at))
                continue
            st2 = stack | {d}
            if d.kind == "param":
                out.append(Path(Atom("param", var, e, d), (), d.node))
            elif d.kind in ("assign", "unpack", "walrus"):
                val = d.value
                if d.index and isinstance(val, ast.Call) and self.tuple_preserving(val) and len(d.index) == 1 \
                        and d.index[0] < len(val.args) and not any(isinstance(a, ast.Starred) for a in val.args):
                    # U, s, VT = dask.compute(U, s, VT): element i of the result is argument i
                    out += self._paths(val.args[d.index[0]], d.node, st2, {}, spine)
                    continue
                ps = self._paths(d.value, d.node, st2, {}, spine)
                for i in d.index:
                    # tuple unpacking of a tuple display: follow the element directly
                    if isinstance(val, (ast.Tuple, ast.List)) and i < len(val.elts):
                        val = val.elts[i]
                        ps = self._paths(val, d.node, st2, {}, spine)
                    else:
                        ps = self._ext(ps, Op("unpack", str(i), d.stmt, other=i))
                        val = None
                out += ps
            elif d.kind == "aug":
                st: ast.AugAssign = d.value  # type: ignore
                # previous value of the target, evaluated before the statement
                prev_defs = self.rd.reaching(var, d.node)
                opname = type(st.op).__name__
                left = self._from_defs(var, prev_defs, d.node, st2, env, spine, st.target) if prev_defs else [
                    Path(Atom("selfattr" if var.startswith("self.") else "name", var, st.target), (), d.node)
                ]
                out += self._ext(left, Op("binop", opname, st, "L", st.value))
                if not spine:
                    right = self._paths(st.value, d.node, st2, {}, spine)
                    out += self._ext(right, Op("binop", opname, st, "R", st.target))
            elif d.kind == "for":
                ps = self._paths(d.value, d.node, st2, {}, spine)
                ps = self._ext(ps, Op("iter", "", d.stmt))
                for i in d.index:
                    ps = self._ext(ps, Op("unpack", str(i), d.stmt, other=i))
                out += ps
            elif d.kind == "with":
                ps = self._paths(d.value, d.node, st2, {}, spine)
                out += self._ext(ps, Op("with", "", d.stmt))
            else:
                out.append(Path(Atom("name", var, e, d), (), d.node))
        return out

    def _paths_uncached(self, e: ast.expr, at: int, stack, env, spine) -> list[Path]:
        if isinstance(e, ast.Constant):
            return [Path(Atom("const", repr(e.value), e), (), at)]
        if isinstance(e, ast.Name):
            if e.id in env:
                it, it_at = env[e.id]
                ps = self._paths(it, it_at, stack, {k: v for k, v in env.items() if k != e.id}, spine)
                return self._ext(ps, Op("iter", "", e))
            defs = self.rd.reaching(e.id, at)
            if not defs and at == self.cfg.entry:
                # an expression that is not part of the function's tree (a normalised copy) is evaluated at the entry:
                # the parameters are defined there
                defs = self.rd.reaching_after(e.id, at)
            if not defs:
                # a module-level constant (_DUMMY_DIM = "dummy_dim") reads as the constant
                mv = getattr(self.fn.module, "assigns", {}).get(e.id)
                if isinstance(mv, ast.Constant) and not any(isinstance(n, ast.Name) and n.id == e.id and isinstance(n.ctx, ast.Store) for n in walk_no_nested(self.fn.node)):
                    return [Path(Atom("const", repr(mv.value), mv), (), at)]
                return [Path(Atom("name", e.id, e), (), at)]
            return self._from_defs(e.id, defs, at, stack, env, spine, e)
        if is_self_attr(e):
            var = f"self.{e.attr}"  # type: ignore
            defs = self.rd.reaching(var, at)
            if not defs and self._follow and self.fn.cls is not None and FuncFacts._follow_depth < self.FOLLOW_DEPTH:
                # a (cached) property of the class: the value is what the property's body returns
                m = self.fn.cls.resolve(e.attr)
                if m is not None and any((dotted(d) or "").split(".")[-1] in ("property", "cached_property") for d in m.node.decorator_list):
                    FuncFacts._follow_depth += 1
                    try:
                        mf = FuncFacts.of(m)
                        out: list[Path] = []
                        for r in [n for n in walk_no_nested(m.node) if isinstance(n, ast.Return) and n.value is not None]:
                            out += [Path(p.atom, p.ops + (Op("via", var, e),), at) for p in mf.paths(r.value, spine_only=spine, follow=True)]
                    finally:
                        FuncFacts._follow_depth -= 1
                    if out:
                        return out
            if not defs:
                return [Path(Atom("selfattr", var, e), (), at)]
            return self._from_defs(var, defs, at, stack, env, spine, e)
        if isinstance(e, ast.Attribute):
            if self.is_static_callee(e):
                return [Path(Atom("name", dotted(e) or norm(e), e), (), at)]
            ps = self._paths(e.value, at, stack, env, spine)
            return self._ext(ps, Op("attr", e.attr, e))
        if isinstance(e, ast.Call):
            return self._call_paths(e, at, stack, env, spine)
        if isinstance(e, ast.BinOp):
            opn = type(e.op).__name__
            out = self._ext(self._paths(e.left, at, stack, env, spine), Op("binop", opn, e, "L", e.right))
            out += self._ext(self._paths(e.right, at, stack, env, spine), Op("binop", opn, e, "R", e.left))
            return out
        if isinstance(e, ast.UnaryOp):
            return self._ext(self._paths(e.operand, at, stack, env, spine), Op("unary", type(e.op).__name__, e))
        if isinstance(e, ast.Subscript):
            node = e
            if isinstance(e.slice, ast.Name) and e.slice.id not in env:
                # container[key] where key is a local bound once to a string literal: the literal is the key
                kd = self.rd.reaching(e.slice.id, at)
                if len(kd) == 1 and kd[0].kind == "assign" and not kd[0].index and isinstance(kd[0].value, ast.Constant) and isinstance(kd[0].value.value, str):
                    node = ast.Subscript(value=e.value, slice=kd[0].value, ctx=ast.Load())
                    ast.copy_location(node, e)
            ps = self._ext(self._paths(e.value, at, stack, env, spine), Op("subscript", norm(node.slice), node))
            if not spine and not isinstance(e.slice, (ast.Constant, ast.Slice)):
                ps += self._ext(self._paths(e.slice, at, stack, env, spine), Op("index", "", e))
            return ps
        if isinstance(e, (ast.Tuple, ast.List, ast.Set)):
            out: list[Path] = []
            for i, x in enumerate(e.elts):
                out += self._ext(self._paths(x, at, stack, env, spine), Op("elt", str(i), e, other=i))
            if not e.elts:
                return [Path(Atom("const", "[]" if isinstance(e, ast.List) else "()", e), (), at)]
            return out
        if isinstance(e, ast.Starred):
            return self._paths(e.value, at, stack, env, spine)
        if isinstance(e, ast.IfExp):
            out = self._ext(self._paths(e.body, at, stack, env, spine), Op("ifexp", "body", e, other=e.test))
            out += self._ext(self._paths(e.orelse, at, stack, env, spine), Op("ifexp", "orelse", e, other=e.test))
            return out
        if isinstance(e, ast.Compare):
            out = []
            for x in [e.left] + list(e.comparators):
                out += self._ext(self._paths(x, at, stack, env, spine), Op("cmp", "", e))
            return out
        if isinstance(e, ast.BoolOp):
            out = []
            for x in e.values:
                out += self._ext(self._paths(x, at, stack, env, spine), Op("bool", type(e.op).__name__, e))
            return out
        if isinstance(e, ast.Dict):
            out = []
            for k, v in zip(e.keys, e.values):
                kn = const_str(k) if k is not None else "**"
                out += self._ext(self._paths(v, at, stack, env, spine), Op("dictval", kn or norm(k), e))
            if not e.values:
                return [Path(Atom("const", "{}", e), (), at)]
            return out
        if isinstance(e, (ast.ListComp, ast.SetComp, ast.GeneratorExp, ast.DictComp)):
            env2 = dict(env)
            for g in e.generators:
                for t in ast.walk(g.target):
                    if isinstance(t, ast.Name):
                        env2[t.id] = (g.iter, at)
            elt = e.value if isinstance(e, ast.DictComp) else e.elt
            return self._ext(self._paths(elt, at, stack, env2, spine), Op("comp", "", e))
        if isinstance(e, ast.NamedExpr):
            return self._paths(e.value, at, stack, env, spine)
        if isinstance(e, ast.JoinedStr):
            return [Path(Atom("const", "fstring", e), (), at)]
        if isinstance(e, ast.Lambda):
            return [Path(Atom("expr", "lambda", e), (), at)]
        if isinstance(e, ast.Slice):
            out = []
            for x in (e.lower, e.upper, e.step):
                if x is not None:
                    out += self._ext(self._paths(x, at, stack, env, spine), Op("slice", "", e))
            return out or [Path(Atom("const", "slice", e), (), at)]
        return [Path(Atom("expr", norm(e)[:40], e), (), at)]

    def _call_paths(self, e: ast.Call, at: int, stack, env, spine) -> list[Path]:
        f = e.func
        out: list[Path] = []
        args = [(i, a) for i, a in enumerate(e.args)] + [(k.arg or "**", k.value) for k in e.keywords]
        if isinstance(f, ast.Attribute) and not self.is_static_callee(f.value) and not (
            isinstance(f.value, ast.Name) and f.value.id in ("self", "cls")
        ) and not (isinstance(f.value, ast.Call) and isinstance(f.value.func, ast.Name) and f.value.func.id == "super") \
                and not self.is_object_receiver(f.value):
            # method call on a value: the receiver is the spine
            out += self._ext(self._paths(f.value, at, stack, env, spine), Op("method", f.attr, e))
            if not spine:
                for pos, a in args:
                    out += self._ext(self._paths(a, at, stack, env, spine), Op("marg", f.attr, e, other=pos))
            return out
        # function-style call (module function, self.method(...), constructor, builtin)
        fname = dotted(f) or norm(f)
        if self._follow:
            h = self.follow_target(e)
            if h is not None:
                got = self._followed(e, h, at, stack, env, spine)
                if got is not None:
                    return got
        for pos, a in args:
            out += self._ext(self._paths(a, at, stack, env, spine), Op("arg", fname, e, other=pos))
        out.append(Path(Atom("call", fname, e), (), at))
        return out

    # ---------------------------------------------------------- convenience
    def value_paths_of_name_at_end(self, var: str) -> list[Path]:
        """paths of a variable as seen at the normal exit of the function."""
        defs = self.rd.reaching(var, self.cfg.exit)
        return self._from_defs(var, defs, self.cfg.exit, frozenset(), {}, False, None)


def strip_trivial(ops) -> list[Op]:
    """drop ops that do not change values: rename/assign_coords/copy/transpose ..."""
    TRIVIAL_METHODS = {
        "rename", "assign_coords", "copy", "transpose", "astype", "drop_vars", "drop",
        "expand_dims", "squeeze", "chunk", "persist", "compute", "load",
    }
    return [o for o in ops if not (o.kind == "method" and o.name in TRIVIAL_METHODS)]
