"""Self-test of the checkers: mutants must be reported, benign variants must stay silent.

Each case is a textual edit of one file of a scratch copy of ``<repo>/xeofs`` (made under
$TMPDIR, removed afterwards).  A case whose anchor text is not found exactly in the current
tree is *skipped* (the tree has been edited), never failed.  The mutated tree must still
compile.  A mutant passes if the property's check reports at least one violation that the
unmodified tree does not report and whose rule id contains the expected fragment; a benign
variant passes if it reports nothing new and raises no analysis error.
"""

from __future__ import annotations

import importlib
import json
import os
import py_compile
import shutil
import sys
import tempfile
import time
import traceback
from concurrent.futures import ProcessPoolExecutor

from .pm import PM, AnalysisError, REPO


def _corpus(prop: str):
    mod = importlib.import_module("xsa.corpus")
    return [c for c in mod.CASES if c["prop"] == prop]


def _violations(prop: str, repo: str):
    from .run import run_property
    from .report import load_known

    chk = run_property(prop, "quick", repo)
    return {o.key(): o for o in chk.obligations if not o.ok}


def _run_case(args):
    prop, case, repo, base_keys = args
    t0 = time.time()
    res = {"name": case["name"], "kind": case["kind"], "file": case["file"], "status": "", "detail": ""}
    src = os.path.join(repo, case["file"])
    try:
        text = open(src).read()
    except OSError:
        res["status"] = "skipped"
        res["detail"] = "file missing"
        return res
    edits = case.get("edits") or [(case["old"], case["new"])]
    for old, new in edits:
        want = 1 if case.get("edits") else case.get("count", 1)
        if text.count(old) != want:
            res["status"] = "skipped"
            res["detail"] = f"anchor occurs {text.count(old)}x (tree changed)"
            return res
        text = text.replace(old, new)
    tmp = tempfile.mkdtemp(prefix="xsa_selftest_")
    try:
        shutil.copytree(os.path.join(repo, "xeofs"), os.path.join(tmp, "xeofs"), ignore=shutil.ignore_patterns("__pycache__"))
        dst = os.path.join(tmp, case["file"])
        with open(dst, "w") as f:
            f.write(text)
        try:
            py_compile.compile(dst, doraise=True, cfile=os.path.join(tmp, "x.pyc"))
        except py_compile.PyCompileError as e:
            res["status"] = "broken-case"
            res["detail"] = f"variant does not compile: {e}"
            return res
        try:
            v = _violations(prop, tmp)
        except AnalysisError as e:
            if case["kind"] == "mutant" and case.get("accept_error"):
                res["status"] = "pass"
                res["detail"] = f"analysis error (accepted): {e}"
            else:
                res["status"] = "FAIL"
                res["detail"] = f"analysis error: {e}"
            return res
        new = [o for k, o in v.items() if k not in base_keys]
        if case["kind"] == "mutant":
            hit = [o for o in new if case["expect"] in o.rule]
            if hit:
                res["status"] = "pass"
                res["detail"] = f"{hit[0].rule} @ {hit[0].func}: {hit[0].construct[:80]}"
            else:
                res["status"] = "FAIL"
                res["detail"] = "not reported" + (f" (other: {[o.rule for o in new][:3]})" if new else "")
        else:
            if new:
                res["status"] = "FAIL"
                res["detail"] = f"benign variant reported: {[(o.rule, o.construct[:60]) for o in new][:3]}"
            else:
                res["status"] = "pass"
    except Exception:
        res["status"] = "FAIL"
        res["detail"] = "internal error: " + traceback.format_exc()[-400:]
    finally:
        shutil.rmtree(tmp, ignore_errors=True)
    res["wall_s"] = round(time.time() - t0, 2)
    return res


DIGEST_FILE = os.path.join(os.path.dirname(os.path.abspath(__file__)), "corpus_digest.json")


def tree_digest(repo: str) -> str:
    import hashlib

    h = hashlib.sha256()
    root = os.path.join(repo, "xeofs")
    for dirpath, dirnames, filenames in os.walk(root):
        dirnames[:] = sorted(d for d in dirnames if d != "__pycache__")
        for fn in sorted(filenames):
            if fn.endswith(".py"):
                p = os.path.join(dirpath, fn)
                h.update(os.path.relpath(p, repo).encode())
                h.update(open(p, "rb").read())
    return h.hexdigest()


def corpus_is_current(repo: str) -> bool:
    """the corpus was validated (every mutant detected, every benign variant silent) on exactly this tree"""
    try:
        return json.load(open(DIGEST_FILE)).get("tree") == tree_digest(repo)
    except (OSError, ValueError):
        return False


def run_for(prop: str, repo: str | None = None, jobs: int | None = None):
    repo = repo or REPO
    cases = _corpus(prop)
    base = _violations(prop, repo)
    base_keys = set(base)
    jobs = jobs or min(16, max(1, len(cases)))
    results = []
    if cases:
        with ProcessPoolExecutor(max_workers=jobs) as ex:
            results = list(ex.map(_run_case, [(prop, c, repo, base_keys) for c in cases]))
    failed = [f"{r['kind']} {r['name']}: {r['detail']}" for r in results if r["status"] in ("FAIL", "broken-case")]
    stale = []
    if failed and not corpus_is_current(repo):
        # the tree is not the one the corpus was validated on: a mutant anchored in edited code may no longer be a
        # mutant (or a benign variant no longer benign); report, but do not call the checker broken
        stale, failed = failed, []
    summary = {
        "mutants": sum(1 for r in results if r["kind"] == "mutant"),
        "mutants_detected": sum(1 for r in results if r["kind"] == "mutant" and r["status"] == "pass"),
        "benign": sum(1 for r in results if r["kind"] == "benign"),
        "benign_silent": sum(1 for r in results if r["kind"] == "benign" and r["status"] == "pass"),
        "skipped": sum(1 for r in results if r["status"] == "skipped"),
        "failed": len(failed),
        "stale_on_edited_tree": len(stale),
        "corpus_validated_on_this_tree": corpus_is_current(repo),
    }
    return {"summary": summary, "cases": results, "failed": failed, "stale": stale}


def main(argv=None):
    import argparse

    ap = argparse.ArgumentParser()
    ap.add_argument("props", nargs="*")
    ap.add_argument("--repo", default=None)
    ap.add_argument("--write-digest", action="store_true")
    a = ap.parse_args(argv)
    mod = importlib.import_module("xsa.corpus")
    props = a.props or sorted({c["prop"] for c in mod.CASES})
    rc = 0
    if a.write_digest:
        repo = a.repo or REPO
        bad = 0
        for p in props:
            r = run_for(p.upper(), repo)
            bad += len(r["failed"]) + len(r["stale"]) + r["summary"]["skipped"]
            print(p, r["summary"])
        if bad:
            print("corpus not clean on this tree: digest NOT written")
            return 2
        json.dump({"tree": tree_digest(repo), "cases": len(mod.CASES)}, open(DIGEST_FILE, "w"), indent=1)
        print("corpus validated; digest written")
        return 0
    for p in props:
        r = run_for(p.upper(), a.repo)
        print(p, r["summary"])
        for c in r["cases"]:
            if c["status"] != "pass":
                print("   ", c["status"], c["kind"], c["name"], "--", c["detail"])
        if r["failed"]:
            rc = 2
    return rc


if __name__ == "__main__":
    sys.exit(main())
