"""Constructor-parameter flow: where does a value inside an ``__init__`` chain (or a
method reading ``self._params[...]`` / ``self.<attr>``) ultimately come from?

For a concrete class D the chain of ``__init__`` calls (``super().__init__(...)``,
``K.__init__(self, ...)``) is followed, binding each callee parameter to the caller's
argument expression, the callee's default, or - for the outermost ``__init__`` - the
user.  ``trace`` expands an expression to its roots through these bindings.
"""

from __future__ import annotations

import ast
from dataclasses import dataclass, field

from .pm import PM, AnalysisError, ClassInfo, FuncInfo, const_str, is_self_attr, norm, walk_no_nested
from .prov import FuncFacts, Path, Op
from .resolve import Ctx


@dataclass
class Frame:
    fn: FuncInfo
    cls: ClassInfo  # dispatch class
    bindings: dict  # param -> ('user', name) | ('default', expr|None) | ('arg', expr, Frame)
    parent: "Frame | None" = None
    call: ast.Call | None = None
    kwargs_forwarded: bool = False


@dataclass(frozen=True)
class Root:
    kind: str  # user | const | other | default
    name: str  # parameter name / repr of constant / text
    ops: tuple = ()  # operations applied from the root outward (innermost first)
    node: object = None

    def subscripts(self) -> list[str]:
        return [o.name for o in self.ops if o.kind == "subscript"]

    def __repr__(self) -> str:
        return f"{self.kind}:{self.name}" + ("".join(f"[{s}]" for s in self.subscripts()))


class InitFlow:
    def __init__(self, pm: PM, cls: ClassInfo):
        self.pm = pm
        self.cls = cls
        self.frames: list[Frame] = []
        init = cls.resolve("__init__")
        if init is None:
            return
        b = {}
        for p in init.params:
            if p == "self":
                continue
            b[p] = ("user", p)
        if init.node.args.kwarg:
            b[init.node.args.kwarg.arg] = ("user", "**" + init.node.args.kwarg.arg)
        root = Frame(init, cls, b)
        self.frames.append(root)
        self._expand(root, 0)

    def _expand(self, fr: Frame, depth: int) -> None:
        if depth > 12:
            raise AnalysisError(f"__init__ chain of {self.cls.name} deeper than 12")
        ctx = Ctx(self.pm, fr.fn, self.cls)
        for call in walk_no_nested(fr.fn.node):
            if not isinstance(call, ast.Call):
                continue
            f = call.func
            if not (isinstance(f, ast.Attribute) and f.attr == "__init__"):
                continue
            ts = ctx.resolve_call(call)
            for t in ts:
                if t.fn is None or t.fn.name != "__init__":
                    continue
                args = list(call.args)
                if args and isinstance(args[0], ast.Name) and args[0].id == "self":
                    args = args[1:]
                params = [p for p in t.fn.positional_params if p != "self"]
                b: dict = {}
                for p, a in zip(params, args):
                    b[p] = ("arg", a, fr)
                star = False
                for k in call.keywords:
                    if k.arg:
                        b[k.arg] = ("arg", k.value, fr)
                    else:
                        star = True
                defaults = t.fn.defaults()
                for p in t.fn.params:
                    if p == "self" or p in b:
                        continue
                    if star and fr.fn.node.args.kwarg is not None:
                        # may arrive through the caller's **kwargs (user supplied)
                        src = fr.bindings.get(fr.fn.node.args.kwarg.arg)
                        if src and src[0] == "user":
                            b[p] = ("user", p)
                            continue
                    b[p] = ("default", defaults.get(p))
                nf = Frame(t.fn, self.cls, b, fr, call, star)
                self.frames.append(nf)
                self._expand(nf, depth + 1)

    def frame_of(self, fn: FuncInfo) -> Frame | None:
        for fr in self.frames:
            if fr.fn == fn:
                return fr
        return None

    # ------------------------------------------------------------------------
    def trace(self, fr: Frame, expr: ast.expr, spine: bool = True, _depth: int = 0) -> list[Root]:
        """Roots of ``expr`` evaluated in frame ``fr``."""
        if _depth > 20:
            raise AnalysisError("constructor flow recursion too deep")
        ff = FuncFacts.of(fr.fn)
        out: list[Root] = []
        for p in ff.paths(expr, spine_only=spine):
            out += self._root_of_path(fr, p, spine, _depth)
        return out

    def _root_of_path(self, fr: Frame, p: Path, spine: bool, depth: int) -> list[Root]:
        a = p.atom
        if a.kind == "param":
            b = fr.bindings.get(a.name)
            if b is None:
                return [Root("other", f"param:{a.name}", p.ops, a.node)]
            if b[0] == "user":
                return [Root("user", b[1], p.ops, a.node)]
            if b[0] == "default":
                d = b[1]
                if d is None:
                    return [Root("other", f"required:{a.name}", p.ops, a.node)]
                if isinstance(d, ast.Constant):
                    return [Root("const", repr(d.value), p.ops, d)]
                return [Root("default", norm(d), p.ops, d)]
            if b[0] == "arg":
                sub = self.trace(b[2], b[1], spine, depth + 1)
                return [Root(r.kind, r.name, r.ops + p.ops, r.node) for r in sub]
        if a.kind == "const":
            return [Root("const", a.name, p.ops, a.node)]
        if a.kind == "selfattr":
            # follow self.<attr> to its assignment in an earlier frame / same frame
            attr = a.name.split(".", 1)[1]
            hits = self.attr_sources(attr)
            if hits:
                out: list[Root] = []
                for hfr, val in hits:
                    if hfr is fr and depth > 0 and False:
                        continue
                    for r in self.trace(hfr, val, spine, depth + 1):
                        out.append(Root(r.kind, r.name, r.ops + p.ops, r.node))
                return out
            return [Root("other", a.name, p.ops, a.node)]
        return [Root("other", repr(a), p.ops, a.node)]

    def attr_sources(self, attr: str) -> list[tuple[Frame, ast.expr]]:
        """``self.<attr> = value`` statements inside the init chain."""
        out = []
        for fr in self.frames:
            for n in walk_no_nested(fr.fn.node):
                if isinstance(n, ast.Assign):
                    for t in n.targets:
                        if is_self_attr(t, attr):
                            out.append((fr, n.value))
                elif isinstance(n, ast.AnnAssign) and n.value is not None and is_self_attr(n.target, attr):
                    out.append((fr, n.value))
        return out

    def params_dict_items(self) -> dict[str, list[tuple[Frame, ast.expr]]]:
        """Literal keys written into ``self._params`` along the chain (in call order),
        with ``pop`` applied: key -> list of (frame, value expr)."""
        items: dict[str, list] = {}
        order = self._frames_in_execution_order()
        for fr, stmt in order:
            self._apply_params_stmt(fr, stmt, items)
        return items

    def _frames_in_execution_order(self):
        """Statements of the init chain in execution order (callee body inlined at the call)."""
        out: list[tuple[Frame, ast.stmt]] = []

        def run(fr: Frame):
            children = [f for f in self.frames if f.parent is fr]
            for st in fr.fn.node.body:
                called = [c for c in children if c.call is not None and _contains(st, c.call)]
                for c in called:
                    run(c)
                out.append((fr, st))

        if self.frames:
            run(self.frames[0])
        return out

    def _apply_params_stmt(self, fr: Frame, st: ast.stmt, items: dict, _depth: int = 0) -> None:
        # a private helper of the class called from the constructor (self._drop_alpha()) is executed in place
        if _depth < 3:
            for c in [x for x in walk_no_nested(st) if isinstance(x, ast.Call)]:
                f = c.func
                if isinstance(f, ast.Attribute) and isinstance(f.value, ast.Name) and f.value.id == "self" and f.attr != "__init__" and f.attr.startswith("_"):
                    m = self.cls.resolve(f.attr)
                    if m is not None and any(isinstance(x, ast.Attribute) and x.attr == "_params" for x in ast.walk(m.node)):
                        hf = Frame(m, self.cls, {}, fr, c, False)
                        for hst in m.node.body:
                            self._apply_params_stmt(hf, hst, items, _depth + 1)
        for n in walk_no_nested(st):
            if isinstance(n, ast.Assign):
                for t in n.targets:
                    if is_self_attr(t, "_params"):
                        items.clear()
                        if isinstance(n.value, ast.Dict):
                            for k, v in zip(n.value.keys, n.value.values):
                                ks = const_str(k)
                                if ks is None:
                                    raise AnalysisError(f"{fr.fn.qualname}: non-literal key in _params")
                                items[ks] = [(fr, v)]
                        elif isinstance(n.value, ast.Call) and isinstance(n.value.func, ast.Name) and n.value.func.id == "dict":
                            for kw in n.value.keywords:
                                if kw.arg:
                                    items[kw.arg] = [(fr, kw.value)]
                        else:
                            raise AnalysisError(f"{fr.fn.qualname}: _params assigned a non-literal")
                    elif isinstance(t, ast.Subscript) and is_self_attr(t.value, "_params"):
                        ks = const_str(t.slice)
                        if ks is None:
                            raise AnalysisError(f"{fr.fn.qualname}: non-literal key written to _params")
                        items[ks] = [(fr, n.value)]
            elif isinstance(n, ast.Delete):
                for t in n.targets:
                    if isinstance(t, ast.Subscript) and is_self_attr(t.value, "_params"):
                        ks = const_str(t.slice)
                        if ks is None:
                            raise AnalysisError(f"{fr.fn.qualname}: del _params[<non-literal>]")
                        items.pop(ks, None)
            elif isinstance(n, ast.Call) and isinstance(n.func, ast.Attribute) and is_self_attr(n.func.value, "_params"):
                if n.func.attr == "update" and not n.args and n.keywords and all(kw.arg for kw in n.keywords):
                    for kw in n.keywords:
                        items[kw.arg] = [(fr, kw.value)]
                elif n.func.attr == "update" and n.args:
                    d = n.args[0]
                    if isinstance(d, ast.Dict):
                        for k, v in zip(d.keys, d.values):
                            ks = const_str(k)
                            if ks is None:
                                raise AnalysisError(f"{fr.fn.qualname}: non-literal key in _params.update")
                            items[ks] = [(fr, v)]
                    else:
                        raise AnalysisError(f"{fr.fn.qualname}: _params.update with a non-literal")
                elif n.func.attr == "pop" and n.args:
                    ks = const_str(n.args[0])
                    if ks is None:
                        raise AnalysisError(f"{fr.fn.qualname}: _params.pop of a non-literal")
                    items.pop(ks, None)
                elif n.func.attr in ("clear",):
                    items.clear()


def _contains(root: ast.AST, target: ast.AST) -> bool:
    for n in ast.walk(root):
        if n is target:
            return True
    return False
