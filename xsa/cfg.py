"""Statement-level control-flow graph, dominators, reaching definitions and guard
extraction for one function, over the statement kinds xeofs uses."""

from __future__ import annotations

import ast
from dataclasses import dataclass, field

from .pm import AnalysisError, flatten_targets, is_self_attr, walk_no_nested


@dataclass
class Node:
    id: int
    kind: str  # entry | exit | raise | stmt | test | loop | case | handler | with
    stmt: ast.AST | None
    expr: ast.AST | None = None  # the expression evaluated at this node
    succ: list[int] = field(default_factory=list)
    pred: list[int] = field(default_factory=list)
    # labels on outgoing edges of a test node: succ index -> True/False/None
    labels: dict[int, object] = field(default_factory=dict)

    def __repr__(self) -> str:
        s = ast.unparse(self.expr or self.stmt)[:50] if (self.expr or self.stmt) else ""
        return f"<N{self.id} {self.kind} {s!r}>"


class CFG:
    def __init__(self, fn_node: ast.FunctionDef):
        self.fn = fn_node
        self.nodes: list[Node] = []
        self.entry = self._new("entry", None)
        self.exit = self._new("exit", None)  # normal return
        self.raise_exit = self._new("raise", None)
        self.node_of_stmt: dict[int, int] = {}  # id(ast stmt) -> node id
        self._loop_stack: list[tuple[int, list[int]]] = []  # (continue target, break list)
        self._handler_stack: list[list[int]] = []
        ends = self._block(fn_node.body, [self.entry])
        for e in ends:
            self._edge(e, self.exit)
        self._dom: dict[int, set[int]] | None = None
        self._pdom: dict[int, set[int]] | None = None

    # -- construction ----------------------------------------------------------
    def _new(self, kind: str, stmt, expr=None) -> int:
        n = Node(len(self.nodes), kind, stmt, expr)
        self.nodes.append(n)
        return n.id

    def _edge(self, a: int, b: int, label=None) -> None:
        if b not in self.nodes[a].succ:
            self.nodes[a].succ.append(b)
            self.nodes[b].pred.append(a)
        if label is not None:
            self.nodes[a].labels[b] = label

    def _may_raise_to_handlers(self, nid: int) -> None:
        if self._handler_stack:
            for h in self._handler_stack[-1]:
                self._edge(nid, h)

    def _block(self, stmts: list[ast.stmt], preds: list[int]) -> list[int]:
        cur = preds
        for st in stmts:
            if not cur:
                # unreachable code: still build nodes so that statements have ids
                cur = []
            cur = self._stmt(st, cur)
        return cur

    def _stmt(self, st: ast.stmt, preds: list[int]) -> list[int]:
        if isinstance(st, ast.If):
            t = self._new("test", st, st.test)
            self.node_of_stmt[id(st)] = t
            for p in preds:
                self._edge(p, t)
            self._may_raise_to_handlers(t)
            # true branch
            tb_entry = self._new("branch", st, None)
            self._edge(t, tb_entry, True)
            ends_t = self._block(st.body, [tb_entry])
            fb_entry = self._new("branch", st, None)
            self._edge(t, fb_entry, False)
            ends_f = self._block(st.orelse, [fb_entry]) if st.orelse else [fb_entry]
            return ends_t + ends_f
        if isinstance(st, (ast.For, ast.While)):
            head = self._new("loop", st, st.iter if isinstance(st, ast.For) else st.test)
            self.node_of_stmt[id(st)] = head
            for p in preds:
                self._edge(p, head)
            self._may_raise_to_handlers(head)
            breaks: list[int] = []
            self._loop_stack.append((head, breaks))
            body_entry = self._new("branch", st, None)
            self._edge(head, body_entry, True)
            ends = self._block(st.body, [body_entry])
            for e in ends:
                self._edge(e, head)
            self._loop_stack.pop()
            out_entry = self._new("branch", st, None)
            self._edge(head, out_entry, False)
            ends_else = self._block(st.orelse, [out_entry]) if st.orelse else [out_entry]
            return ends_else + breaks
        if isinstance(st, ast.Try):
            handlers = [self._new("handler", h, h.type) for h in st.handlers]
            t = self._new("stmt", st, None)
            self.node_of_stmt[id(st)] = t
            for p in preds:
                self._edge(p, t)
            self._handler_stack.append(handlers)
            ends_body = self._block(st.body, [t])
            self._handler_stack.pop()
            ends_else = self._block(st.orelse, ends_body) if st.orelse else ends_body
            ends_h: list[int] = []
            for hnode, h in zip(handlers, st.handlers):
                ends_h += self._block(h.body, [hnode])
            ends = ends_else + ends_h
            if st.finalbody:
                ends = self._block(st.finalbody, ends)
            return ends
        if isinstance(st, (ast.With, ast.AsyncWith)):
            w = self._new("with", st, None)
            self.node_of_stmt[id(st)] = w
            for p in preds:
                self._edge(p, w)
            self._may_raise_to_handlers(w)
            return self._block(st.body, [w])
        if isinstance(st, ast.Match):
            subj = self._new("test", st, st.subject)
            self.node_of_stmt[id(st)] = subj
            for p in preds:
                self._edge(p, subj)
            ends: list[int] = []
            has_default = False
            for case in st.cases:
                c = self._new("case", case, case.pattern)
                self._edge(subj, c)
                ends += self._block(case.body, [c])
                if _is_wildcard(case.pattern) and case.guard is None:
                    has_default = True
            if not has_default:
                ends.append(subj)
            return ends
        if isinstance(st, (ast.FunctionDef, ast.AsyncFunctionDef, ast.ClassDef)):
            n = self._new("stmt", st, None)
            self.node_of_stmt[id(st)] = n
            for p in preds:
                self._edge(p, n)
            return [n]
        n = self._new("stmt", st, None)
        self.node_of_stmt[id(st)] = n
        for p in preds:
            self._edge(p, n)
        if isinstance(st, ast.Return):
            self._edge(n, self.exit)
            self._may_raise_to_handlers(n)
            return []
        if isinstance(st, ast.Raise):
            if self._handler_stack:
                self._may_raise_to_handlers(n)
            # a raise may always escape (handler may not match)
            self._edge(n, self.raise_exit)
            return []
        if isinstance(st, ast.Break):
            if not self._loop_stack:
                raise AnalysisError("break outside loop")
            self._loop_stack[-1][1].append(n)
            return []
        if isinstance(st, ast.Continue):
            self._edge(n, self._loop_stack[-1][0])
            return []
        self._may_raise_to_handlers(n)
        return [n]

    # -- dominators ---------------------------------------------------------------
    def _compute_dom(self, entry: int, succ_attr: str, pred_attr: str) -> dict[int, set[int]]:
        ids = [n.id for n in self.nodes]
        reach = set()
        stack = [entry]
        while stack:
            x = stack.pop()
            if x in reach:
                continue
            reach.add(x)
            stack.extend(getattr(self.nodes[x], succ_attr))
        dom = {i: set(reach) for i in reach}
        dom[entry] = {entry}
        changed = True
        order = sorted(reach)
        while changed:
            changed = False
            for i in order:
                if i == entry:
                    continue
                ps = [p for p in getattr(self.nodes[i], pred_attr) if p in reach]
                if not ps:
                    continue
                new = set.intersection(*(dom[p] for p in ps)) | {i}
                if new != dom[i]:
                    dom[i] = new
                    changed = True
        return dom

    @property
    def dom(self) -> dict[int, set[int]]:
        if self._dom is None:
            self._dom = self._compute_dom(self.entry, "succ", "pred")
        return self._dom

    def dominates(self, a: int, b: int) -> bool:
        """every path entry->b passes through a (b unreachable => True)."""
        d = self.dom.get(b)
        if d is None:
            return True
        return a in d

    def reachable_from_entry(self, b: int) -> bool:
        return b in self.dom

    def node_for(self, stmt_or_expr: ast.AST) -> int | None:
        """CFG node of the statement that contains the given AST node."""
        if id(stmt_or_expr) in self.node_of_stmt:
            return self.node_of_stmt[id(stmt_or_expr)]
        st = self.enclosing_stmt(stmt_or_expr)
        if st is not None and id(st) in self.node_of_stmt:
            return self.node_of_stmt[id(st)]
        return None

    _parents: dict[int, ast.AST] | None = None

    def parents(self) -> dict[int, ast.AST]:
        if self._parents is None:
            p: dict[int, ast.AST] = {}
            for n in ast.walk(self.fn):
                for ch in ast.iter_child_nodes(n):
                    p[id(ch)] = n
            self._parents = p
        return self._parents

    def enclosing_stmt(self, node: ast.AST) -> ast.stmt | None:
        """Innermost statement owning the expression.  For expressions in the header
        of a compound statement (if test, for iter, ...) that compound statement."""
        p = self.parents()
        cur: ast.AST | None = node
        while cur is not None and not isinstance(cur, ast.stmt):
            cur = p.get(id(cur))
        return cur  # type: ignore

    def path_exists_avoiding(self, src: int, dst: int, avoid: set[int]) -> bool:
        stack = [src]
        seen = set()
        while stack:
            x = stack.pop()
            if x in seen or x in avoid:
                continue
            seen.add(x)
            if x == dst:
                return True
            stack.extend(self.nodes[x].succ)
        return False


def _is_wildcard(p: ast.pattern) -> bool:
    return isinstance(p, ast.MatchAs) and p.pattern is None and p.name is None


# ----------------------------------------------------------------------------
# Guards: the conditions under which a statement executes (AST-structural)
# ----------------------------------------------------------------------------
@dataclass
class Guard:
    test: ast.expr  # condition expression (or match subject)
    polarity: bool  # statement executes when test is <polarity>
    kind: str  # 'if' | 'early-exit' | 'case' | 'while' | 'boolop' | 'ifexp'
    pattern: ast.AST | None = None


def always_exits(body: list[ast.stmt]) -> bool:
    """True if the block cannot fall through (ends in raise/return/continue/break on all paths)."""
    if not body:
        return False
    last = body[-1]
    if isinstance(last, (ast.Raise, ast.Return, ast.Continue, ast.Break)):
        return True
    if isinstance(last, ast.If):
        return bool(last.orelse) and always_exits(last.body) and always_exits(last.orelse)
    if isinstance(last, ast.Match):
        return any(_is_wildcard(c.pattern) for c in last.cases) and all(
            always_exits(c.body) for c in last.cases
        )
    return False


def guards_of(fn_node: ast.FunctionDef, target: ast.AST) -> list[Guard]:
    """Conditions on the path from function entry to ``target`` derived from nesting
    (if/elif/else, match/case, while), from earlier sibling ``if c: <exit>`` statements
    (early-exit idiom) and from short-circuit operators / conditional expressions
    inside the owning statement."""
    out: list[Guard] = []

    def visit_block(stmts: list[ast.stmt], acc: list[Guard]) -> bool:
        local: list[Guard] = []
        for st in stmts:
            if _contains(st, target):
                return visit_stmt(st, acc + local)
            if isinstance(st, ast.If) and always_exits(st.body) and not st.orelse:
                local.append(Guard(st.test, False, "early-exit"))
            elif isinstance(st, ast.If) and st.orelse and always_exits(st.orelse) and not always_exits(st.body):
                local.append(Guard(st.test, True, "early-exit"))
        return False

    def visit_stmt(st: ast.stmt, acc: list[Guard]) -> bool:
        nonlocal out
        if st is target:
            out = acc
            return True
        if isinstance(st, ast.If):
            if _contains(st.test, target):
                out = acc + _expr_guards(st.test, target)
                return True
            if any(_contains(s, target) for s in st.body):
                return visit_block(st.body, acc + [Guard(st.test, True, "if")])
            return visit_block(st.orelse, acc + [Guard(st.test, False, "if")])
        if isinstance(st, ast.While):
            if _contains(st.test, target):
                out = acc
                return True
            if any(_contains(s, target) for s in st.body):
                return visit_block(st.body, acc + [Guard(st.test, True, "while")])
            return visit_block(st.orelse, acc)
        if isinstance(st, ast.For):
            if _contains(st.iter, target) or _contains(st.target, target):
                out = acc
                return True
            if any(_contains(s, target) for s in st.body):
                return visit_block(st.body, acc)
            return visit_block(st.orelse, acc)
        if isinstance(st, ast.Match):
            if _contains(st.subject, target):
                out = acc
                return True
            prior: list[Guard] = []
            for case in st.cases:
                if any(_contains(s, target) for s in case.body) or (
                    case.guard is not None and _contains(case.guard, target)
                ):
                    g = Guard(st.subject, True, "case", case.pattern)
                    return visit_block(case.body, acc + prior + [g])
                prior.append(Guard(st.subject, False, "case", case.pattern))
            return False
        if isinstance(st, ast.Try):
            for blk in (st.body, st.orelse, st.finalbody):
                if any(_contains(s, target) for s in blk):
                    return visit_block(blk, acc)
            for h in st.handlers:
                if any(_contains(s, target) for s in h.body):
                    return visit_block(h.body, acc)
            return False
        if isinstance(st, (ast.With, ast.AsyncWith)):
            if any(_contains(s, target) for s in st.body):
                return visit_block(st.body, acc)
            out = acc
            return True
        if isinstance(st, (ast.FunctionDef, ast.AsyncFunctionDef)):
            # nested function: guards of the definition site do not apply to the body
            if any(_contains(s, target) for s in st.body):
                return visit_block(st.body, [])
            out = acc
            return True
        # simple statement containing the target expression
        out = acc + _expr_guards(st, target)
        return True

    visit_block(fn_node.body, [])
    return out


def _contains(root: ast.AST, target: ast.AST) -> bool:
    if root is target:
        return True
    for n in ast.walk(root):
        if n is target:
            return True
    return False


def _expr_guards(root: ast.AST, target: ast.AST) -> list[Guard]:
    """short-circuit / IfExp guards inside one statement."""
    out: list[Guard] = []

    def rec(n: ast.AST) -> bool:
        if n is target:
            return True
        if isinstance(n, ast.BoolOp):
            for i, v in enumerate(n.values):
                if _contains(v, target):
                    for prev in n.values[:i]:
                        out.append(Guard(prev, isinstance(n.op, ast.And), "boolop"))
                    return rec(v)
            return False
        if isinstance(n, ast.IfExp):
            if _contains(n.body, target):
                out.append(Guard(n.test, True, "ifexp"))
                return rec(n.body)
            if _contains(n.orelse, target):
                out.append(Guard(n.test, False, "ifexp"))
                return rec(n.orelse)
            return rec(n.test)
        for ch in ast.iter_child_nodes(n):
            if _contains(ch, target):
                return rec(ch)
        return False

    rec(root)
    return out


# ----------------------------------------------------------------------------
# Reaching definitions
# ----------------------------------------------------------------------------
@dataclass(frozen=True)
class Def:
    var: str  # 'x' or 'self.attr'
    node: int  # cfg node id
    kind: str  # assign | aug | for | with | param | unpack | import | except | del | walrus
    value: object = None  # ast.expr (rhs) or None
    index: tuple = ()  # position in tuple unpacking
    stmt: object = None

    def __repr__(self) -> str:
        return f"<Def {self.var}@N{self.node} {self.kind}{list(self.index) if self.index else ''}>"


def _target_defs(t: ast.expr, value, nid: int, kind: str, stmt, idx=()) -> list[Def]:
    out: list[Def] = []
    if isinstance(t, ast.Name):
        out.append(Def(t.id, nid, kind if not idx else "unpack", value, idx, stmt))
    elif is_self_attr(t):
        out.append(Def(f"self.{t.attr}", nid, kind if not idx else "unpack", value, idx, stmt))  # type: ignore
    elif isinstance(t, (ast.Tuple, ast.List)):
        for i, e in enumerate(t.elts):
            out += _target_defs(e, value, nid, kind, stmt, idx + (i,))
    elif isinstance(t, ast.Starred):
        out += _target_defs(t.value, value, nid, kind, stmt, idx)
    return out


class ReachingDefs:
    """Reaching definitions of local names and ``self.<attr>`` over the CFG."""

    def __init__(self, cfg: CFG):
        self.cfg = cfg
        self.defs_at: dict[int, list[Def]] = {}
        self._gen()
        self._solve()

    def _gen(self) -> None:
        cfg = self.cfg
        fn = cfg.fn
        params: list[Def] = []
        a = fn.args
        for p in a.posonlyargs + a.args + a.kwonlyargs:
            params.append(Def(p.arg, cfg.entry, "param", None, (), None))
        if a.vararg:
            params.append(Def(a.vararg.arg, cfg.entry, "param"))
        if a.kwarg:
            params.append(Def(a.kwarg.arg, cfg.entry, "param"))
        self.defs_at[cfg.entry] = params
        for n in cfg.nodes:
            st = n.stmt
            ds: list[Def] = []
            if n.kind == "stmt" and st is not None:
                if isinstance(st, ast.Assign):
                    for t in st.targets:
                        ds += _target_defs(t, st.value, n.id, "assign", st)
                elif isinstance(st, ast.AnnAssign) and st.value is not None:
                    ds += _target_defs(st.target, st.value, n.id, "assign", st)
                elif isinstance(st, ast.AugAssign):
                    ds += _target_defs(st.target, st, n.id, "aug", st)
                elif isinstance(st, (ast.Import, ast.ImportFrom)):
                    for al in st.names:
                        ds.append(Def((al.asname or al.name).split(".")[0], n.id, "import", None, (), st))
                elif isinstance(st, (ast.FunctionDef, ast.ClassDef)):
                    ds.append(Def(st.name, n.id, "def", None, (), st))
                elif isinstance(st, ast.Delete):
                    for t in st.targets:
                        ds += _target_defs(t, None, n.id, "del", st)
            elif n.kind == "loop" and isinstance(st, ast.For):
                ds += _target_defs(st.target, st.iter, n.id, "for", st)
            elif n.kind == "with" and isinstance(st, ast.With):
                for it in st.items:
                    if it.optional_vars is not None:
                        ds += _target_defs(it.optional_vars, it.context_expr, n.id, "with", st)
            elif n.kind == "handler" and isinstance(st, ast.ExceptHandler) and st.name:
                ds.append(Def(st.name, n.id, "except", None, (), st))
            elif n.kind == "case" and isinstance(st, ast.match_case):
                for sub in ast.walk(st.pattern):
                    if isinstance(sub, ast.MatchAs) and sub.name:
                        ds.append(Def(sub.name, n.id, "case", None, (), st))
            # walrus anywhere in the node's own expressions
            own = n.expr if n.expr is not None else (st if n.kind == "stmt" else None)
            if own is not None and not isinstance(own, (ast.FunctionDef, ast.ClassDef)):
                for sub in walk_no_nested(own):
                    if isinstance(sub, ast.NamedExpr) and isinstance(sub.target, ast.Name):
                        ds.append(Def(sub.target.id, n.id, "walrus", sub.value, (), st))
            if ds:
                self.defs_at.setdefault(n.id, []).extend(ds)

    def _solve(self) -> None:
        cfg = self.cfg
        IN: dict[int, frozenset] = {n.id: frozenset() for n in cfg.nodes}
        OUT: dict[int, frozenset] = {n.id: frozenset() for n in cfg.nodes}
        work = [n.id for n in cfg.nodes]
        while work:
            i = work.pop(0)
            node = cfg.nodes[i]
            inn = frozenset().union(*(OUT[p] for p in node.pred)) if node.pred else frozenset()
            IN[i] = inn
            gen = self.defs_at.get(i, [])
            killed = {d.var for d in gen}
            out = frozenset(d for d in inn if d.var not in killed) | frozenset(gen)
            if out != OUT[i]:
                OUT[i] = out
                for s in node.succ:
                    if s not in work:
                        work.append(s)
        self.IN = IN
        self.OUT = OUT

    def reaching(self, var: str, at_node: int) -> list[Def]:
        """definitions of ``var`` that reach the *entry* of cfg node ``at_node``."""
        return sorted((d for d in self.IN[at_node] if d.var == var), key=lambda d: d.node)

    def reaching_after(self, var: str, at_node: int) -> list[Def]:
        return sorted((d for d in self.OUT[at_node] if d.var == var), key=lambda d: d.node)
