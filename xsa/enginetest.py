"""Unit tests of the engine on small fixtures (CFG, dominators, reaching definitions, guards, provenance,
C3 MRO, call resolution).  Run:  python -m xsa.enginetest   (exit 0 = all passed)

These tests do not look at /repo except for the last group, which cross-checks the static MRO and
call resolution against facts that must hold for any xeofs tree the checks accept.
"""

from __future__ import annotations

import ast
import os
import sys
import tempfile
import textwrap

from .cfg import CFG, ReachingDefs, guards_of
from .pm import PM, AnalysisError, FuncInfo, ModuleInfo
from .prov import FuncFacts

FAILS: list[str] = []


def check(cond, msg):
    if not cond:
        FAILS.append(msg)
        print("FAIL", msg)


def _fn(src: str) -> FuncInfo:
    tree = ast.parse(textwrap.dedent(src))
    mod = ModuleInfo("fx", "<fx>", "<fx>", tree, src, False)
    node = tree.body[0]
    return FuncInfo(node.name, "fx." + node.name + str(id(node)), mod, None, node)


def t_cfg_dominators():
    fn = _fn('''
    def f(x, flag):
        a = 1
        if flag:
            raise ValueError("no")
        b = a + x
        for i in range(3):
            if i == 1:
                continue
            b += i
        else:
            b = b * 2
        return b
    ''')
    ff = FuncFacts.of(fn)
    st = {type(s).__name__ + str(s.lineno): s for s in ff.statements()}
    ifn = ff.cfg.node_for(st["If4"])
    asg = ff.cfg.node_for(st["Assign6"])
    ret = ff.cfg.node_for(st["Return13"])
    check(ff.cfg.dominates(ifn, asg), "if-test dominates the statement after an early raise")
    check(ff.cfg.dominates(asg, ret), "assignment dominates the return")
    aug = ff.cfg.node_for(st["AugAssign10"])
    check(not ff.cfg.dominates(aug, ret), "loop body does not dominate the return")
    gs = guards_of(fn.node, st["Assign6"])
    check(any(g.kind == "early-exit" and not g.polarity for g in gs), "early-exit guard recorded with negative polarity")


def t_reaching_defs():
    fn = _fn('''
    def f(x, c):
        y = x
        if c:
            y = x.conj()
        z = y.T
        U, s, VT = g(z)
        VT *= 2
        return VT
    ''')
    ff = FuncFacts.of(fn)
    ret = [s for s in ff.statements() if isinstance(s, ast.Return)][0]
    ps = ff.paths(ret.value, spine_only=True)
    srcs = {p.atom.kind for p in ps}
    check("call" in srcs and "param" in srcs, "paths reach both the call atom and the parameter")
    via = [p for p in ps if p.atom.kind == "param" and p.atom.name == "x"]
    par = {sum(1 for o in p.ops if o.kind == "method" and o.name == "conj") for p in via}
    check(par == {0, 1}, f"both definitions of y reach z (conj parities {par})")
    check(all(p.has_op("unpack", "2") for p in via), "tuple unpacking index recorded")
    check(all(p.has_op("binop", "Mult") for p in via), "augmented assignment seen as a multiplication")


def t_guards_match_and_boolop():
    fn = _fn('''
    def f(self, x):
        match self.compute:
            case False:
                pass
            case True:
                y = x.values
        ok = self.flag and x.item()
        return y if self.flag else None
    ''')
    ff = FuncFacts.of(fn)
    vals = [n for n in ast.walk(fn.node) if isinstance(n, ast.Attribute) and n.attr == "values"][0]
    gs = ff.guards(vals)
    check(any(g.kind == "case" and g.polarity and isinstance(g.pattern, ast.MatchSingleton) for g in gs), "match/case guard with pattern True")
    item = [n for n in ast.walk(fn.node) if isinstance(n, ast.Call) and isinstance(n.func, ast.Attribute) and n.func.attr == "item"][0]
    gs = ff.guards(item)
    check(any(g.kind == "boolop" and g.polarity for g in gs), "short-circuit `a and b` guards b by a")


def t_tuple_preserving_and_accumulator():
    fn = _fn('''
    def f(self, U, s):
        out = []
        for u in U:
            out.append(u * s)
        return out
    ''')
    ff = FuncFacts.of(fn)
    ret = [s for s in ff.statements() if isinstance(s, ast.Return)][0]
    ps = ff.paths(ret.value, spine_only=True)
    check(all(p.atom.kind == "const" for p in ps), "list accumulators are constants to provenance (rules model appends explicitly)")


def t_program_model(repo):
    pm = PM(repo)
    h = pm.cls("HilbertMCARotator")
    names = [c.name for c in h.mro]
    check(names[:4] == ["HilbertMCARotator", "HilbertCPCCARotator", "ComplexCPCCARotator", "CPCCARotator"], f"C3 MRO of a diamond class: {names[:4]}")
    check(names.index("HilbertMCA") < names.index("HilbertCPCCA") < names.index("ComplexMCA"), "C3 keeps local precedence order")
    # explicit super(Class, self) skips to the class after it in the MRO
    from .resolve import Ctx, calls_in
    tr = pm.cls("HilbertCPCCARotator").methods["transform"]
    ctx = Ctx(pm, tr, h)
    ts = [t for c in calls_in(tr) for t in ctx.resolve_call(c) if t.fn is not None]
    check(any(t.fn.qualname.endswith("HilbertCPCCA.transform") for t in ts), "super(CPCCARotator, self).transform resolves to HilbertCPCCA.transform")
    # typed attribute and list-transformer element resolution
    prep = pm.cls("xeofs.preprocessing.preprocessor.Preprocessor")
    t = pm.attrtype(prep, "scaler")
    check(isinstance(t, tuple) and t[0] == "list" and t[1].name == "Scaler", "GenericListTransformer(Scaler) element type")
    base = pm.cls("BaseModelSingleSet")
    check(pm.attrtype(base, "preprocessor").name == "Preprocessor", "attribute type from constructor assignment")
    # re-exports
    r = pm.resolve_name(pm.modules["xeofs.single.pop"], "PCA")
    check(r and r[0] == "class" and r[1].qualname == "xeofs.preprocessing.pca.PCA", "package re-export resolved")
    try:
        pm.cls("CCA")
        check(False, "ambiguous simple class name must raise")
    except AnalysisError:
        pass


def main():
    t_cfg_dominators()
    t_reaching_defs()
    t_guards_match_and_boolop()
    t_tuple_preserving_and_accumulator()
    t_program_model(os.environ.get("XSA_REPO", "/repo"))
    if FAILS:
        print(f"{len(FAILS)} engine test(s) failed")
        return 2
    print("engine tests passed")
    return 0


if __name__ == "__main__":
    sys.exit(main())
