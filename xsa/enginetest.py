"""Unit tests of the engine on small fixtures (CFG, dominators, reaching definitions, guards, provenance,
C3 MRO, call resolution).  Run:  python -m xsa.enginetest   (exit 0 = all passed)

These tests do not look at /repo except for the last group, which cross-checks the static MRO and
call resolution against facts that must hold for any xeofs tree the checks accept.
"""

from __future__ import annotations

import ast
import os
import sys
import tempfile
import textwrap

from .cfg import CFG, ReachingDefs, guards_of
from .pm import PM, AnalysisError, FuncInfo, ModuleInfo
from .prov import FuncFacts

FAILS: list[str] = []


N_CHECKS = [0]


def check(cond, msg):
    N_CHECKS[0] += 1
    if not cond:
        FAILS.append(msg)
        print("FAIL", msg)


def _fn(src: str) -> FuncInfo:
    tree = ast.parse(textwrap.dedent(src))
    mod = ModuleInfo("fx", "<fx>", "<fx>", tree, src, False)
    node = tree.body[0]
    return FuncInfo(node.name, "fx." + node.name + str(id(node)), mod, None, node)


def t_cfg_dominators():
    fn = _fn('''
    def f(x, flag):
        a = 1
        if flag:
            raise ValueError("no")
        b = a + x
        for i in range(3):
            if i == 1:
                continue
            b += i
        else:
            b = b * 2
        return b
    ''')
    ff = FuncFacts.of(fn)
    st = {type(s).__name__ + str(s.lineno): s for s in ff.statements()}
    ifn = ff.cfg.node_for(st["If4"])
    asg = ff.cfg.node_for(st["Assign6"])
    ret = ff.cfg.node_for(st["Return13"])
    check(ff.cfg.dominates(ifn, asg), "if-test dominates the statement after an early raise")
    check(ff.cfg.dominates(asg, ret), "assignment dominates the return")
    aug = ff.cfg.node_for(st["AugAssign10"])
    check(not ff.cfg.dominates(aug, ret), "loop body does not dominate the return")
    gs = guards_of(fn.node, st["Assign6"])
    check(any(g.kind == "early-exit" and not g.polarity for g in gs), "early-exit guard recorded with negative polarity")


def t_reaching_defs():
    fn = _fn('''
    def f(x, c):
        y = x
        if c:
            y = x.conj()
        z = y.T
        U, s, VT = g(z)
        VT *= 2
        return VT
    ''')
    ff = FuncFacts.of(fn)
    ret = [s for s in ff.statements() if isinstance(s, ast.Return)][0]
    ps = ff.paths(ret.value, spine_only=True)
    srcs = {p.atom.kind for p in ps}
    check("call" in srcs and "param" in srcs, "paths reach both the call atom and the parameter")
    via = [p for p in ps if p.atom.kind == "param" and p.atom.name == "x"]
    par = {sum(1 for o in p.ops if o.kind == "method" and o.name == "conj") for p in via}
    check(par == {0, 1}, f"both definitions of y reach z (conj parities {par})")
    check(all(p.has_op("unpack", "2") for p in via), "tuple unpacking index recorded")
    check(all(p.has_op("binop", "Mult") for p in via), "augmented assignment seen as a multiplication")


def t_guards_match_and_boolop():
    fn = _fn('''
    def f(self, x):
        match self.compute:
            case False:
                pass
            case True:
                y = x.values
        ok = self.flag and x.item()
        return y if self.flag else None
    ''')
    ff = FuncFacts.of(fn)
    vals = [n for n in ast.walk(fn.node) if isinstance(n, ast.Attribute) and n.attr == "values"][0]
    gs = ff.guards(vals)
    check(any(g.kind == "case" and g.polarity and isinstance(g.pattern, ast.MatchSingleton) for g in gs), "match/case guard with pattern True")
    item = [n for n in ast.walk(fn.node) if isinstance(n, ast.Call) and isinstance(n.func, ast.Attribute) and n.func.attr == "item"][0]
    gs = ff.guards(item)
    check(any(g.kind == "boolop" and g.polarity for g in gs), "short-circuit `a and b` guards b by a")


def t_tuple_preserving_and_accumulator():
    fn = _fn('''
    def f(self, U, s):
        out = []
        for u in U:
            out.append(u * s)
        return out
    ''')
    ff = FuncFacts.of(fn)
    ret = [s for s in ff.statements() if isinstance(s, ast.Return)][0]
    ps = ff.paths(ret.value, spine_only=True)
    check(all(p.atom.kind == "const" for p in ps), "list accumulators are constants to provenance (rules model appends explicitly)")


def t_program_model(repo):
    pm = PM(repo)
    h = pm.cls("HilbertMCARotator")
    names = [c.name for c in h.mro]
    check(names[:4] == ["HilbertMCARotator", "HilbertCPCCARotator", "ComplexCPCCARotator", "CPCCARotator"], f"C3 MRO of a diamond class: {names[:4]}")
    check(names.index("HilbertMCA") < names.index("HilbertCPCCA") < names.index("ComplexMCA"), "C3 keeps local precedence order")
    # explicit super(Class, self) skips to the class after it in the MRO
    from .resolve import Ctx, calls_in
    tr = pm.cls("HilbertCPCCARotator").methods["transform"]
    ctx = Ctx(pm, tr, h)
    ts = [t for c in calls_in(tr) for t in ctx.resolve_call(c) if t.fn is not None]
    check(any(t.fn.qualname.endswith("HilbertCPCCA.transform") for t in ts), "super(CPCCARotator, self).transform resolves to HilbertCPCCA.transform")
    # typed attribute and list-transformer element resolution
    prep = pm.cls("xeofs.preprocessing.preprocessor.Preprocessor")
    t = pm.attrtype(prep, "scaler")
    check(isinstance(t, tuple) and t[0] == "list" and t[1].name == "Scaler", "GenericListTransformer(Scaler) element type")
    base = pm.cls("BaseModelSingleSet")
    check(pm.attrtype(base, "preprocessor").name == "Preprocessor", "attribute type from constructor assignment")
    # re-exports
    r = pm.resolve_name(pm.modules["xeofs.single.pop"], "PCA")
    check(r and r[0] == "class" and r[1].qualname == "xeofs.preprocessing.pca.PCA", "package re-export resolved")
    try:
        pm.cls("CCA")
        check(False, "ambiguous simple class name must raise")
    except AnalysisError:
        pass


def _mod(src: str, name="fx"):
    from .normalize import normalise
    tree = ast.parse(textwrap.dedent(src))
    tree, stats = normalise(tree)
    return tree, stats


def t_normal_forms():
    tree, stats = _mod('''
    def f(self, X, Y, kind):
        out = {}
        for key, val, ck in (("X", X, "c1"), ("Y", Y, "c2")):
            if val is None:
                continue
            out[key] = val @ self.data[ck]
        a, b = (z.conj() for z in (X, Y))
        match kind:
            case "fit":
                ref = self.a
            case "transform" | "t":
                ref = self.b
            case _:
                raise ValueError(kind)
        for i in (1, 2):
            if i:
                break
        return out, a, b, ref
    ''')
    check(stats == {"loops_unrolled": 1, "tuple_comprehensions_split": 1, "match_statements_rewritten": 1}, f"normaliser statistics {stats}")
    txt = ast.unparse(tree)
    check("for key" not in txt and "key = 'X'" in txt and "ck = 'c2'" in txt, "literal loop unrolled into assignments + body copies")
    check("if not val is None" in txt or "if not (val is None)" in txt, "`if c: continue` became `if not c: rest`")
    check("a = X.conj()" in txt and "b = Y.conj()" in txt, "tuple = generator over a display split into assignments")
    check("match" not in txt and "kind == 'fit'" in txt and "kind == 'transform' or kind == 't'" in txt and "else:" in txt, "match rewritten as if / elif / else")
    check("for i in (1, 2)" in txt, "a loop with break is left alone")
    compile(txt, "<fx>", "exec")
    # provenance sees the literal key after unrolling
    mod = ModuleInfo("fx", "<fx>", "<fx>", tree, txt, False)
    fn = FuncInfo("f", "fx.f.n", mod, None, tree.body[0])
    ff = FuncFacts.of(fn)
    keys = set()
    for st in ff.statements():
        if isinstance(st, ast.Assign) and isinstance(st.targets[0], ast.Subscript):
            for p in ff.paths(st.value, spine_only=True):
                if p.container_key():
                    keys.add(p.container_key())
    check(keys == {("self.data", "c1"), ("self.data", "c2")}, f"container[key] with a local bound to a literal reads as the literal ({keys})")


def t_conditions():
    from .rules.common import inline_locals, effective_guards, atomic_conditions, cmp_forms, holds, static_truth, switch_cases, chain_heads
    fn = _fn('''
    def f(self, xs, n_data, power):
        n = len(xs)
        oblique = power > 1
        for x in xs:
            if not isinstance(x, int):
                continue
            if x == 0 or self.skip:
                continue
            use(x)
        if not oblique:
            return xs
        if not (n != n_data):
            return inv(xs)
        raise ValueError
    ''')
    ff = FuncFacts.of(fn)
    use = [c for c in ff.calls() if getattr(c.func, "id", "") == "use"][0]
    ac = [(ast.unparse(t), pol) for t, pol in atomic_conditions(ff, use)]
    check(("isinstance(x, int)", True) in ac and ("x == 0", False) in ac and ("self.skip", False) in ac, f"atoms of early-continue guards: {ac}")
    inv = [c for c in ff.calls() if getattr(c.func, "id", "") == "inv"][0]
    eg = [(ast.unparse(t), pol) for t, pol, _ in effective_guards(ff, inv)]
    check(("power > 1", True) in eg, f"flag substituted and `not` folded: {eg}")
    check(any(holds(t, pol, "Eq", lambda e: ast.unparse(e) == "len(xs)", lambda e: ast.unparse(e) == "n_data") for t, pol, _ in effective_guards(ff, inv)),
          "`not (n != n_data)` with n = len(xs) holds as len(xs) == n_data")
    t = ast.parse("not (a < 1)", mode="eval").body
    forms = [(o, ast.unparse(a), ast.unparse(b)) for o, a, b in cmp_forms(t, True)]
    check(forms == [("GtE", "a", "1"), ("LtE", "1", "a")], f"comparison forms {forms}")
    check(static_truth(ast.parse("ref == 'fit' or ref in ('a', 'b')", mode="eval").body, {"ref": "b"}) is True, "static truth with a bound constant")
    check(static_truth(ast.parse("ref == 'fit' and other", mode="eval").body, {"ref": "x"}) is False, "static truth short-circuits")
    check(static_truth(ast.parse("other", mode="eval").body, {"ref": "x"}) is None, "static truth unknown")
    tree, _ = _mod('''
    def g(self):
        match self.solver:
            case "auto":
                u = 1
            case "full" | "exact":
                u = 2
            case _:
                raise ValueError
    ''')
    sw = switch_cases(chain_heads(tree.body[0])[0])
    check(sw is not None and sw[0] == "self.solver" and [sorted(k) for k, _ in sw[1]] == [["auto"], ["exact", "full"]] and sw[2] is not None, "switch table read back from the normal form")


def t_follow(repo):
    src = '''
    import xarray as xr
    class K:
        def _project(self, data, ck, nk, normalized):
            comps = self.data[ck]
            scores = xr.dot(data, comps)
            return scores / self.data[nk] if normalized else scores
        def run(self, X, normalized):
            return self._project(X, "components1", "norm1", normalized)
        def _first(self):
            return self.items[0]
    '''
    d = tempfile.mkdtemp(prefix="xsa_et_")
    try:
        os.makedirs(os.path.join(d, "xeofs"))
        # a miniature package: the program model wants >= 40 modules, so reuse the real tree and add one module
        import shutil
        shutil.copytree(os.path.join(repo, "xeofs"), os.path.join(d, "xeofs"), dirs_exist_ok=True)
        open(os.path.join(d, "xeofs", "zz_fixture.py"), "w").write(textwrap.dedent(src))
        pm = PM(d)
        k = pm.cls("xeofs.zz_fixture.K")
        run = k.methods["run"]
        ff = FuncFacts.of(run)
        ret = [s for s in ff.statements() if isinstance(s, ast.Return)][0]
        plain = ff.paths(ret.value, spine_only=True)
        check(any(p.atom.kind == "call" for p in plain) and not any(p.container_key() for p in plain), "without follow a helper call is an atom")
        ps = ff.paths(ret.value, spine_only=True, follow=True)
        keys = {p.container_key() for p in ps if p.container_key()}
        check(keys == {("self.data", "components1"), ("self.data", "norm1")}, f"helper followed, key parameters read as the literals of the call site ({keys})")
        check(any(p.atom.kind == "param" and p.atom.name == "X" and p.has_op("arg", "xr.dot") and p.has_op("via") for p in ps), "parameter bound to the argument; `via` records the helper")
        div = [o for p in ps for o in p.ops if o.kind == "binop" and o.name == "Div"][0]
        other = ff.eval_in(div.frame, div.other, spine_only=True)
        check(any(q.container_key() == ("self.data", "norm1") for q in other), "eval_in: the other operand of an operation inside the helper, in caller terms")
        from .resolve import Ctx
        from .rules.common import closure_paths, class_closure
        proj = k.methods["_project"]
        dot = [c for c in FuncFacts.of(proj).calls() if getattr(c.func, "attr", "") == "dot"][0]
        cps = closure_paths(pm, k, run, proj, dot.args[0], True)
        check(any(p.atom.kind == "param" and p.atom.name == "X" for p in cps), "closure_paths: helper parameter read through the call site")
        check({f.name for f in class_closure(pm, k, run)} == {"run", "_project"}, "class closure")
    finally:
        import shutil as _sh
        _sh.rmtree(d, ignore_errors=True)


def t_getattr_dispatch(repo):
    src = '''
    from .preprocessing.scaler import Scaler
    class H:
        def __init__(self):
            self.scaler = Scaler()
        def _apply(self, X, method_name):
            return getattr(self.scaler, method_name)(X)
        def forward(self, X):
            return self._apply(X, "transform")
        def backward(self, X):
            return self._apply(X, "inverse_transform_data")
    '''
    d = tempfile.mkdtemp(prefix="xsa_et_")
    try:
        import shutil
        shutil.copytree(os.path.join(repo, "xeofs"), os.path.join(d, "xeofs"))
        open(os.path.join(d, "xeofs", "zz_fixture2.py"), "w").write(textwrap.dedent(src))
        pm = PM(d)
        from .resolve import Ctx, reachable
        h = pm.cls("xeofs.zz_fixture2.H")
        for entry, want, other in (("forward", "Scaler.transform", "Scaler.inverse_transform_data"), ("backward", "Scaler.inverse_transform_data", "Scaler.transform")):
            got = {t.fn.qualname for _, _, t, _ in reachable(pm, Ctx(pm, h.methods[entry], h)) if t.fn is not None}
            check(any(q.endswith(want) for q in got) and not any(q.endswith(other) for q in got), f"getattr dispatch with the caller's string constant: {entry} -> {want}")
    finally:
        import shutil as _sh
        _sh.rmtree(d, ignore_errors=True)


def t_alpha():
    from .report import alpha
    check(alpha("Z[:, i] = zri[0] + 1j * zri[1]") == alpha("Q[:, k] = w[0] + 1j * w[1]"), "constructs equal modulo renaming of locals")
    check(alpha("np.array([a, b])") != alpha("np.asarray([a, b])"), "library names are kept")
    check(alpha(".dropna(sample_name)") == alpha(".dropna(sn_rn)"), "receiver-less method constructs")
    check(alpha("not python (") == "not python (", "unparsable text unchanged")


def t_poly():
    from .rules.common import poly_eval, poly_subst
    fn = _fn('''
    def f(self, X):
        e = self._params["embedding"]
        t = self._params["tau"]
        cut = (e - 1) * t
        keep = X.size - cut
        other = X.size - e * t + t
        wrong = X.size - e * t + 1
        return keep, other, wrong
    ''')
    ff = FuncFacts.of(fn)
    ret = [s for s in ff.statements() if isinstance(s, ast.Return)][0]

    def sym(x):
        t = ast.unparse(x)
        return {"self._params['embedding']": "e", "self._params['tau']": "t", "X.size": "N"}.get(t)

    at = ff.node_of(ret)
    P = [poly_eval(ff, x, at, sym) for x in ret.value.elts]
    check(P[0] == {("N",): 1, ("e", "t"): -1, ("t",): 1}, f"N - (e-1)*t in normal form ({P[0]})")
    check(P[0] == P[1], "two spellings of one polynomial have one normal form")
    check(P[2] != P[0] and poly_subst(P[2], "e", 1) == {("N",): 1, ("t",): -1, (): 1}, "substitution e=1 in the wrong count leaves N - t + 1")
    check(poly_subst(P[0], "e", 1) == {("N",): 1}, "substitution e=1 in the right count leaves N")
    check(poly_eval(ff, ast.parse("X.size / 2").body[0].value, at, sym) is None, "division is not a polynomial: None")


def main():
    t_cfg_dominators()
    t_reaching_defs()
    t_guards_match_and_boolop()
    t_tuple_preserving_and_accumulator()
    repo = os.environ.get("XSA_REPO", "/repo")
    t_program_model(repo)
    t_normal_forms()
    t_conditions()
    t_follow(repo)
    t_getattr_dispatch(repo)
    t_alpha()
    t_poly()
    if FAILS:
        print(f"{len(FAILS)} engine test(s) failed")
        return 2
    print(f"engine tests passed ({N_CHECKS[0]} assertions)")
    return 0


if __name__ == "__main__":
    sys.exit(main())
